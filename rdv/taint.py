"""A6: wire taint over the receive call graph and enumeration of hazard sites (C06)."""
import re
from collections import defaultdict, deque

from rdv.core import (Origins, Pos, call_matches, callee_res, natural_loops, norm_path, strip_generics, switch_edges,
                      term_has, term_leaves, term_str)

ENTRY_PATTERNS = (
    'rtps::message_receiver::MessageReceiver::handle_received_packet',
    'rtps::message_receiver::MessageReceiver::handle_parsed_message',
    'rtps::dp_event_loop::DPEventLoop::handle_writer_acknack_action',
)
WIRE_ADT_PREFIXES = ('messages::submessages::', 'messages::header::', 'rtps::message::Message', 'rtps::submessage::', 'messages::protocol', 'messages::vendor_id')
WIRE_ADTS = ('structure::sequence_number::NumberSet', 'structure::sequence_number::SequenceNumberRange', 'structure::sequence_number::FragmentNumberRange')
SMALL_TYPES = ('u8', 'i8', 'u16', 'i16', 'bool')
READER_CALL_RE = re.compile(r'::read_(value|u8|u16|u32|u64|i8|i16|i32|i64|f32|f64|bytes|vec|bytes_cow|u8_slice)$')

ALLOC_FNS = ('with_capacity', 'resize', 'reserve', 'reserve_exact', 'from_elem', 'grow', 'zeroed', 'set_len', 'repeat', 'extend_from_within')
INDEX_FNS = ('index', 'index_mut', 'split_at', 'split_at_mut', 'split_off', 'split_to', 'copy_from_slice', 'clone_from_slice', 'set', 'advance', 'slice', 'slice_ref', 'truncate_front',
             'get_unchecked', 'swap', 'remove', 'insert', 'drain', 'split_first', 'copy_within', 'set_position')
RANGE_FNS = ('range_inclusive', 'SequenceNumberRange::new', 'FragmentNumberRange::new')
PANIC_FNS = ('core::panicking::panic', 'core::panicking::panic_fmt', 'std::rt::begin_panic', 'core::panicking::panic_display', 'core::panicking::unreachable_display',
             'core::panicking::panic_explicit', 'core::panicking::assert_failed', 'std::rt::panic_fmt', 'core::panicking::panic_nounwind', 'core::option::unwrap_failed',
             'core::result::unwrap_failed', 'core::option::expect_failed')
UNWRAP_FNS = ('unwrap', 'expect', 'unwrap_unchecked')


def is_wire_adt(path):
    p = strip_generics(path or '')
    return p.startswith(WIRE_ADT_PREFIXES) or p in WIRE_ADTS


def ty_is_wire(ty):
    t = strip_generics(ty or '').replace('&', '').replace('mut ', '').strip()
    # Option<Wire>, Box<Wire>, Vec<Wire> etc. were stripped of generics: look inside the original too
    if is_wire_adt(t):
        return True
    for m in re.findall(r'[A-Za-z_][A-Za-z0-9_:]*', ty or ''):
        if is_wire_adt(m):
            return True
    return False


class Taint:
    def __init__(self, fx, roots=None, ty_pred=None, skip_prefixes=('security::', 'ros2::')):
        """roots None: the receive path (C06). Otherwise explicit root fn keys and a predicate deciding which
        local/parameter types carry untrusted content (e.g. the read path over cached changes, C09)."""
        self.fx = fx
        self.cg = fx.callgraph()
        self.ty_pred = ty_pred or ty_is_wire
        self.raw_bytes_roots = roots is None
        self.skip_prefixes = skip_prefixes
        explicit = roots
        roots = list(roots or [])
        for b in (fx.bodies if explicit is None else []):
            if b.key in ENTRY_PATTERNS:
                roots.append(b.key)
            if b.name in ('from_pl_cdr_bytes', 'from_parameter_list') and b.kind in ('fn', 'assoc_fn'):
                roots.append(b.key)
            if b.name in ('read_from', 'read_from_buffer', 'read_from_buffer_with_ctx', 'deserialize', 'deserialize_data', 'deserialize_header', 'from_bytes') and b.kind in ('fn', 'assoc_fn') and \
                    (is_wire_adt(b.impl_self or '') or 'messages::' in b.key or 'rtps::message' in b.key or 'rtps::submessage' in b.key):
                roots.append(b.key)
        self.roots = sorted(set(roots))
        self.reach = fx.reachable_fns(self.roots)
        # drop obviously unrelated subsystems reached only through dyn over-approximation
        self.tparams = defaultdict(set)     # fn key -> tainted param indices (1-based)
        self._og = {}
        self._fixpoint()

    def og(self, b):
        o = self._og.get(id(b))
        if o is None:
            o = Origins(b, summaries=False)
            self._og[id(b)] = o
        return o

    # ---- taint of a term inside body b
    def term_tainted(self, b, term):
        tp = self.tparams.get(b.key, ())
        for x in term_leaves(term):
            if x[0] == 'param' and x[1] in tp:
                return True
            if x[0] == 'call':
                if READER_CALL_RE.search(x[1]) or x[1].endswith('Reader::read_value') or x[1].endswith('Cursor::position') or 'read_from_stream' in x[1] or 'read_from_buffer' in x[1]:
                    return True
            if x[0] == 'captured':
                continue
        return False

    def _seed_params(self, b):
        s = set()
        for i in range(1, b.argc + 1):
            ty = b.locals[i] if i < len(b.locals) else ''
            if self.ty_pred(ty):
                s.add(i)
            # the raw bytes handed to a root of the receive path (the datagram itself, a submessage buffer) are what the sender wrote
            elif self.raw_bytes_roots and b.key in self.roots and any(x in (ty or '') for x in ('bytes::Bytes', 'bytes::BytesMut', '[u8]')):
                s.add(i)
        return s

    def _fixpoint(self):
        fx = self.fx
        work = deque()
        for k in self.reach:
            for b in fx.by_key.get(k, []):
                s = self._seed_params(b)
                # closures: captured wire values
                if s:
                    self.tparams[b.key] |= s
                work.append(b.key)
        seen_iter = 0
        while work and seen_iter < 20000:
            seen_iter += 1
            k = work.popleft()
            for b in fx.by_key.get(k, []):
                og = self.og(b)
                for bb, t in b.calls():
                    tg, _dyn = fx.call_targets(t)
                    tg = [x for x in tg if x in self.reach]
                    if not tg:
                        continue
                    for i, a in enumerate(t['args']):
                        ta = og.of_operand(a, bb, 'term')
                        if self.term_tainted(b, ta) or self._has_wire_field(b, ta):
                            for callee in tg:
                                for cb in fx.by_key.get(callee, []):
                                    idx = i + 1
                                    if cb.kind == 'closure':
                                        idx = i + 1
                                    if idx not in self.tparams[cb.key] and idx <= cb.argc:
                                        self.tparams[cb.key].add(idx)
                                        work.append(cb.key)
                # closures created here capture tainted values: treat the closure's param 1 (environment) as tainted if any capture is
                for bb, si, st in b.statements():
                    if st['s'] == 'assign' and st['rv']['r'] == 'agg' and st['rv'].get('kind') == 'closure':
                        ck = norm_path(st['rv']['def'])
                        if ck not in self.reach:
                            continue
                        for op in st['rv']['ops']:
                            ta = og.of_operand(op, bb, si)
                            if self.term_tainted(b, ta) or self._has_wire_field(b, ta):
                                if 1 not in self.tparams[ck]:
                                    self.tparams[ck].add(1)
                                    work.append(ck)

    def _has_wire_field(self, b, term):
        # a field projection out of a wire ADT is recorded by the driver in the place projection; in terms we only have
        # names, so approximate: any field of a tainted base is tainted (handled by term_tainted); wire-typed locals as roots:
        for x in term_leaves(term):
            if x[0] == 'local':
                ty = b.locals[x[1]] if x[1] < len(b.locals) else ''
                if self.ty_pred(ty):
                    return True
        return False

    def tainted(self, b, term):
        return self.term_tainted(b, term) or self._has_wire_field(b, term)

    # ---- hazard enumeration
    def hazards(self):
        """Yields dicts: kind, fn key, site ordinal key, callee, operand term text, operand type, where."""
        fx = self.fx
        for k in sorted(self.reach):
            for b in fx.by_key.get(k, []):
                if b.key.startswith(self.skip_prefixes):
                    continue
                og = self.og(b)
                counters = defaultdict(int)

                def site(kind, callee, bb, term, ty, extra=None):
                    counters[(kind, callee)] += 1
                    return {'kind': kind, 'fn': b.key, 'key': '%s/%s:%s#%d' % (b.key, kind, callee, counters[(kind, callee)]), 'callee': callee, 'term': term_str(term)[:160],
                            'ty': ty, 'where': b.where(bb), 'bb': bb, 'body': b, 'raw': term, 'extra': extra or {}}
                for bb, t in b.calls():
                    r = strip_generics(callee_res(t))
                    last = r.rsplit('::', 1)[-1]
                    args = t['args']

                    def arg_info(i):
                        if i >= len(args):
                            return None, None
                        a = args[i]
                        ta = og.of_operand(a, bb, 'term')
                        ty = b.locals[a['pl']['l']] if a.get('o') in ('copy', 'move') else (a.get('k', {}).get('ty') if a.get('o') == 'const' else '')
                        return ta, ty
                    if any(r.endswith(x) for x in RANGE_FNS):
                        for i in range(len(args)):
                            ta, ty = arg_info(i)
                            if ta is not None and self.tainted(b, ta):
                                yield site('K1-range', last, bb, ta, ty)
                                break
                    elif last in ALLOC_FNS and ('Vec' in r or 'BytesMut' in r or 'BitVec' in r or 'vec::' in r or 'String' in r or 'Bytes' in r):
                        for i in range(len(args)):
                            ta, ty = arg_info(i)
                            if ta is not None and ty and ty.strip() in ('usize', 'u32', 'u64', 'i32', 'i64') and self.tainted(b, ta):
                                yield site('K2-alloc', last, bb, ta, ty)
                                break
                    elif last in INDEX_FNS and ('slice' in r or 'Vec' in r or 'Bytes' in r or 'BitVec' in r or 'Index' in (t['f'].get('def') or '') or 'Cursor' in r or 'Buf' in r or 'str' in r or 'array' in r):
                        if 'BTree' in r or 'HashMap' in r or 'HashSet' in r:
                            continue
                        hit = False
                        for i in range(1, len(args)):
                            ta, ty = arg_info(i)
                            if ta is not None and self.tainted(b, ta) and ty and any(x in ty for x in ('usize', 'u32', 'u64', 'Range', 'i32', 'i64')):
                                yield site('K3-index', last, bb, ta, ty)
                                hit = True
                                break
                        if not hit and last in ('index', 'index_mut', 'split_at', 'split_to', 'split_off', 'slice', 'advance') and len(args) >= 2:
                            # a constant (partial) index into a container whose length the sender decides
                            tc, _tyc = arg_info(0)
                            ti, tyi = arg_info(1)
                            if tc is not None and self.tainted(b, tc) and tyi and 'RangeFull' not in tyi and \
                                    any(x in tyi for x in ('usize', 'Range')) and not self.tainted(b, ti):
                                yield site('K3-cindex', last, bb, ti, tyi)
                    elif last == 'range' and ('BTreeMap' in r or 'BTreeSet' in r):
                        ta, ty = arg_info(1)
                        # BTreeMap::range panics on start > end (or an empty Excluded..Excluded): a one-sided range type has no such pair
                        one_sided = strip_generics(ty or '').rsplit('::', 1)[-1] in ('RangeFrom', 'RangeTo', 'RangeToInclusive', 'RangeFull')
                        if ta is not None and self.tainted(b, ta) and not one_sided:
                            yield site('K4-btree-range', last, bb, ta, ty)
                    elif last in UNWRAP_FNS and ('Option' in r or 'Result' in r):
                        ta, ty = arg_info(0)
                        if ta is not None and self.tainted(b, ta):
                            yield site('K3-unwrap', last, bb, ta, ty)
                    elif any(r == p or r.startswith(p) for p in PANIC_FNS):
                        mac = t.get('mac') or ''
                        yield site('K3-panic', (mac.split('/')[-1] or last), bb, ('unknown', 'panic'), '', {'mac': mac})
                # bounds-check / overflow asserts inserted by the compiler with tainted operands
                for bb in sorted(b.live_blocks()):
                    t = b.blocks[bb]['term']
                    if t['t'] == 'assert':
                        kind = t.get('kind', '')
                        cond = og.of_operand(t['cond'], bb, 'term')
                        if self.tainted(b, cond):
                            if kind.startswith('BoundsCheck'):
                                yield site('K3-bounds', 'index', bb, cond, '')
                            elif kind.startswith(('Overflow', 'DivisionByZero', 'RemainderByZero')):
                                yield site('K5-arith', kind.split('(')[0], bb, cond, '')
