"""Abstract interpreter for small comparison-only functions (A5).

The domain is finite: enum variants, booleans, small integer constants, and *opaque ordered
scalars* (symbols) whose only observable is their relative order, supplied by a valuation
`order(a, b) in {-1, 0, 1}`. A function that touches its inputs only through comparisons,
discriminant tests and field projections is a function of finitely many such atoms, so
running the interpreter over every valuation decides its input/output relation exhaustively.

This interprets the *MIR facts* of the type-checked program over abstract values; no RustDDS
code is executed.

Values:
  ('int', n)                       integers / bools (bool as 0/1)
  ('sym', name, sort)              opaque ordered scalar
  ('adt', path, variant, {f: v})   struct (variant None) or enum value
  ('tuple', [v...])
  ('ref', cell)                    reference to a Cell
  ('closure', def, {name: v})
  ('unit',)
"""
from rdv.core import CheckBroken, norm_path, strip_generics


class Unsupported(Exception):
    pass


class Cell:
    __slots__ = ('v',)

    def __init__(self, v=None):
        self.v = v


ORD = {-1: 'Less', 0: 'Equal', 1: 'Greater'}
ORD_INV = {'Less': -1, 'Equal': 0, 'Greater': 1}
ORDERING = 'std::cmp::Ordering'


def mk_ordering(c):
    return ('adt', ORDERING, ORD[c], {})


def mk_option(v):
    if v is None:
        return ('adt', 'std::option::Option', 'None', {})
    return ('adt', 'std::option::Option', 'Some', {'0': v})


def mk_bool(b):
    return ('int', 1 if b else 0)


class Interp:
    def __init__(self, fx, order, scalar_adts=(), max_steps=20000, derived_ok=True):
        """order(sym_a, sym_b) -> -1/0/1 for symbols of the same sort."""
        self.fx = fx
        self.order = order
        self.scalar_adts = set(scalar_adts)
        self.steps = 0
        self.max_steps = max_steps
        self.reads = []          # field names read from parameters (for independence checks)
        self.calls_seen = set()  # local functions interpreted
        self.atoms_used = set()  # (sym_a, sym_b) comparisons asked

    # ---- derived / hand-written comparator dispatch
    def _impl(self, ty, trait):
        base = strip_generics(ty)
        for im in self.fx.impls:
            if strip_generics(im['self_ty']) == base and im.get('trait_def') and strip_generics(im['trait_def']) == trait:
                return im
        return None

    def compare(self, a, b):
        """Total order comparison following the program's own Ord/PartialOrd for the type."""
        a = self.deref(a)
        b = self.deref(b)
        if a[0] == 'int' and b[0] == 'int':
            return (a[1] > b[1]) - (a[1] < b[1])
        if a[0] == 'sym' and b[0] == 'sym':
            if a[2] != b[2]:
                raise Unsupported('comparison of symbols of different sorts %s %s' % (a, b))
            self.atoms_used.add((a[1], b[1]))
            return self.order(a[1], b[1])
        if a[0] == 'tuple' and b[0] == 'tuple':
            for x, y in zip(a[1], b[1]):
                c = self.compare(x, y)
                if c:
                    return c
            return 0
        if a[0] == 'adt' and b[0] == 'adt':
            path = a[1]
            if path == ORDERING:
                return (ORD_INV[a[2]] > ORD_INV[b[2]]) - (ORD_INV[a[2]] < ORD_INV[b[2]])
            # which impl does the program use?
            im = self._impl(path, 'std::cmp::PartialOrd')
            if im is None:
                raise Unsupported('no PartialOrd impl for %s' % path)
            if im['derived']:
                return self._derived_cmp(a, b)
            # hand written: interpret partial_cmp
            meth = [it for it in im['items'] if it['name'] == 'partial_cmp']
            if not meth:
                raise Unsupported('hand-written PartialOrd without partial_cmp for %s' % path)
            r = self.call_local(norm_path(meth[0]['def']), [('ref', Cell(a)), ('ref', Cell(b))])
            r = self.deref(r)
            if r[0] == 'adt' and r[2] == 'Some':
                return ORD_INV[self.deref(r[3]['0'])[2]]
            raise Unsupported('partial_cmp returned None')
        raise Unsupported('compare %s %s' % (a[0], b[0]))

    def _derived_cmp(self, a, b):
        adt = self.fx.adts.get(strip_generics(a[1]))
        if adt is None:
            raise Unsupported('unknown adt %s' % a[1])
        if adt['kind'] == 'enum':
            names = [v['name'] for v in adt['variants']]
            ia, ib = names.index(a[2]), names.index(b[2])
            if ia != ib:
                return (ia > ib) - (ia < ib)
            fields = adt['variants'][ia]['fields']
        else:
            fields = adt['variants'][0]['fields']
        for f in fields:
            c = self.compare(a[3][f['name']], b[3][f['name']])
            if c:
                return c
        return 0

    def equal(self, a, b):
        a = self.deref(a)
        b = self.deref(b)
        if a[0] == 'int' and b[0] == 'int':
            return a[1] == b[1]
        if a[0] == 'sym' and b[0] == 'sym':
            self.atoms_used.add((a[1], b[1]))
            return self.order(a[1], b[1]) == 0
        if a[0] == 'tuple' and b[0] == 'tuple':
            return all(self.equal(x, y) for x, y in zip(a[1], b[1]))
        if a[0] == 'adt' and b[0] == 'adt':
            im = self._impl(a[1], 'std::cmp::PartialEq')
            if im is not None and not im['derived']:
                meth = [it for it in im['items'] if it['name'] == 'eq']
                r = self.call_local(norm_path(meth[0]['def']), [('ref', Cell(a)), ('ref', Cell(b))])
                return self.deref(r)[1] != 0
            if a[2] != b[2]:
                return False
            return all(self.equal(a[3][k], b[3][k]) for k in a[3])
        raise Unsupported('equal %s %s' % (a[0], b[0]))

    # ---- values / places
    def deref(self, v):
        while v[0] == 'ref':
            v = v[1].v
        return v

    def read_place(self, env, pl, body):
        cell = env.get(pl['l'])
        if cell is None or cell.v is None:
            raise Unsupported('read of uninitialised local _%d in %s' % (pl['l'], body.key))
        v = cell.v
        for e in pl.get('p') or []:
            if e == '*':
                if v[0] != 'ref':
                    raise Unsupported('deref of non-ref')
                v = v[1].v
                continue
            if isinstance(e, dict):
                v = self.deref(v) if v[0] == 'ref' else v
                if 'f' in e:
                    if v[0] == 'tuple':
                        v = v[1][e['f']]
                    elif v[0] == 'adt':
                        nm = e['n']
                        if nm not in v[3]:
                            raise Unsupported('field %s not in %s::%s' % (nm, v[1], v[2]))
                        v = v[3][nm]
                    elif v[0] == 'closure':
                        v = v[2][e['n']]
                    else:
                        raise Unsupported('field of %s' % v[0])
                elif 'dc' in e:
                    if v[0] != 'adt' or v[2] != e['dc']:
                        raise Unsupported('downcast mismatch %s vs %s' % (v[2] if v[0] == 'adt' else v[0], e['dc']))
                else:
                    raise Unsupported('projection %s' % e)
        return v

    def place_cell(self, env, pl):
        """Cell for a projection-free place (creating it), used for refs and writes."""
        if pl.get('p'):
            return None
        c = env.get(pl['l'])
        if c is None:
            c = Cell()
            env[pl['l']] = c
        return c

    def const(self, k, body):
        c = k.get('c')
        if c == 'int':
            return ('int', k['v'])
        if c == 'zst':
            return ('unit',)
        if c == 'promoted':
            pb = body.j.get('promoted') or []
            idx = k['idx']
            if idx < len(pb):
                return self.run_raw(pb[idx], body, [])
            raise Unsupported('promoted const')
        if c == 'item':
            cst = self.fx.consts.get(strip_generics(k['def']))
            if cst and cst.get('val') is not None:
                return ('int', cst['val'])
            raise Unsupported('named constant %s' % k['def'])
        raise Unsupported('const kind %s' % c)

    def operand(self, env, op, body):
        o = op.get('o')
        if o == 'const':
            return self.const(op['k'], body)
        if o in ('copy', 'move'):
            return self.read_place(env, op['pl'], body)
        raise Unsupported('operand')

    def variant_from_discr(self, v):
        v = self.deref(v)
        if v[0] != 'adt':
            raise Unsupported('discriminant of %s' % v[0])
        path = strip_generics(v[1])
        std = {'std::option::Option': ['None', 'Some'], 'std::result::Result': ['Ok', 'Err']}
        if path in std:
            return std[path].index(v[2])
        if path == ORDERING:
            return ORD_INV[v[2]]
        adt = self.fx.adts.get(path)
        if not adt:
            raise Unsupported('discr of unknown adt %s' % path)
        names = [x['name'] for x in adt['variants']]
        i = names.index(v[2])
        ds = adt.get('discrs') or list(range(len(names)))
        return ds[i]

    # ---- execution
    def call_local(self, key, args):
        bs = self.fx.by_key.get(key)
        if not bs:
            raise Unsupported('no body for %s' % key)
        self.calls_seen.add(key)
        return self.run(bs[0], args)

    def run(self, body, args):
        return self.run_raw(body.j, body, args)

    def run_raw(self, j, body, args):
        env = {}
        for i, a in enumerate(args):
            env[i + 1] = Cell(a)
        bb = 0
        blocks = j['blocks']
        while True:
            self.steps += 1
            if self.steps > self.max_steps:
                raise Unsupported('step limit')
            blk = blocks[bb]
            for st in blk['st']:
                if st['s'] != 'assign':
                    continue
                v = self.rvalue(env, st['rv'], body)
                self.write(env, st['lhs'], v, body)
            t = blk['term']
            k = t['t']
            if k == 'goto':
                bb = t['target']
            elif k == 'return':
                c = env.get(0)
                return c.v if c is not None and c.v is not None else ('unit',)
            elif k == 'switch':
                x = self.deref(self.operand(env, t['x'], body))
                if x[0] != 'int':
                    raise Unsupported('switch on %s' % x[0])
                tgt = t['otherwise']
                for val, b2 in t['arms']:
                    if val == x[1] or (val > 127 and val - 256 == x[1]) or (x[1] < 0 and (x[1] & 0xff) == val):
                        tgt = b2
                        break
                bb = tgt
            elif k == 'drop':
                bb = t['target']
            elif k == 'call':
                r = self.call(env, t, body)
                self.write(env, t['dest'], r, body)
                if t.get('target') is None:
                    raise Unsupported('diverging call')
                bb = t['target']
            elif k == 'assert':
                bb = t['target']
            elif k == 'unreachable':
                raise Unsupported('reached unreachable in %s' % body.key)
            else:
                raise Unsupported('terminator %s' % k)

    def write(self, env, pl, v, body):
        if not pl.get('p'):
            c = env.get(pl['l'])
            if c is None:
                env[pl['l']] = Cell(v)
            else:
                c.v = v
            return
        # write through a projection: support `(*ref) = v` and field writes on locals
        proj = pl['p']
        if proj == ['*']:
            r = env[pl['l']].v
            if r[0] != 'ref':
                raise Unsupported('store through non-ref')
            r[1].v = v
            return
        raise Unsupported('store to projection in %s' % body.key)

    def rvalue(self, env, rv, body):
        r = rv['r']
        if r == 'use':
            return self.operand(env, rv['x'], body)
        if r == 'ref':
            pl = rv['pl']
            c = self.place_cell(env, pl)
            if c is not None:
                return ('ref', c)
            # reference into a projection: reference to a fresh cell holding the projected value;
            # `&(*x)` reborrows keep identity
            if pl['p'] == ['*']:
                v = env[pl['l']].v
                if v[0] == 'ref':
                    return v
            return ('ref', Cell(self.read_place(env, pl, body)))
        if r == 'discr':
            return ('int', self.variant_from_discr(self.read_place(env, rv['pl'], body)))
        if r == 'agg':
            ops = [self.operand(env, o, body) for o in rv['ops']]
            kind = rv.get('kind')
            if kind == 'tuple':
                return ('tuple', ops)
            if kind == 'adt':
                fields = rv.get('fields') or []
                return ('adt', strip_generics(rv['adt']), rv.get('variant'), dict(zip(fields, ops)))
            if kind == 'closure':
                return ('closure', norm_path(rv['def']), dict(zip(rv.get('fields') or [], ops)))
            raise Unsupported('aggregate %s' % kind)
        if r == 'cast':
            v = self.deref(self.operand(env, rv['x'], body))
            if v[0] == 'int':
                return v
            if rv['kind'].startswith('PointerCoercion') or rv['kind'] == 'Transmute':
                return v
            raise Unsupported('cast of %s' % v[0])
        if r == 'bin':
            a = self.deref(self.operand(env, rv['a'], body))
            b = self.deref(self.operand(env, rv['b'], body))
            op = rv['op']
            if op in ('Eq', 'Ne', 'Lt', 'Le', 'Gt', 'Ge'):
                if op in ('Eq', 'Ne'):
                    e = self.equal(a, b)
                    return mk_bool(e if op == 'Eq' else not e)
                c = self.compare(a, b)
                return mk_bool({'Lt': c < 0, 'Le': c <= 0, 'Gt': c > 0, 'Ge': c >= 0}[op])
            if a[0] == 'int' and b[0] == 'int':
                if op in ('BitAnd',):
                    return ('int', a[1] & b[1])
                if op in ('BitOr',):
                    return ('int', a[1] | b[1])
                if op in ('BitXor',):
                    return ('int', a[1] ^ b[1])
                if op.startswith('Add'):
                    return ('int', a[1] + b[1])
                if op.startswith('Sub'):
                    return ('int', a[1] - b[1])
            raise Unsupported('binary op %s on %s,%s' % (op, a[0], b[0]))
        if r == 'un':
            a = self.deref(self.operand(env, rv['a'], body))
            if rv['op'] == 'Not' and a[0] == 'int':
                return ('int', 0 if a[1] else 1)
            raise Unsupported('unary %s' % rv['op'])
        raise Unsupported('rvalue %s' % r)

    def call(self, env, t, body):
        f = t['f']
        if 'def' not in f:
            raise Unsupported('indirect call')
        d = strip_generics(f['def'])
        res = strip_generics(f.get('res') or f['def'])
        args = [self.operand(env, a, body) for a in t['args']]
        last = d.rsplit('::', 1)[-1]
        # comparison traits (declared method decides the semantics; the type's own impl is used by compare())
        if d.startswith('std::cmp::PartialOrd::') and last in ('lt', 'le', 'gt', 'ge'):
            c = self.compare(args[0], args[1])
            return mk_bool({'lt': c < 0, 'le': c <= 0, 'gt': c > 0, 'ge': c >= 0}[last])
        if d == 'std::cmp::PartialOrd::partial_cmp':
            k = norm_path(f.get('res') or '')
            if f.get('res_local') and k in self.fx.by_key and not self._is_derived_method(k):
                return self.call_local(k, args)
            return mk_option(mk_ordering(self.compare(args[0], args[1])))
        if d == 'std::cmp::Ord::cmp':
            k = norm_path(f.get('res') or '')
            if f.get('res_local') and k in self.fx.by_key and not self._is_derived_method(k):
                return self.call_local(k, args)
            return mk_ordering(self.compare(args[0], args[1]))
        if d.startswith('std::cmp::PartialEq::') and last in ('eq', 'ne'):
            e = self.equal(args[0], args[1])
            return mk_bool(e if last == 'eq' else not e)
        if d in ('std::cmp::Ord::max', 'std::cmp::max'):
            return args[0] if self.compare(args[0], args[1]) > 0 else args[1]
        if d in ('std::cmp::Ord::min', 'std::cmp::min'):
            return args[0] if self.compare(args[0], args[1]) <= 0 else args[1]
        if d == 'std::cmp::Ordering::then_with':
            o = self.deref(args[0])
            if o[2] != 'Equal':
                return o
            return self.call_closure(args[1], [])
        if d == 'std::cmp::Ordering::then':
            o = self.deref(args[0])
            return o if o[2] != 'Equal' else self.deref(args[1])
        if d == 'std::cmp::Ordering::reverse':
            o = self.deref(args[0])
            return mk_ordering(-ORD_INV[o[2]])
        if d in ('std::cmp::Ordering::is_lt', 'std::cmp::Ordering::is_le', 'std::cmp::Ordering::is_gt', 'std::cmp::Ordering::is_ge',
                 'std::cmp::Ordering::is_eq', 'std::cmp::Ordering::is_ne'):
            c = ORD_INV[self.deref(args[0])[2]]
            return mk_bool({'is_lt': c < 0, 'is_le': c <= 0, 'is_gt': c > 0, 'is_ge': c >= 0, 'is_eq': c == 0, 'is_ne': c != 0}[last])
        if d in ('std::clone::Clone::clone', 'std::convert::Into::into', 'std::convert::From::from', 'std::borrow::Borrow::borrow',
                 'std::ops::Deref::deref', 'std::convert::identity'):
            k = norm_path(f.get('res') or '')
            if d in ('std::convert::Into::into', 'std::convert::From::from') and f.get('res_local') and k in self.fx.by_key:
                return self.call_local(k, args)
            return self.deref(args[0]) if d == 'std::clone::Clone::clone' else args[0]
        if d == 'std::mem::discriminant':
            v = self.deref(args[0])
            return ('int', self.variant_from_discr(v))
        if d in ('std::option::Option::is_some', 'std::option::Option::is_none'):
            v = self.deref(args[0])
            return mk_bool((v[2] == 'Some') == (last == 'is_some'))
        if d in ('std::option::Option::unwrap_or',):
            v = self.deref(args[0])
            return v[3]['0'] if v[2] == 'Some' else args[1]
        if d in ('std::option::Option::map', 'std::option::Option::and_then', 'std::option::Option::is_some_and',
                 'std::option::Option::map_or'):
            v = self.deref(args[0])
            if last == 'map_or':
                return self.call_closure(args[2], [v[3]['0']]) if v[2] == 'Some' else args[1]
            if v[2] != 'Some':
                return mk_bool(False) if last == 'is_some_and' else v
            r = self.call_closure(args[1], [v[3]['0']])
            return mk_option(r) if last == 'map' else r
        # std range types are comparisons in disguise: (a..b).contains(&x) == a <= x && x < b, etc.
        if d == 'std::ops::RangeInclusive::new':
            return ('adt', 'std::ops::RangeInclusive', None, {'start': args[0], 'end': args[1]})
        if last == 'contains' and d.startswith('std::ops::Range'):
            rg = self.deref(args[0])
            if rg[0] != 'adt' or not rg[1].startswith('std::ops::Range'):
                raise Unsupported('contains on %s' % (rg,))
            kind = rg[1].rsplit('::', 1)[-1]
            lo = hi = True
            if kind in ('Range', 'RangeInclusive', 'RangeFrom'):
                lo = self.compare(rg[3]['start'], args[1]) <= 0
            if kind in ('Range', 'RangeTo'):
                hi = self.compare(args[1], rg[3]['end']) < 0
            if kind in ('RangeInclusive', 'RangeToInclusive'):
                hi = self.compare(args[1], rg[3]['end']) <= 0
            if kind not in ('Range', 'RangeInclusive', 'RangeFrom', 'RangeTo', 'RangeToInclusive'):
                raise Unsupported('range kind %s' % kind)
            return mk_bool(lo and hi)
        # closures called through Fn traits
        if d.startswith('std::ops::Fn') and last in ('call', 'call_mut', 'call_once'):
            targs = self.deref(args[1])
            return self.call_closure(args[0], targs[1] if targs[0] == 'tuple' else [])
        # local functions
        k = norm_path(f.get('res') or f['def'])
        if k in self.fx.by_key and f.get('rk') in ('item', None):
            return self.call_local(k, args)
        raise Unsupported('call to %s' % (f.get('res') or f['def']))

    def _is_derived_method(self, key):
        for im in self.fx.impls:
            if im['derived']:
                for it in im['items']:
                    if norm_path(it['def']) == key:
                        return True
        return False

    def call_closure(self, c, args):
        c = self.deref(c)
        if c[0] != 'closure':
            raise Unsupported('call of non-closure')
        # closure body: arg 1 = the closure environment (by value or by ref), then the arguments
        bs = self.fx.by_key.get(c[1])
        if not bs:
            raise Unsupported('no closure body %s' % c[1])
        b = bs[0]
        envty = b.locals[1] if len(b.locals) > 1 else ''
        self_arg = ('ref', Cell(c)) if envty.startswith('&') else c
        return self.run(b, [self_arg] + list(args))
