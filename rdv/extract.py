"""Fact extraction: runs the mirfacts driver over /repo's current working tree.

Facts are cached by a content hash of the sources; the driver stamps the fact file with
the hash it was asked for and loading refuses a file whose stamp differs (fail closed).
"""
import fcntl
import hashlib
import json
import os
import shutil
import subprocess
import sys
import time

VERIF = os.path.dirname(os.path.dirname(os.path.abspath(__file__)))
REPO = os.environ.get("RDV_REPO", "/repo")
CACHE = os.path.join(VERIF, ".cache")
DRIVER = os.path.join(VERIF, "engine", "mirfacts", "target", "release", "mirfacts")

CONFIGS = {
    "default": [],
    "security": ["--features", "security"],
}


class ExtractError(Exception):
    pass


def source_hash(repo=None):
    repo = repo or REPO
    h = hashlib.sha256()
    files = []
    for root, dirs, names in os.walk(os.path.join(repo, "src")):
        dirs.sort()
        for n in sorted(names):
            files.append(os.path.join(root, n))
    for extra in ("Cargo.toml", "Cargo.lock", "build.rs"):
        p = os.path.join(repo, extra)
        if os.path.exists(p):
            files.append(p)
    for p in files:
        h.update(os.path.relpath(p, repo).encode())
        h.update(b"\0")
        with open(p, "rb") as f:
            h.update(f.read())
        h.update(b"\0")
    # the driver is part of the trusted base: a rebuilt driver invalidates cached facts
    try:
        st = os.stat(DRIVER)
        h.update(("%d:%d" % (st.st_size, int(st.st_mtime))).encode())
    except OSError:
        pass
    return h.hexdigest()[:24]


def _sysroot_lib():
    out = subprocess.run(["rustc", "+nightly", "--print", "sysroot"], capture_output=True, text=True)
    if out.returncode != 0:
        raise ExtractError("nightly toolchain not available: " + out.stderr)
    return os.path.join(out.stdout.strip(), "lib")


def facts_path(config, h):
    return os.path.join(CACHE, "facts-%s-%s.json" % (config, h))


def ensure_driver():
    if not os.path.exists(DRIVER):
        r = subprocess.run(["cargo", "build", "--release", "--offline"],
                           cwd=os.path.join(VERIF, "engine", "mirfacts"), capture_output=True, text=True)
        if r.returncode != 0 or not os.path.exists(DRIVER):
            raise ExtractError("cannot build mirfacts driver:\n" + r.stderr[-4000:])


def extract(config, repo=None, verbose=True):
    """Returns the path of a fact file for `config` that matches the current tree."""
    repo = repo or REPO
    os.makedirs(CACHE, exist_ok=True)
    ensure_driver()
    h = source_hash(repo)
    out = facts_path(config, h)
    lock_path = os.path.join(CACHE, "lock-%s" % config)
    with open(lock_path, "w") as lk:
        fcntl.flock(lk, fcntl.LOCK_EX)
        if os.path.exists(out):
            return out, h, 0.0
        t0 = time.time()
        target = os.path.join(CACHE, "target-%s" % config)
        # cargo would replay cached diagnostics and skip the wrapper: drop the crate's fingerprints
        fp = os.path.join(target, "debug", ".fingerprint")
        if os.path.isdir(fp):
            for n in os.listdir(fp):
                if n.startswith("rustdds-"):
                    shutil.rmtree(os.path.join(fp, n), ignore_errors=True)
        env = dict(os.environ)
        env.update({
            "LD_LIBRARY_PATH": _sysroot_lib() + os.pathsep + env.get("LD_LIBRARY_PATH", ""),
            "RUSTFLAGS": "-Zmir-opt-level=0 -Awarnings",
            "RUSTC_WORKSPACE_WRAPPER": DRIVER,
            "CARGO_TARGET_DIR": target,
            "CARGO_NET_OFFLINE": "true",
            "MIRFACTS_OUT": out,
            "MIRFACTS_STAMP": h,
        })
        env.pop("RUSTC_WRAPPER", None)
        cmd = ["cargo", "+nightly", "check", "--offline", "--lib"] + CONFIGS[config]
        r = subprocess.run(cmd, cwd=repo, env=env, capture_output=True, text=True)
        if r.returncode != 0:
            raise ExtractError("cargo check failed for config %s:\n%s" % (config, r.stderr[-6000:]))
        if not os.path.exists(out):
            raise ExtractError("driver did not run (no fact file) for config %s:\n%s" % (config, r.stderr[-3000:]))
        # drop older fact files of this config (keep disk use bounded)
        for n in os.listdir(CACHE):
            if n.startswith("facts-%s-" % config) and os.path.join(CACHE, n) != out:
                try:
                    os.remove(os.path.join(CACHE, n))
                except OSError:
                    pass
        dt = time.time() - t0
        if verbose:
            print("[extract] config=%s hash=%s %.1fs" % (config, h, dt), file=sys.stderr)
        return out, h, dt


def load(config, repo=None):
    path, h, dt = extract(config, repo)
    # a pickled copy loads much faster than JSON
    import pickle
    pk = path + ".pickle"
    doc = None
    if os.path.exists(pk) and os.path.getmtime(pk) >= os.path.getmtime(path):
        try:
            with open(pk, "rb") as f:
                doc = pickle.load(f)
        except Exception:
            doc = None
    if doc is None:
        with open(path) as f:
            doc = json.load(f)
        try:
            tmp = pk + ".%d" % os.getpid()
            with open(tmp, "wb") as f:
                pickle.dump(doc, f, protocol=pickle.HIGHEST_PROTOCOL)
            os.replace(tmp, pk)
        except Exception:
            pass
    if doc.get("stamp") != h:
        raise ExtractError("fact file stamp %r does not match source hash %r" % (doc.get("stamp"), h))
    doc["_hash"] = h
    doc["_config"] = config
    doc["_extract_s"] = dt
    return doc


if __name__ == "__main__":
    for c in sys.argv[1:] or ["default"]:
        p, h, dt = extract(c)
        print(c, p, h, "%.1fs" % dt)
