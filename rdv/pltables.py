"""A7: extraction of PL-CDR (field <-> ParameterId <-> wire type) tables from MIR."""
from rdv.core import (Origins, Pos, call_matches, callee_res, natural_loops, norm_path, primary_edges, strip_generics,
                      switch_edges, term_has, term_leaves, term_str)

WRAPPERS = {  # wire representation type -> logical type
    'structure::locator::repr::Locator': 'structure::locator::Locator',
    'serialization::speedy_pl_cdr_helpers::StringWithNul': 'std::string::String',
}


def norm_ty(t):
    t = t.strip()
    while t.startswith('&'):
        t = t[1:].strip()
        if t.startswith("'"):
            t = t.split(' ', 1)[1] if ' ' in t else t
        if t.startswith('mut '):
            t = t[4:]
    return WRAPPERS.get(t, t)


def pid_of(term):
    for x in term_leaves(term):
        if x[0] == 'const' and x[1] == 'item' and 'ParameterId::PID_' in str(x[2]):
            return str(x[2]).rsplit('::', 1)[-1]
    return None


PRESENCE_PRESERVING = ('as_ref', 'as_mut', 'as_deref', 'as_deref_mut', 'clone', 'cloned', 'copied', 'map', 'inspect', 'iter', 'into_iter', 'as_slice', 'ok_or', 'ok_or_else', 'ok',
                       'unwrap', 'expect', 'as_pin_ref')


def _calls(t, d=0):
    out = []
    if d > 40 or not isinstance(t, tuple):
        return out
    if t and t[0] == 'call':
        out.append(t)
    for x in t:
        if isinstance(x, tuple):
            out.extend(_calls(x, d + 1))
    return out


def emissions(fx, body):
    """[(pid, wire type, multiplicity, source field names, decisive value conditions, where)] for Parameter::new calls in body (+closures)."""
    out = []
    for b in [body] + fx.closures_of(body):
        og = Origins(b, summaries=False)
        P = Pos(b)
        edges = list(switch_edges(b, fx, og))
        loops = natural_loops(b)
        for bb, t in b.calls():
            if not call_matches(t, 'Parameter::new'):
                continue
            pid = pid_of(og.of_operand(t['args'][0], bb, 'term'))
            val = og.of_operand(t['args'][1], bb, 'term')
            wty = None
            src_fields = set()
            for x in term_leaves(val):
                if x[0] == 'call' and x[1].endswith('write_to_vec_with_ctx'):
                    # find the call terminator to read its generic self type
                    tt = b.blocks[x[3]]['term']
                    wty = norm_ty(tt['f'].get('self_ty') or (tt['f'].get('args') or ['?'])[0])
                    for y in term_leaves(x[2][0]):
                        if y[0] == 'field' and not y[1].isdigit():
                            src_fields.add(y[1])
            # multiplicity / conditions: which switch edges decide whether this call is reached
            in_loop = any(bb in blocks for _h, blocks, _s in loops)
            presence = False
            value_conds = []
            value_cond_terms = []
            for s_, tg, cond, lab in edges:
                # decisive: the emission is reachable from this edge's target but some sibling edge avoids it for this iteration
                if not (P.can_reach((tg, 0), (bb, 'term')) or (tg, 0) == P.norm((bb, 'term'))):
                    continue
                sibs = [t2 for s2, t2, c2, l2 in edges if s2 == s_ and t2 != tg]
                if not sibs:
                    continue
                avoid = [x2 for x2 in sibs if not P.can_reach((x2, 0), (bb, 'term'), avoid_pos=[(s_, 'term')])]
                if not avoid:
                    continue
                if not P.can_reach((0, 0), (s_, 'term')) and s_ != 0:
                    continue
                # classify the condition
                if cond[0] == 'discr':
                    base = cond[1]
                    if term_has(base, lambda y: y[0] == 'call' and y[1].endswith('::next')):
                        continue            # loop iteration
                    if term_has(base, lambda y: y[0] == 'call' and (y[1].endswith('Try::branch') or y[1].endswith('write_to_vec_with_ctx') or y[1].endswith('pl_cdr_rep_id_to_speedy'))) \
                            or lab in ('Continue', 'Break'):
                        continue            # error propagation
                    # Option combinators that keep presence as it is; any other std Option/Result combinator in the tested value
                    # (filter, and_then, take_if, xor, zip, then_some ...) makes the emission depend on the field's value
                    bad = [y[1] for y in _calls(base) if y[1].startswith(('std::option::Option::', 'core::option::Option::', 'std::result::Result::', 'core::result::Result::',
                                                                         'std::bool::', 'core::bool::'))
                           and y[1].rsplit('::', 1)[-1] not in PRESENCE_PRESERVING]
                    if bad:
                        value_conds.append('presence tested through %s' % ', '.join(sorted(set(x.rsplit('::', 1)[-1] for x in bad))))
                        continue
                    presence = True         # Option / enum variant of a field
                    continue
                if term_has(cond, lambda y: y[0] == 'call' and ('log::' in y[1] or y[1].startswith('log'))) or term_has(cond, lambda y: y[0] == 'const' and 'LevelFilter' in str(y[2])):
                    continue
                value_conds.append(term_str(cond)[:100])
                value_cond_terms.append((cond, lab))
            mult = 'all' if in_loop else ('option' if presence else 'first')
            out.append({'pid': pid, 'ty': wty, 'mult': mult, 'fields': sorted(src_fields), 'value_conds': value_conds, 'value_cond_terms': value_cond_terms,
                        'where': b.where(bb), 'fn': b.key})
    return out


GETTERS = {'get_first_from_pl_map': 'first', 'get_option_from_pl_map': 'option', 'get_all_from_pl_map': 'all', 'get_all_option_from_pl_map': 'all'}


def consumptions(fx, body):
    """[(pid, wire type, multiplicity, default, where)] for get_*_from_pl_map calls in body (+closures)."""
    out = []
    for b in [body] + fx.closures_of(body):
        og = Origins(b, summaries=False)
        for bb, t in b.calls():
            name = strip_generics(callee_res(t)).rsplit('::', 1)[-1]
            if name not in GETTERS:
                continue
            pid = None
            for a in t['args']:
                pid = pid or pid_of(og.of_operand(a, bb, 'term'))
            targs = t['f'].get('args') or []
            # generic args: <'a, C, D> or <C, D>; the decoded type is the last type argument
            tys = [a for a in targs if not a.startswith("'")]
            wty = norm_ty(tys[-1]) if tys else None
            # default: unwrap_or(const) applied to the Continue payload of this call
            default = None
            for bb2, t2 in b.calls():
                if callee_res(t2).endswith('::unwrap_or') and t2['args']:
                    a0 = og.of_operand(t2['args'][0], bb2, 'term')
                    if term_has(a0, lambda y: y[0] == 'call' and len(y) > 3 and y[3] == bb):
                        d = og.of_operand(t2['args'][1], bb2, 'term')
                        default = d[2] if d[0] == 'const' else term_str(d)
            out.append({'pid': pid, 'ty': wty, 'mult': GETTERS[name], 'default': default, 'where': b.where(bb), 'fn': b.key})
    return out
