"""Core of the analysis library: fact model, CFG, dominators, origins, call graph.

Everything here works on the JSON facts written by engine/mirfacts; no RustDDS code is
executed. Terms returned by `origin` are nested tuples (see `Origins`).
"""
import re
import sys
from collections import defaultdict, deque


class CheckBroken(Exception):
    """An anchor, fact or floor is missing: the check cannot decide (fail closed)."""


# ----------------------------------------------------------------------------- facts


def strip_generics(s):
    """`a::B<C, D>::e` -> `a::B::e`; also `::<D, DA>`."""
    out = []
    depth = 0
    i = 0
    while i < len(s):
        c = s[i]
        if c == '<':
            depth += 1
        elif c == '>':
            if i > 0 and s[i - 1] == '-':  # '->'
                if depth == 0:
                    out.append(c)
            else:
                depth -= 1
        elif depth == 0:
            out.append(c)
        i += 1
    r = ''.join(out)
    r = r.replace('::::', '::')
    while r.endswith('::'):
        r = r[:-2]
    return r


def norm_path(p):
    """Canonical key of a def path: generics removed unless the path is a `<T as Trait>` form."""
    if p.startswith('<'):
        return p
    return strip_generics(p)


class Body:
    def __init__(self, facts, j):
        self.facts = facts
        self.j = j
        self.path = j['path']
        self.key = norm_path(j['path'])
        self.kind = j['kind']
        self.name = j.get('name', '')
        self.file = j['file']
        self.line = j['line']
        self.end_line = j.get('end_line', j['line'])
        self.encl = norm_path(j.get('encl', j['path']))
        self.impl_trait = j.get('impl_trait')
        self.impl_self = j.get('impl_self')
        self.argc = j['argc']
        self.locals = j['locals']
        self.blocks = j['blocks']
        self.nblocks = len(self.blocks)
        self.from_macro = j.get('from_macro', False)
        self.vis = j.get('vis')
        self._succ = None
        self._pred = None
        self._dom = None
        self._pdom = None
        self._names = None
        self._defs = None

    def __repr__(self):
        return '<Body %s>' % self.path

    def where(self, bb=None, si=None):
        line = self.line
        if bb is not None:
            b = self.blocks[bb]
            if si is not None and si < len(b['st']):
                line = b['st'][si].get('line', line)
            else:
                line = b['term'].get('line', line)
        return '%s:%d' % (self.file, line)

    # -- CFG (normal control flow only; cleanup blocks and unwind edges are excluded)
    def term(self, bb):
        return self.blocks[bb]['term']

    def is_cleanup(self, bb):
        return bool(self.blocks[bb].get('cleanup'))

    def succs(self, bb):
        if self._succ is None:
            self._build_cfg()
        return self._succ[bb]

    def preds(self, bb):
        if self._pred is None:
            self._build_cfg()
        return self._pred[bb]

    def _build_cfg(self):
        succ = []
        for b in self.blocks:
            t = b['term']
            k = t['t']
            if b.get('cleanup'):
                succ.append([])
                continue
            if k == 'goto':
                s = [t['target']]
            elif k == 'switch':
                s = [a[1] for a in t['arms']] + [t['otherwise']]
            elif k in ('call', 'drop', 'assert', 'yield'):
                s = [t['target']] if t.get('target') is not None else []
            else:
                s = []
            # dedupe, keep order
            seen = []
            for x in s:
                if x not in seen:
                    seen.append(x)
            succ.append(seen)
        pred = [[] for _ in self.blocks]
        for i, ss in enumerate(succ):
            for x in ss:
                pred[x].append(i)
        self._succ, self._pred = succ, pred

    def reachable(self, start=0, avoid_blocks=(), avoid_edges=()):
        avoid_blocks = set(avoid_blocks)
        avoid_edges = set(avoid_edges)
        seen = set()
        if start in avoid_blocks:
            return seen
        dq = deque([start])
        seen.add(start)
        while dq:
            b = dq.popleft()
            for s in self.succs(b):
                if s in seen or s in avoid_blocks or (b, s) in avoid_edges:
                    continue
                seen.add(s)
                dq.append(s)
        return seen

    def reachable_rev(self, goal, avoid_blocks=(), avoid_edges=()):
        """Blocks from which `goal` can be reached."""
        avoid_blocks = set(avoid_blocks)
        avoid_edges = set(avoid_edges)
        seen = {goal}
        dq = deque([goal])
        while dq:
            b = dq.popleft()
            for p in self.preds(b):
                if p in seen or p in avoid_blocks or (p, b) in avoid_edges:
                    continue
                seen.add(p)
                dq.append(p)
        return seen

    def live_blocks(self):
        return self.reachable(0)

    def return_blocks(self):
        live = self.live_blocks()
        return [i for i in live if self.blocks[i]['term']['t'] == 'return']

    # -- dominators (iterative, Cooper-Harvey-Kennedy style on RPO)
    def dominators(self):
        if self._dom is not None:
            return self._dom
        order = []
        seen = set()

        def dfs(root):
            stack = [(root, iter(self.succs(root)))]
            seen.add(root)
            while stack:
                n, it = stack[-1]
                adv = False
                for s in it:
                    if s not in seen:
                        seen.add(s)
                        stack.append((s, iter(self.succs(s))))
                        adv = True
                        break
                if not adv:
                    order.append(n)
                    stack.pop()

        dfs(0)
        rpo = list(reversed(order))
        idx = {b: i for i, b in enumerate(rpo)}
        idom = {0: 0}
        changed = True
        while changed:
            changed = False
            for b in rpo[1:]:
                ps = [p for p in self.preds(b) if p in idom]
                if not ps:
                    continue
                new = ps[0]
                for p in ps[1:]:
                    a, c = p, new
                    while a != c:
                        while idx[a] > idx[c]:
                            a = idom[a]
                        while idx[c] > idx[a]:
                            c = idom[c]
                    new = a
                if idom.get(b) != new:
                    idom[b] = new
                    changed = True
        self._dom = idom
        return idom

    def dominates(self, a, b):
        idom = self.dominators()
        if b not in idom:
            return False
        while True:
            if a == b:
                return True
            if b == 0:
                return False
            b = idom[b]

    # -- iterate
    def calls(self, live_only=True):
        live = self.live_blocks() if live_only else range(self.nblocks)
        for bb in sorted(live):
            t = self.blocks[bb]['term']
            if t['t'] in ('call', 'tailcall'):
                yield bb, t

    def statements(self, live_only=True):
        live = self.live_blocks() if live_only else range(self.nblocks)
        for bb in sorted(live):
            for si, st in enumerate(self.blocks[bb]['st']):
                yield bb, si, st

    def local_names(self):
        if self._names is None:
            names = {}
            for d in self.j.get('dbg', []):
                pl = d['pl']
                if not pl.get('p'):
                    names.setdefault(pl['l'], d['name'])
            self._names = names
        return self._names

    def local_by_name(self, name):
        return [l for l, n in self.local_names().items() if n == name]


def callee_def(t):
    """Declared callee path of a call terminator (trait method for trait calls)."""
    f = t['f']
    return f.get('def')


def callee_res(t):
    """Resolved callee path (the selected impl) or the declared one."""
    f = t['f']
    return f.get('res') or f.get('def')


def callee_names(t):
    f = t['f']
    out = []
    if f.get('res'):
        out.append(f['res'])
    if f.get('def'):
        out.append(f['def'])
    return out


def call_matches(t, *pats):
    """True if the resolved or declared callee (generics stripped) ends with / equals one of pats.

    A pattern matches on a `::` boundary: `Writer::handle_ack_nack` matches
    `rtps::writer::Writer::handle_ack_nack`."""
    for n in callee_names(t):
        for cand in (n, strip_generics(n)):
            for p in pats:
                if cand == p or cand.endswith('::' + p):
                    return True
                if p.startswith('<') and cand == p:
                    return True
    return False


class Facts:
    def __init__(self, doc):
        self.doc = doc
        self.config = doc.get('_config')
        self.hash = doc.get('_hash')
        self.bodies = [Body(self, j) for j in doc['bodies']]
        self.by_key = defaultdict(list)
        for b in self.bodies:
            self.by_key[b.key].append(b)
            if b.path != b.key:
                self.by_key[b.path].append(b)
        self.adts = {a['path']: a for a in doc['adts']}
        self.impls = doc['impls']
        self.consts = {c['path']: c for c in doc['consts']}
        self._cg = None
        self._trait_impl_methods = None

    # -- lookup
    def find(self, pat, unique=True, required=True):
        """Find bodies whose normalised path equals pat or ends with `::pat`."""
        res = []
        for b in self.bodies:
            k = b.key
            if k == pat or k.endswith('::' + pat) or b.path == pat:
                res.append(b)
        if not res and required:
            raise CheckBroken('anchor function not found: %s' % pat)
        if unique:
            if len(res) > 1:
                raise CheckBroken('anchor function ambiguous: %s -> %s' % (pat, [b.path for b in res]))
            return res[0] if res else None
        return res

    def closures_of(self, body, transitive=True):
        """Closure/coroutine bodies lexically inside `body`."""
        out = []
        for b in self.bodies:
            if b is body or b.kind not in ('closure', 'coroutine'):
                continue
            if transitive:
                if b.encl == body.key and b.key.startswith(body.key + '::'):
                    out.append(b)
                elif b.key.startswith(body.key + '::{'):
                    out.append(b)
            else:
                if b.j.get('parent') and norm_path(b.j['parent']) == body.key:
                    out.append(b)
        # dedupe
        seen = set()
        res = []
        for b in out:
            if id(b) not in seen:
                seen.add(id(b))
                res.append(b)
        return res

    def adt(self, path):
        p = strip_generics(path)
        a = self.adts.get(p)
        return a

    def variant_name(self, ty, discr_value):
        """Variant name for a discriminant value of type string `ty`."""
        base = strip_generics(ty).lstrip('&').replace('mut ', '').strip()
        std = {
            'std::option::Option': {0: 'None', 1: 'Some'},
            'core::option::Option': {0: 'None', 1: 'Some'},
            'std::result::Result': {0: 'Ok', 1: 'Err'},
            'core::result::Result': {0: 'Ok', 1: 'Err'},
            'std::task::Poll': {0: 'Ready', 1: 'Pending'},
            'core::task::Poll': {0: 'Ready', 1: 'Pending'},
            'std::cmp::Ordering': {255: 'Less', -1: 'Less', 0: 'Equal', 1: 'Greater'},
            'core::cmp::Ordering': {255: 'Less', -1: 'Less', 0: 'Equal', 1: 'Greater'},
            'std::ops::ControlFlow': {0: 'Continue', 1: 'Break'},
            'core::ops::ControlFlow': {0: 'Continue', 1: 'Break'},
            'std::ops::Bound': {0: 'Included', 1: 'Excluded', 2: 'Unbounded'},
        }
        if base in std:
            return std[base].get(discr_value)
        a = self.adts.get(base)
        if a and a['kind'] == 'enum':
            ds = a.get('discrs') or list(range(len(a['variants'])))
            for i, d in enumerate(ds):
                if d == discr_value:
                    return a['variants'][i]['name']
        return None

    def variants(self, ty):
        base = strip_generics(ty)
        a = self.adts.get(base)
        if a:
            return [v['name'] for v in a['variants']]
        return None

    # -- call graph
    def trait_impl_methods(self):
        """(trait_def, method name) -> [body keys of local impls]."""
        if self._trait_impl_methods is None:
            m = defaultdict(list)
            for im in self.impls:
                td = im.get('trait_def')
                if not td:
                    continue
                for it in im['items']:
                    m[(strip_generics(td), it['name'])].append(norm_path(it['def']))
            self._trait_impl_methods = m
        return self._trait_impl_methods

    def call_targets(self, t):
        """Local body keys a call terminator may invoke; (targets, is_dyn)."""
        f = t['f']
        if 'def' not in f:
            return [], True
        res = f.get('res')
        rk = f.get('rk')
        out = []
        if res and rk in ('item', 'closure_once_shim', 'fnptr_shim', 'reify_shim'):
            k = norm_path(res)
            if k in self.by_key:
                out.append(k)
            if f.get('closure'):
                ck = norm_path(f['closure'])
                if ck in self.by_key:
                    out.append(ck)
            if out:
                return out, False
            if f.get('res_local') is False or not f.get('trait'):
                return [], False
        # unresolved / virtual trait call: every local impl of that trait method
        tr = f.get('trait')
        if tr:
            name = f['def'].rsplit('::', 1)[-1]
            cands = self.trait_impl_methods().get((strip_generics(tr), name), [])
            cands = [c for c in cands if c in self.by_key]
            return cands, True
        k = norm_path(f['def'])
        if k in self.by_key:
            return [k], False
        return [], False

    def callgraph(self):
        """key -> set(keys); includes closure-creation edges (fn -> closure)."""
        if self._cg is not None:
            return self._cg
        cg = defaultdict(set)
        dyn = 0
        for b in self.bodies:
            live = b.live_blocks()
            for bb in live:
                blk = b.blocks[bb]
                for st in blk['st']:
                    if st['s'] == 'assign':
                        rv = st['rv']
                        if rv['r'] == 'agg' and rv.get('kind') in ('closure', 'coroutine', 'coroutine_closure'):
                            k = norm_path(rv['def'])
                            if k in self.by_key:
                                cg[b.key].add(k)
                        # function items used as values (passed as callbacks)
                        for op in iter_operands_rv(rv):
                            if op.get('o') == 'const' and op['k'].get('c') == 'fn':
                                k = norm_path(op['k']['def'])
                                if k in self.by_key:
                                    cg[b.key].add(k)
                t = blk['term']
                if t['t'] in ('call', 'tailcall'):
                    tg, is_dyn = self.call_targets(t)
                    if is_dyn:
                        dyn += len(tg)
                    for k in tg:
                        cg[b.key].add(k)
                    for a in t['args']:
                        if a.get('o') == 'const' and a['k'].get('c') == 'fn':
                            k = norm_path(a['k']['def'])
                            if k in self.by_key:
                                cg[b.key].add(k)
        self._cg = cg
        self.dyn_edges = dyn
        return cg

    def projection_summary(self, key):
        """Return term of a local function whose result is a pure projection/aggregate of its
        parameters (getter summary), else None."""
        if not hasattr(self, '_psum'):
            self._psum = {}
        if key in self._psum:
            return self._psum[key]
        self._psum[key] = None
        bs = self.by_key.get(key)
        if not bs or len(bs) != 1:
            return None
        b = bs[0]
        if b.nblocks > 12 or b.kind not in ('fn', 'assoc_fn'):
            return None
        # a getter has no side effects: no store through a projection, no call other than clone/deref-like ones
        for bb, si, st in b.statements():
            if st['s'] == 'assign' and st['lhs'].get('p'):
                return None
        for bb, t in b.calls():
            if not is_transparent_call(t):
                return None
        og = Origins(b)
        rets = b.return_blocks()
        if len(rets) != 1:
            return None
        t = og.of_local(0, rets[0], 'term')
        bad = ('call', 'phi', 'unknown', 'local', 'bin', 'un', 'discr', 'index')
        if term_has(t, lambda x: x[0] in bad):
            return None
        if not term_has(t, lambda x: x[0] == 'param'):
            return None
        self._psum[key] = t
        return t

    def reachable_fns(self, roots):
        cg = self.callgraph()
        seen = set()
        dq = deque()
        for r in roots:
            if r not in seen:
                seen.add(r)
                dq.append(r)
        while dq:
            n = dq.popleft()
            for m in cg.get(n, ()):
                if m not in seen:
                    seen.add(m)
                    dq.append(m)
        return seen

    def callers_of(self, pat):
        """[(body, bb, term)] for every live call whose callee matches pat."""
        out = []
        for b in self.bodies:
            for bb, t in b.calls():
                if call_matches(t, pat):
                    out.append((b, bb, t))
        return out


def iter_operands_rv(rv):
    r = rv['r']
    if r in ('use', 'cast', 'repeat'):
        yield rv['x']
    elif r == 'bin':
        yield rv['a']
        yield rv['b']
    elif r == 'un':
        yield rv['a']
    elif r == 'agg':
        for o in rv['ops']:
            yield o


# ----------------------------------------------------------------------------- origins

TRANSPARENT_CALLS = (
    'std::clone::Clone::clone', 'core::clone::Clone::clone',
    'std::ops::Deref::deref', 'std::ops::DerefMut::deref_mut',
    'core::ops::Deref::deref', 'core::ops::DerefMut::deref_mut',
    'std::convert::Into::into', 'std::convert::From::from',
    'std::convert::AsRef::as_ref', 'std::convert::AsMut::as_mut',
    'std::borrow::Borrow::borrow', 'std::borrow::BorrowMut::borrow_mut',
    'std::option::Option::<T>::as_ref', 'std::option::Option::<T>::as_mut',
    'std::option::Option::<T>::cloned', 'std::option::Option::<T>::copied',
    'std::option::Option::<&T>::cloned', 'std::option::Option::<&T>::copied',
    'std::option::Option::<T>::as_deref', 'std::option::Option::<T>::take',
    'std::result::Result::<T, E>::as_ref', 'std::result::Result::<T, E>::as_mut',
    'std::borrow::ToOwned::to_owned',
    'std::iter::IntoIterator::into_iter',
    'std::ops::Try::branch',  # result of `?`: ControlFlow<residual, value>
    'std::convert::identity',
    'std::pin::Pin::<Ptr>::as_mut', 'std::pin::Pin::<Ptr>::get_mut', 'std::pin::Pin::<&'"'"'a mut T>::get_mut',
    'std::pin::Pin::<Ptr>::as_ref', 'std::pin::Pin::<&'"'"'a T>::get_ref',
)
_TRANSPARENT = set(strip_generics(x) for x in TRANSPARENT_CALLS)


def is_transparent_call(t):
    d = t['f'].get('def')
    if not d:
        return False
    return strip_generics(d) in _TRANSPARENT


class Origins:
    """Backward def-use chase inside one body.

    Term language (tuples):
      ('param', i)                     i-th argument (1-based, MIR numbering)
      ('const', kind, value)           literal / named constant / fn item
      ('field', name, base)            field projection (refs and derefs are transparent)
      ('variant', name, base)          downcast to an enum variant
      ('index', base)                  element of base
      ('call', callee, (args...), bb)  result of a call (callee = resolved path, generics stripped)
      ('bin', op, a, b) ('un', op, a) ('cast', a)
      ('agg', what, (ops...))          aggregate: what = 'tuple' | 'array' | adt path[::Variant] | closure path
      ('discr', base)
      ('phi', (t1, t2, ...))           several reaching definitions
      ('local', l)                     uninitialised / unknown local
      ('unknown', why)
    """

    def __init__(self, body, transparent=True, max_depth=40, summaries=False):
        self.b = body
        self.transparent = transparent
        self.max_depth = max_depth
        self.summaries = summaries
        self._memo = {}
        self._defsites = None

    # definition sites of each local: list of (bb, si or 'term', kind)
    def defsites(self):
        if self._defsites is None:
            d = defaultdict(list)
            for bb in range(self.b.nblocks):
                blk = self.b.blocks[bb]
                for si, st in enumerate(blk['st']):
                    if st['s'] in ('assign', 'setdiscr'):
                        d[st['lhs']['l']].append((bb, si, bool(st['lhs'].get('p'))))
                t = blk['term']
                if t['t'] == 'call' and 'dest' in t:
                    d[t['dest']['l']].append((bb, 'term', bool(t['dest'].get('p'))))
                if t['t'] == 'yield' and 'resume_arg' in t:
                    pass
            self._defsites = d
        return self._defsites

    def reaching_defs(self, local, bb, si):
        """Whole-local definitions of `local` reaching the point just before (bb, si).

        si may be an int (statement index), 'term' (the terminator) or 'end' (after the
        terminator's own definition, i.e. on the edge out of bb).
        Returns list of ('stmt', bb, si) / ('call', bb) / ('entry',)."""
        b = self.b
        res = []
        seen = set()

        def scan_block(blk_i, upto):
            """scan statements [0, upto) backwards; return def or None"""
            st = b.blocks[blk_i]['st']
            for i in range(min(upto, len(st)) - 1, -1, -1):
                s_ = st[i]
                if s_['s'] == 'assign' and s_['lhs']['l'] == local and not s_['lhs'].get('p'):
                    return ('stmt', blk_i, i)
                if s_['s'] == 'assign' and s_['rv']['r'] in ('ref', 'rawptr') and s_['rv'].get('mut', s_['rv']['r'] == 'rawptr') and \
                        s_['rv']['pl']['l'] == local and '*' not in (s_['rv']['pl'].get('p') or []):
                    # `&mut local...` handed out: whoever gets it may overwrite the local (mem::swap, push, ...)
                    return ('mutborrow', blk_i, i)
            return None

        # starting block
        if si == 'end':
            t = b.blocks[bb]['term']
            if t['t'] == 'call' and t['dest']['l'] == local and not t['dest'].get('p'):
                return [('call', bb)]
            upto = len(b.blocks[bb]['st'])
        elif si == 'term':
            upto = len(b.blocks[bb]['st'])
        else:
            upto = si
        d = scan_block(bb, upto)
        if d:
            return [d]
        work = deque()
        for p in b.preds(bb):
            work.append(p)
        if bb == 0:
            res.append(('entry',))
        while work:
            p = work.popleft()
            if p in seen:
                continue
            seen.add(p)
            t = b.blocks[p]['term']
            if t['t'] == 'call' and t['dest']['l'] == local and not t['dest'].get('p'):
                res.append(('call', p))
                continue
            d = scan_block(p, len(b.blocks[p]['st']))
            if d:
                res.append(d)
                continue
            if p == 0:
                res.append(('entry',))
            for q in b.preds(p):
                if q not in seen:
                    work.append(q)
        # dedupe
        out = []
        for r in res:
            if r not in out:
                out.append(r)
        return out

    # -- public API
    def of_operand(self, op, bb, si, depth=0):
        o = op.get('o')
        if o == 'const':
            return self._const(op['k'])
        if o in ('copy', 'move'):
            return self.of_place(op['pl'], bb, si, depth)
        return ('unknown', 'operand')

    def _const(self, k):
        c = k.get('c')
        if c == 'int':
            return ('const', 'int', k['v'])
        if c == 'str':
            return ('const', 'str', k['v'])
        if c == 'item':
            return ('const', 'item', strip_generics(k['def']))
        if c == 'fn':
            return ('const', 'fn', strip_generics(k['def']))
        if c == 'promoted':
            pj = (self.b.j.get('promoted') or [])
            if k['idx'] < len(pj) and not getattr(self, '_in_promoted', False):
                try:
                    j = dict(self.b.j)
                    j.update(pj[k['idx']])
                    j['promoted'] = None
                    pb = Body(self.b.facts, j)
                    po = Origins(pb, transparent=True)
                    po._in_promoted = True
                    rets = pb.return_blocks()
                    if rets:
                        t = po.of_local(0, rets[0], 'term')
                        if t[0] in ('const', 'agg'):
                            return t
                except Exception:
                    pass
            return ('const', 'promoted', k['idx'])
        if c == 'zst':
            return ('const', 'zst', k.get('ty'))
        if c == 'ptr' and k.get('bytes'):
            # byte-string literal: ('const', 'ptr', type, b'RTPS')
            return ('const', 'ptr', k.get('ty'), bytes(k['bytes']))
        return ('const', c, k.get('ty'))

    def of_place(self, pl, bb, si, depth=0):
        base = self.of_local(pl['l'], bb, si, depth)
        return self._project(base, pl.get('p') or [])

    def _project(self, base, proj):
        t = base
        for e in proj:
            if e == '*':
                if not self.transparent:
                    t = ('deref', t)
                continue
            if isinstance(e, dict):
                if 'f' in e:
                    t = self._field(t, e['n'], e['f'])
                elif 'dc' in e:
                    t = ('variant', e['dc'], t)
                elif 'idx' in e or 'cidx' in e or 'sub' in e:
                    t = ('index', t)
                else:
                    t = ('unknown', 'proj')
            else:
                pass  # opaque casts
        return t

    def _field(self, t, name, idx):
        # project through aggregates we can see
        if t[0] == 'agg':
            what, ops = t[1], t[2]
            names = t[3] if len(t) > 3 else None
            if names and name in names:
                return ops[names.index(name)]
            if what in ('tuple',) and idx < len(ops):
                return ops[idx]
        if t[0] == 'variant' and t[2][0] == 'agg':
            agg = t[2]
            names = agg[3] if len(agg) > 3 else None
            if names and name in names and agg[1].endswith('::' + t[1]):
                return agg[2][names.index(name)]
            if agg[1].endswith('::' + t[1]) and idx < len(agg[2]):
                return agg[2][idx]
        if t[0] == 'phi':
            return ('phi', tuple(self._field(x, name, idx) for x in t[1]))
        return ('field', name, t)

    def of_local(self, local, bb, si, depth=0):
        key = (local, bb, si)
        if key in self._memo:
            v = self._memo[key]
            if v is None:
                # loop-carried dependency: placeholder; results built on it are not memoised
                self._cycle_hits = getattr(self, '_cycle_hits', 0) + 1
                return ('local', local)
            return v
        if depth > self.max_depth:
            return ('unknown', 'depth')
        self._memo[key] = None  # cycle guard
        hits0 = getattr(self, '_cycle_hits', 0)
        self._work = getattr(self, '_work', 0) + 1
        defs = self.reaching_defs(local, bb, si)
        terms = []
        for d in defs:
            if d[0] == 'entry':
                if 1 <= local <= self.b.argc:
                    terms.append(('param', local))
                else:
                    terms.append(('local', local))
            elif d[0] == 'stmt':
                _, dbb, dsi = d
                st = self.b.blocks[dbb]['st'][dsi]
                terms.append(self._rvalue(st['rv'], dbb, dsi, depth + 1))
            elif d[0] == 'call':
                dbb = d[1]
                t = self.b.blocks[dbb]['term']
                terms.append(self._call(t, dbb, depth + 1))
            elif d[0] == 'mutborrow':
                _, dbb, dsi = d
                prev = self.of_local(local, dbb, dsi, depth + 1)
                while prev[0] == 'mutated':
                    prev = prev[1]
                terms.append(('mutated', prev))
        uniq = []
        for t in terms:
            if t not in uniq:
                uniq.append(t)
        if not uniq:
            r = ('local', local)
        elif len(uniq) == 1:
            r = uniq[0]
        else:
            r = ('phi', tuple(uniq))
        if getattr(self, '_cycle_hits', 0) != hits0 and depth > 0 and self._work < 20000:
            del self._memo[key]     # computed on top of a placeholder: valid only in this context
        else:
            self._memo[key] = r
        return r

    def _call(self, t, bb, depth):
        args = tuple(self.of_operand(a, bb, 'term', depth) for a in t['args'])
        if self.transparent and is_transparent_call(t) and args:
            return args[0]
        name = strip_generics(callee_res(t) or '?') if 'def' in t['f'] else 'indirect'
        if self.summaries and 'def' in t['f']:
            sm = self.b.facts.projection_summary(norm_path(callee_res(t)))
            if sm is not None:
                return subst_params(sm, args)
        return ('call', name, args, bb)

    def _rvalue(self, rv, bb, si, depth):
        r = rv['r']
        if r == 'use':
            return self.of_operand(rv['x'], bb, si, depth)
        if r in ('ref', 'rawptr'):
            t = self.of_place(rv['pl'], bb, si, depth)
            return t if self.transparent else ('ref', t)
        if r == 'cast':
            t = self.of_operand(rv['x'], bb, si, depth)
            return t if self.transparent else ('cast', t)
        if r == 'bin':
            return ('bin', rv['op'], self.of_operand(rv['a'], bb, si, depth), self.of_operand(rv['b'], bb, si, depth))
        if r == 'un':
            return ('un', rv['op'], self.of_operand(rv['a'], bb, si, depth))
        if r == 'discr':
            return ('discr', self.of_place(rv['pl'], bb, si, depth), rv.get('ty'))
        if r == 'agg':
            ops = tuple(self.of_operand(o, bb, si, depth) for o in rv['ops'])
            kind = rv.get('kind')
            if kind == 'adt':
                what = strip_generics(rv['adt'])
                if rv.get('variant'):
                    what += '::' + rv['variant']
                return ('agg', what, ops, tuple(rv.get('fields') or ()))
            if kind in ('closure', 'coroutine', 'coroutine_closure'):
                return ('agg', strip_generics(rv['def']), ops, tuple(rv.get('fields') or ()))
            return ('agg', kind, ops)
        if r == 'repeat':
            return ('agg', 'repeat', (self.of_operand(rv['x'], bb, si, depth),))
        return ('unknown', r)


def term_leaves(t):
    """All leaf / inner nodes of a term (pre-order)."""
    yield t
    tag = t[0]
    if tag in ('field', 'variant'):
        yield from term_leaves(t[2])
    elif tag in ('index', 'cast', 'ref', 'deref'):
        yield from term_leaves(t[1])
    elif tag == 'discr':
        yield from term_leaves(t[1])
    elif tag == 'call':
        for a in t[2]:
            yield from term_leaves(a)
    elif tag == 'bin':
        yield from term_leaves(t[2])
        yield from term_leaves(t[3])
    elif tag == 'un':
        yield from term_leaves(t[2])
    elif tag == 'agg':
        for a in t[2]:
            yield from term_leaves(a)
    elif tag == 'phi':
        for a in t[1]:
            yield from term_leaves(a)
    elif tag == 'captured':
        yield from term_leaves(t[2])
    elif tag == 'mutated':
        yield from term_leaves(t[1])


def term_has(t, pred):
    return any(pred(x) for x in term_leaves(t))


def term_str(t, depth=0):
    tag = t[0]
    if depth > 12:
        return '…'
    if tag == 'param':
        return 'arg%d' % t[1]
    if tag == 'const':
        return '%s' % (t[2],)
    if tag == 'field':
        return '%s.%s' % (term_str(t[2], depth + 1), t[1])
    if tag == 'variant':
        return '(%s as %s)' % (term_str(t[2], depth + 1), t[1])
    if tag == 'index':
        return '%s[_]' % term_str(t[1], depth + 1)
    if tag == 'call':
        return '%s(%s)' % (t[1].split('::')[-1] if not t[1].startswith('<') else t[1], ', '.join(term_str(a, depth + 1) for a in t[2]))
    if tag == 'bin':
        return '(%s %s %s)' % (term_str(t[2], depth + 1), t[1], term_str(t[3], depth + 1))
    if tag == 'un':
        return '%s(%s)' % (t[1], term_str(t[2], depth + 1))
    if tag == 'agg':
        return '%s{%s}' % (t[1], ', '.join(term_str(a, depth + 1) for a in t[2]))
    if tag == 'discr':
        return 'discr(%s)' % term_str(t[1], depth + 1)
    if tag == 'phi':
        return 'phi(%s)' % ' | '.join(term_str(a, depth + 1) for a in t[1])
    if tag == 'local':
        return '_%d' % t[1]
    if tag == 'captured':
        return '[%s=%s]' % (t[1], term_str(t[2], depth + 1))
    if tag == 'mutated':
        return 'mut(%s)' % term_str(t[1], depth + 1)
    return '?%s' % (t[1:],)


# ----------------------------------------------------------------------------- conditions on edges


def switch_edges(body, fx=None, origins=None):
    """For every live switch terminator yield (bb, target, cond_term, value_label).

    value_label: for bools True/False; for discriminants the variant name (or int);
    for the otherwise arm: ('not', [labels of explicit arms])."""
    og = origins or Origins(body)
    facts = fx or body.facts
    for bb in sorted(body.live_blocks()):
        t = body.blocks[bb]['term']
        if t['t'] != 'switch':
            continue
        cond = og.of_operand(t['x'], bb, 'term')
        xty = t.get('xty', '')
        labels = []
        for v, tgt in t['arms']:
            lab = v
            if xty == 'bool':
                lab = bool(v)
            elif cond[0] == 'discr':
                vn = facts.variant_name(cond[2] or '', v)
                lab = vn if vn is not None else v
            labels.append(lab)
        for (v, tgt), lab in zip(t['arms'], labels):
            yield bb, tgt, cond, lab
        # otherwise
        if xty == 'bool' and len(labels) == 1:
            yield bb, t['otherwise'], cond, (not labels[0])
        else:
            other = None
            if cond[0] == 'discr':
                vs = facts.variants(cond[2] or '')
                base = strip_generics(cond[2] or '')
                std = {'std::option::Option': ['None', 'Some'], 'std::result::Result': ['Ok', 'Err'],
                       'std::task::Poll': ['Ready', 'Pending'], 'core::option::Option': ['None', 'Some'],
                       'core::result::Result': ['Ok', 'Err'], 'core::task::Poll': ['Ready', 'Pending'],
                       'std::ops::ControlFlow': ['Continue', 'Break'], 'core::ops::ControlFlow': ['Continue', 'Break']}
                vs = vs or std.get(base)
                if vs:
                    rest = [v for v in vs if v not in labels]
                    if len(rest) == 1:
                        other = rest[0]
            if other is None:
                other = ('not', tuple(labels))
            # the otherwise target of an exhaustive enum match is `unreachable`
            yield bb, t['otherwise'], cond, other


def must_pass_edges(body, src, goals, edges):
    """True iff every path from block `src` to any block in `goals` takes one of `edges`."""
    reach = body.reachable(src, avoid_edges=edges)
    return not (set(goals) & reach)


def must_pass_blocks(body, src, goals, blocks):
    """True iff every path from `src` to any goal passes through one of `blocks`
    (a goal that is itself in `blocks` counts as passing)."""
    goals = set(goals) - set(blocks)
    if src in blocks:
        return True
    reach = body.reachable(src, avoid_blocks=blocks)
    return not (goals & reach)


# ----------------------------------------------------------------------------- loops


def natural_loops(body):
    """[(header, set(blocks), [back edge sources])] from back edges (target dominates source)."""
    loops = {}
    live = body.live_blocks()
    for b in live:
        for s in body.succs(b):
            if s in live and body.dominates(s, b):
                # back edge b -> s
                blocks = {s, b}
                stack = [b]
                while stack:
                    n = stack.pop()
                    if n == s:
                        continue
                    for p in body.preds(n):
                        if p not in blocks and p in live:
                            blocks.add(p)
                            stack.append(p)
                if s in loops:
                    loops[s][0].update(blocks)
                    loops[s][1].append(b)
                else:
                    loops[s] = [blocks, [b]]
    return [(h, v[0], v[1]) for h, v in sorted(loops.items())]


# ----------------------------------------------------------------------------- pretty printer (debug aid)


def pp_place(body, pl):
    s = '_%d' % pl['l']
    nm = body.local_names().get(pl['l'])
    if nm:
        s += '{%s}' % nm
    for e in pl.get('p') or []:
        if e == '*':
            s = '(*%s)' % s
        elif isinstance(e, dict):
            if 'f' in e:
                s += '.%s' % e['n']
            elif 'dc' in e:
                s = '(%s as %s)' % (s, e['dc'])
            elif 'idx' in e:
                s += '[_%d]' % e['idx']
            else:
                s += '[..]'
    return s


def pp_op(body, op):
    o = op.get('o')
    if o == 'const':
        k = op['k']
        c = k.get('c')
        if c in ('int', 'str'):
            return 'const %r' % (k['v'],)
        if c in ('item', 'fn'):
            return 'const %s' % k['def']
        return 'const <%s %s>' % (c, k.get('ty', ''))
    if o in ('copy', 'move'):
        return '%s %s' % (o, pp_place(body, op['pl']))
    return '?'


def pp_rv(body, rv):
    r = rv['r']
    if r == 'use':
        return pp_op(body, rv['x'])
    if r == 'ref':
        return '&%s%s' % ('mut ' if rv.get('mut') else '', pp_place(body, rv['pl']))
    if r == 'rawptr':
        return '&raw %s' % pp_place(body, rv['pl'])
    if r == 'cast':
        return '%s as %s (%s)' % (pp_op(body, rv['x']), rv['ty'], rv['kind'])
    if r == 'bin':
        return '%s(%s, %s)' % (rv['op'], pp_op(body, rv['a']), pp_op(body, rv['b']))
    if r == 'un':
        return '%s(%s)' % (rv['op'], pp_op(body, rv['a']))
    if r == 'discr':
        return 'discriminant(%s)' % pp_place(body, rv['pl'])
    if r == 'agg':
        k = rv.get('kind')
        head = k
        if k == 'adt':
            head = rv['adt'] + ('::' + rv['variant'] if rv.get('variant') else '')
            fs = rv.get('fields') or []
            return '%s { %s }' % (head, ', '.join('%s: %s' % (f, pp_op(body, o)) for f, o in zip(fs, rv['ops'])))
        if k in ('closure', 'coroutine'):
            head = '{%s %s}' % (k, rv['def'])
        return '%s(%s)' % (head, ', '.join(pp_op(body, o) for o in rv['ops']))
    return '<%s>' % r


def pp_body(body, out=sys.stdout, live_only=True):
    print('fn %s  [%s:%d] argc=%d' % (body.path, body.file, body.line, body.argc), file=out)
    live = body.live_blocks()
    for bb in range(body.nblocks):
        if live_only and bb not in live:
            continue
        blk = body.blocks[bb]
        print('  bb%d:%s' % (bb, ' (cleanup)' if blk.get('cleanup') else ''), file=out)
        for st in blk['st']:
            if st['s'] == 'assign':
                print('    %s = %s   // L%d%s' % (pp_place(body, st['lhs']), pp_rv(body, st['rv']), st.get('line', 0),
                                                   ' mac=' + st['mac'] if st.get('mac') else ''), file=out)
            else:
                print('    %s %s' % (st['s'], st.get('variant', st.get('dbg', ''))), file=out)
        t = blk['term']
        k = t['t']
        if k == 'call':
            f = t['f']
            nm = f.get('res') or f.get('def') or ('indirect ' + str(f.get('indirect')))
            print('    %s = %s(%s) -> bb%s   // L%d rk=%s%s' % (
                pp_place(body, t['dest']), nm, ', '.join(pp_op(body, a) for a in t['args']), t.get('target'),
                t.get('line', 0), f.get('rk'), ' mac=' + t['mac'] if t.get('mac') else ''), file=out)
        elif k == 'switch':
            print('    switch(%s: %s) -> %s otherwise bb%d' % (
                pp_op(body, t['x']), t.get('xty'), ', '.join('%d: bb%d' % (a[0], a[1]) for a in t['arms']), t['otherwise']), file=out)
        elif k in ('goto',):
            print('    goto bb%d' % t['target'], file=out)
        elif k == 'drop':
            print('    drop(%s) -> bb%d' % (pp_place(body, t['pl']), t['target']), file=out)
        elif k == 'assert':
            print('    assert(%s == %s, %s) -> bb%d' % (pp_op(body, t['cond']), t['expected'], t['kind'], t['target']), file=out)
        else:
            print('    %s' % k, file=out)


# ----------------------------------------------------------------------------- position-level paths


class Pos:
    """Path queries at statement granularity. A position is (bb, k): k = statement index,
    or len(statements) for the terminator ('term' accepted as alias)."""

    def __init__(self, body):
        self.b = body

    def norm(self, p):
        bb, k = p
        if k == 'term':
            k = len(self.b.blocks[bb]['st'])
        return (bb, k)

    def term_pos(self, bb):
        return (bb, len(self.b.blocks[bb]['st']))

    def reach(self, start, avoid_pos=(), avoid_edges=(), include_start=False):
        """Positions reachable from `start` (exclusive unless include_start) without entering
        an avoided position or taking an avoided block edge."""
        b = self.b
        avoid_pos = set(self.norm(p) for p in avoid_pos)
        avoid_edges = set(avoid_edges)
        start = self.norm(start)
        seen = set()
        dq = deque()

        def push(p):
            if p in seen or p in avoid_pos:
                return
            seen.add(p)
            dq.append(p)

        def succ(p):
            bb, k = p
            n = len(b.blocks[bb]['st'])
            if k < n:
                yield (bb, k + 1)
            else:
                for s in b.succs(bb):
                    if (bb, s) not in avoid_edges:
                        yield (s, 0)

        if include_start:
            push(start)
        else:
            for s in succ(start):
                push(s)
        while dq:
            p = dq.popleft()
            for s in succ(p):
                push(s)
        return seen

    def every_path_passes(self, src, dst, via_pos=(), via_edges=(), from_entry=False):
        """Every path from src (exclusive) to dst passes one of via_pos / via_edges.
        from_entry: src is the function entry (inclusive)."""
        dst = self.norm(dst)
        via = set(self.norm(p) for p in via_pos)
        if dst in via:
            return True
        if from_entry:
            if (0, 0) in via:
                return True
            r = self.reach((0, 0), avoid_pos=via, avoid_edges=via_edges, include_start=True)
        else:
            r = self.reach(src, avoid_pos=via, avoid_edges=via_edges)
        return dst not in r

    def can_reach(self, src, dst, avoid_pos=(), avoid_edges=()):
        return self.norm(dst) in self.reach(src, avoid_pos=avoid_pos, avoid_edges=avoid_edges)


def subst_params(t, args):
    tag = t[0]
    if tag == 'param':
        i = t[1] - 1
        return args[i] if 0 <= i < len(args) else ('unknown', 'param')
    if tag in ('field', 'variant'):
        return (tag, t[1], subst_params(t[2], args))
    if tag == 'agg':
        return ('agg', t[1], tuple(subst_params(a, args) for a in t[2])) + tuple(t[3:])
    return t


def capture_terms(fx, closure_body, summaries=True):
    """{capture name: origin term in the enclosing function} for a closure body."""
    out = {}
    parent_key = norm_path(closure_body.j.get('parent') or '')
    for pb in fx.by_key.get(parent_key, []):
        og = Origins(pb, summaries=summaries)
        for bb, si, st in pb.statements():
            if st['s'] == 'assign' and st['rv']['r'] == 'agg' and st['rv'].get('kind') in ('closure', 'coroutine') and \
                    norm_path(st['rv']['def']) == closure_body.key:
                for fname, op in zip(st['rv'].get('fields') or [], st['rv']['ops']):
                    t = og.of_operand(op, bb, si)
                    if pb.kind in ('closure', 'coroutine'):
                        t = resolve_captures(fx, pb, t, summaries)
                    out[fname] = t
    return out


def resolve_captures(fx, closure_body, term, summaries=True, _caps=None):
    """Replace `arg1.<capture>` in a closure's term by the captured value's origin in the parent."""
    if closure_body.kind not in ('closure', 'coroutine'):
        return term
    caps = _caps if _caps is not None else capture_terms(fx, closure_body, summaries)

    def rec(t):
        tag = t[0]
        if tag == 'field' and t[2] == ('param', 1) and t[1] in caps:
            return ('captured', t[1], caps[t[1]])
        if tag in ('field', 'variant'):
            return (tag, t[1], rec(t[2]))
        if tag in ('index',):
            return (tag, rec(t[1]))
        if tag == 'discr':
            return ('discr', rec(t[1])) + tuple(t[2:])
        if tag == 'call':
            return ('call', t[1], tuple(rec(a) for a in t[2]), t[3])
        if tag == 'bin':
            return ('bin', t[1], rec(t[2]), rec(t[3]))
        if tag == 'un':
            return ('un', t[1], rec(t[2]))
        if tag == 'agg':
            return ('agg', t[1], tuple(rec(a) for a in t[2])) + tuple(t[3:])
        if tag == 'phi':
            return ('phi', tuple(rec(a) for a in t[1]))
        return t
    return rec(term)


def primary_edges(body, edges):
    """Of the labelled switch edges [(bb, target, cond, label)], keep those of switches that are
    not preceded by another switch on the same condition term (drop elaboration re-tests the
    discriminant of a value after the user's match; those later ladders are not decisions)."""
    groups = {}
    for e in edges:
        groups.setdefault(repr(e[2]), []).append(e)
    out = []
    for _k, es in groups.items():
        sbs = sorted(set(e[0] for e in es))
        # definition block(s) of the condition's root call: reachability must not wrap around it
        roots = set(x[3] for x in term_leaves(es[0][2]) if x[0] == 'call' and len(x) > 3)
        keep = set()
        for sb in sbs:
            later = False
            for other in sbs:
                if other != sb and sb in body.reachable(other, avoid_blocks=roots):
                    later = True
            if not later:
                keep.add(sb)
        out.extend(e for e in es if e[0] in keep)
    return out


def infeasible_edges(body, fx=None, origins=None, edges=None):
    """Switch edges that contradict a discriminant known from the definition: `Err(e)?` lowers to a
    `branch` whose Continue edge exists in the CFG but can never be taken (and likewise for a
    match on a freshly built variant). Returned as [(bb, target)] for use as avoided edges."""
    og = origins or Origins(body)
    out = []
    for sbb, tg, cond, lab in (edges if edges is not None else switch_edges(body, fx or body.facts, og)):
        if cond[0] != 'discr' or not isinstance(lab, str):
            continue
        base = cond[1]
        if base[0] != 'agg' or '::' not in str(base[1]):
            continue
        variant = base[1].rsplit('::', 1)[-1]
        ty = strip_generics(cond[2] or '')
        expect = variant
        if ty.endswith('ops::ControlFlow'):
            expect = {'Ok': 'Continue', 'Err': 'Break', 'Some': 'Continue', 'None': 'Break'}.get(variant, variant)
        if lab != expect:
            out.append((sbb, tg))
    return out
