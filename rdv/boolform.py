"""Boolean structure of small decision functions (no execution, no solver).

A function such as `a.any(..) && b.all(..) && c.all(..)` is lowered to a chain of switches over the results of a few calls. This module names those calls
("atoms"), walks every acyclic CFG path of the body, records which atoms the path evaluated with which outcome and what the function returns on that path
(a constant, or the value of an atom, possibly negated), and so yields the function as a decision table over its atoms. A rule compares the table with a reference
formula for every assignment of the atoms: `&&` turned into `||`, a dropped conjunct, an inverted test or a swapped default all change the table.

Atoms are independent by assumption (they are calls on different operands); enum-valued switches can be declared as multi-valued atoms.
"""
from .core import CheckBroken, Origins, callee_res


class Table:
    def __init__(self, rows, atoms):
        self.rows = rows          # [(assignment dict atom -> value, result)]  result: True/False or ('atom', name, negated)
        self.atoms = atoms        # names seen

    def eval(self, assign, rows_with=None):
        """Result under a full assignment (dict atom -> bool / variant name); None if no path is consistent, 'ambiguous' if two consistent paths disagree.
        rows_with: only paths that evaluated this atom take part (e.g. the dispatch atom of the decision proper, leaving early exits aside)."""
        res = []
        for a, r in self.rows:
            if rows_with is not None and rows_with not in a:
                continue
            if all(assign.get(k) == v for k, v in a.items()):
                if isinstance(r, tuple):
                    v = assign.get(r[1])
                    if v is None:
                        return None
                    r = (not v) if r[2] else bool(v)
                res.append(r)
        if not res:
            return None
        return res[0] if all(x == res[0] for x in res) else 'ambiguous'


LOG_PREFIXES = ('log::', 'core::fmt', 'std::fmt', 'alloc::fmt', 'core::panicking', 'std::hint::must_use', 'std::fmt::format')


def _is_logging(t):
    r = callee_res(t)
    mac = t.get('mac') or ''
    return r.startswith(LOG_PREFIXES) or 'log::' in mac or '__log' in mac or r.endswith(('::fmt', 'Arguments::<\'a>::new', 'new_debug', 'new_display'))


def table(body, fx, name_call, name_discr=None, max_paths=4000, first_effect=False, start=0, stop_blocks=None):
    """name_call(terminator, origins, bb) -> atom name or None for a call whose boolean result is an atom.
    name_discr(cond term) -> atom name or None for an enum discriminant the function dispatches on (values: variant names)."""
    og = Origins(body, summaries=False)

    def through_gotos(bb):
        hops = 0
        while hops < 16 and not body.blocks[bb]['st'] and body.blocks[bb]['term']['t'] == 'goto':
            bb = body.blocks[bb]['term']['target']
            hops += 1
        return bb
    if stop_blocks:
        stop_blocks = {through_gotos(k): v for k, v in stop_blocks.items()}
    rows = []
    atoms = set()
    n_paths = [0]

    def walk(bb, env, assign, seen):
        if n_paths[0] > max_paths:
            raise CheckBroken('%s: too many paths for a decision table' % body.key)
        if bb in seen:
            return          # loops are not part of a decision function's own control flow (iterators are atoms)
        if stop_blocks and through_gotos(bb) in stop_blocks:
            n_paths[0] += 1
            rows.append((dict(assign), stop_blocks[through_gotos(bb)]))
            return
        seen = seen | {bb}
        env = dict(env)
        blk = body.blocks[bb]
        for st in blk['st']:
            if st['s'] != 'assign' or st['lhs'].get('p'):
                continue
            rv = st['rv']
            l = st['lhs']['l']
            v = None
            if rv['r'] == 'use':
                x = rv['x']
                if x.get('o') == 'const' and x['k'].get('c') in ('int', 'bool'):
                    v = ('c', bool(int(x['k']['v'])) if str(x['k']['v']).lstrip('-').isdigit() else str(x['k']['v']) in ('true', 'True'))
                elif x.get('o') in ('copy', 'move') and not x['pl'].get('p'):
                    v = env.get(x['pl']['l'])
            elif rv['r'] == 'agg' and rv.get('variant') in ('Ok', 'Some') and len(rv.get('ops') or []) == 1:
                # Ok(b): the decision travels inside the Result
                x = rv['ops'][0]
                if x.get('o') == 'const' and x['k'].get('c') in ('int', 'bool'):
                    v = ('c', bool(int(x['k']['v'])) if str(x['k']['v']).lstrip('-').isdigit() else str(x['k']['v']) in ('true', 'True'))
                elif x.get('o') in ('copy', 'move') and not x['pl'].get('p'):
                    v = env.get(x['pl']['l'])
            elif rv['r'] == 'un' and rv.get('op') == 'Not':
                a = rv['a']
                if a.get('o') in ('copy', 'move') and not a['pl'].get('p'):
                    w = env.get(a['pl']['l'])
                    if w is not None:
                        v = ('c', not w[1]) if w[0] == 'c' else ('atom', w[1], not w[2])
            env[l] = v
        t = blk['term']
        k = t['t']
        if k == 'return':
            n_paths[0] += 1
            if first_effect:
                rows.append((dict(assign), 'drop'))
                return
            r = env.get(0)
            if r is None:
                rows.append((dict(assign), None))
            elif r[0] == 'c':
                rows.append((dict(assign), r[1]))
            else:
                rows.append((dict(assign), r))
            return
        if k == 'call':
            nm = name_call(t, og, bb)
            if first_effect and not nm and not _is_logging(t):
                # the first thing the function does besides testing and logging: it went on ("continue") instead of dropping out
                n_paths[0] += 1
                rows.append((dict(assign), 'continue'))
                return
            d = t.get('dest')
            if d is not None and not d.get('p'):
                env[d['l']] = ('atom', nm, False) if nm else None
                if nm:
                    atoms.add(nm)
            if t.get('target') is not None:
                walk(t['target'], env, assign, seen)
            return
        if k == 'switch':
            x = t['x']
            val = env.get(x['pl']['l']) if x.get('o') in ('copy', 'move') and not x['pl'].get('p') else None
            arms = [(a[0], a[1]) for a in t['arms']] + [('otherwise', t['otherwise'])]
            if val is not None and val[0] == 'c':
                want = 1 if val[1] else 0
                tg = [tg_ for v_, tg_ in arms if v_ == want] or [t['otherwise']]
                walk(tg[0], env, assign, seen)
                return
            if val is not None and val[0] == 'atom':
                for v_, tg_ in arms:
                    if v_ == 'otherwise':
                        others = [a[0] for a in t['arms']]
                        truth = (0 not in others) if len(others) == 1 else None
                        if truth is None:
                            continue
                        truth = not truth if others == [1] else (others == [0])
                    else:
                        truth = bool(v_)
                    tv = (not truth) if val[2] else truth
                    if val[1] in assign and assign[val[1]] != tv:
                        continue
                    a2 = dict(assign)
                    a2[val[1]] = tv
                    walk(tg_, env, a2, seen)
                return
            # enum dispatch
            cond = og.of_operand(x, bb, 'term')
            nm = name_discr(cond) if name_discr else None
            if nm and cond[0] != 'discr' and all(isinstance(v_, int) or v_ == 'otherwise' for v_, _ in arms) and len(t['arms']) == 1:
                # a boolean read from memory (a field, a parameter): an atom of its own
                atoms.add(nm)
                for v_, tg_ in arms:
                    tv = bool(v_) if v_ != 'otherwise' else (t['arms'][0][0] == 0)
                    if nm in assign and assign[nm] != tv:
                        continue
                    a2 = dict(assign)
                    a2[nm] = tv
                    walk(tg_, env, a2, seen)
                return
            if nm and cond[0] == 'discr':
                atoms.add(nm)
                for v_, tg_ in arms:
                    if v_ == 'otherwise':
                        continue
                    vn = fx.variant_name(cond[2] or '', v_) if len(cond) > 2 else None
                    if vn is None:
                        continue
                    a2 = dict(assign)
                    a2[nm] = vn
                    walk(tg_, env, a2, seen)
                return
            for v_, tg_ in arms:
                walk(tg_, env, assign, seen)
            return
        if k == 'assert':
            if t.get('target') is not None:
                walk(t['target'], env, assign, seen)
            return
        for s_ in body.succs(bb):
            walk(s_, env, assign, seen)
    walk(start, {}, {}, frozenset())
    return Table(rows, sorted(atoms))
