"""Store-aware evaluation of MIR along acyclic CFG paths (no solver, no execution).

Origins (core.py) answers "where does this local come from" flow-insensitively for memory:
a field read through a pointer is always `field(param)`, whatever was stored in between.
Rules about small state machines held in `*self` (an iterator's cursor, a counter) need the
value of a field *at a point of a path*, after the stores of that path. This module walks one
CFG path at a time, keeps locals and memory cells as terms, normalises integer arithmetic to
`base + k`, and records the comparisons the path went through (the guards). A rule then asks
whether the guards entail `x < y` by the two-line argument in `entails_lt`.

Terms
  ('c', n)                         integer constant
  ('k', repr)                      other constant
  ('init', key)                    value of a local / memory cell at the start of the path
  ('lin', base, k)                 base + k   (base is any non-lin term, k != 0)
  ('bin', op, a, b) ('un', op, a) ('cast', ty, a)
  ('call', name, args, bb)         result of the call in block bb
  ('agg', adt, variant, (ops..))   aggregate
  ('ref', key, mut)                address of a cell
  ('fld', name, t) ('discr', t) ('havoc', n)
Cell keys:  ('L', n) for a local,  ('M', pointer_term) for the memory a pointer value points
to, extended with ('f', name) / ('dc', variant) / ('i',) projections.
"""
from .core import CheckBroken, callee_res, natural_loops

CMP = ('Lt', 'Le', 'Gt', 'Ge', 'Eq', 'Ne')


def lin(t):
    """-> (base, k) with t == base + k; base None for a pure constant."""
    if t[0] == 'c':
        return (None, t[1])
    if t[0] == 'lin':
        return (t[1], t[2])
    return (t, 0)


def mk_lin(base, k):
    if base is None:
        return ('c', k)
    return base if k == 0 else ('lin', base, k)


class State:
    def __init__(self):
        self.cells = {}       # key -> term
        self.guards = []      # (op, a, b, truth)   comparisons the path took
        self.asserts = []     # (term, expected)
        self.stores = []      # (key, old_term, new_term, bb, si)
        self.havoc_n = 0
        self.epoch = {}       # key prefix -> n  (havoced prefixes)
        self.trace = []
        self.variants = []    # (inspected value term, variant names, is / is-none-of)
        self.infeasible = False   # the path takes a switch arm that contradicts a value known on the path
        self.nonempty = set()     # cell keys of collections that received an insert/push on this path

    def fresh(self):
        self.havoc_n += 1
        return ('havoc', self.havoc_n)


class SymPath:
    def __init__(self, body, fx=None, max_paths=5000):
        self.b = body
        self.fx = fx
        self.max_paths = max_paths
        self.heads = set(l[0] for l in natural_loops(body)) if body.nblocks else set()

    # ------------------------------------------------------------------ paths
    def starts(self):
        return [0] + sorted(self.heads - {0})

    def paths(self, start, goal_bb, through_heads=False, avoid=()):
        """All simple block paths start..goal_bb. By default they do not pass through a loop head (the caller starts a
        separate evaluation there with symbolic cells); through_heads=True allows it (each block still at most once),
        `avoid` blocks are never entered."""
        b = self.b
        out = []
        stack = [(start, (start,))]
        while stack:
            bb, path = stack.pop()
            if bb == goal_bb and (len(path) > 1 or start == goal_bb):
                out.append(path)
                if len(out) > self.max_paths:
                    raise CheckBroken('sympath: more than %d paths in %s' % (self.max_paths, b.key))
                if len(path) > 1:
                    continue
            for s in b.succs(bb):
                if s in path or (not through_heads and s in self.heads and s != goal_bb) or b.is_cleanup(s) or s in avoid:
                    continue
                if s == goal_bb and s in self.heads and s in path:
                    continue
                stack.append((s, path + (s,)))
        return out

    # ------------------------------------------------------------------ evaluation
    def run(self, path, goal_si=None):
        """Evaluate the statements of `path` (the last block up to, not including, statement
        goal_si; goal_si None = whole block incl. nothing of the terminator)."""
        st = State()
        b = self.b
        for i, bb in enumerate(path):
            blk = b.blocks[bb]
            last = i == len(path) - 1
            n = len(blk['st']) if not last or goal_si is None or goal_si == 'term' else goal_si
            for si in range(n):
                s = blk['st'][si]
                if s['s'] == 'assign':
                    v = self.rvalue(st, s['rv'], bb)
                    self.store(st, s['lhs'], v, bb, si)
            if last:
                break
            self.terminator(st, bb, path[i + 1])
        return st

    def terminator(self, st, bb, nxt):
        b = self.b
        t = b.blocks[bb]['term']
        k = t['t']
        if k == 'call':
            args = tuple(self.operand(st, a) for a in t['args'])
            # a shared reference handed to a call carries a snapshot of what it points to (so that len(&s) can be tied to s)
            args = tuple(('ref', a[1], a[2], self.read_key(st, a[1])) if a[0] == 'ref' and not a[2] and len(a) == 3 else a for a in args)
            for a in args:
                self.havoc_through(st, a)
            name = callee_res(t)
            res = ('call', name, args, bb)
            last = name.rsplit('::', 1)[-1]
            a0 = args[0] if args else None
            # a few pure queries whose answer is known from what the path did
            if last in ('is_some', 'is_none') and 'Option' in name and a0 is not None:
                v = a0[3] if a0[0] == 'ref' and len(a0) > 3 else a0
                if v[0] == 'agg' and v[2] in ('Some', 'None'):
                    res = ('c', 1 if (v[2] == 'Some') == (last == 'is_some') else 0)
            if last in ('insert', 'push', 'push_back', 'push_front') and a0 is not None and a0[0] == 'ref' and a0[2]:
                st.nonempty.add(a0[1])
            if last == 'is_empty' and a0 is not None and a0[0] == 'ref' and a0[1] in st.nonempty:
                res = ('c', 0)
            self.store(st, t['dest'], res, bb, 'term')
        elif k == 'switch':
            x = self.operand(st, t['x'])
            taken = [a[0] for a in t['arms'] if a[1] == nxt]
            if x[0] == 'c':
                arm_vals = [a[0] for a in t['arms']]
                if (taken and x[1] not in taken) or (not taken and x[1] in arm_vals):
                    st.infeasible = True
            if x[0] == 'bin' and x[1] in CMP:
                if nxt == t['otherwise'] and not taken:
                    # bool: otherwise = true when the only arm is 0
                    vals = [a[0] for a in t['arms']]
                    truth = True if vals == [0] else (False if vals == [1] else None)
                else:
                    truth = bool(taken[0]) if len(taken) == 1 else None
                if truth is not None:
                    st.guards.append((x[1], x[2], x[3], truth))
            st.trace.append(('switch', bb, x, taken or 'otherwise'))
            if x[0] == 'discr' and self.fx is not None and x[1][0] == 'agg' and x[1][2]:
                # the discriminant of a value built on this path is known
                known = x[1][2]
                if taken:
                    if known not in [self.fx.variant_name(x[2], v) for v in taken]:
                        st.infeasible = True
                elif known in [self.fx.variant_name(x[2], a[0]) for a in t['arms']]:
                    st.infeasible = True
            if x[0] == 'discr' and self.fx is not None:
                # which variant(s) the path assumes for the inspected value
                allv = [a[0] for a in t['arms']]
                if taken:
                    names = [self.fx.variant_name(x[2], v) for v in taken]
                    st.variants.append((x[1], tuple(n for n in names if n), True))
                else:
                    names = [self.fx.variant_name(x[2], v) for v in allv]
                    st.variants.append((x[1], tuple(n for n in names if n), False))
        elif k == 'assert':
            c = self.operand(st, t['cond'])
            st.asserts.append((c, t['expected']))
            if c[0] == 'bin' and c[1] in CMP:
                st.guards.append((c[1], c[2], c[3], bool(t['expected'])))
        elif k == 'drop':
            pass

    def havoc_through(self, st, a):
        """A `&mut` handed to a call: everything under that cell is unknown afterwards."""
        if a[0] == 'ref' and a[2]:
            key = a[1]
            for kk in list(st.cells):
                if kk[:len(key)] == key:
                    st.cells[kk] = st.fresh()
            st.cells[key] = st.fresh()
            st.epoch[key] = st.fresh()

    # ---- places
    def place_key(self, st, pl):
        """-> ('key', key) for an addressable cell or ('val', term) when the place is a projection of a value."""
        key = (('L', pl['l']),)
        for e in pl.get('p') or []:
            if e == '*':
                v = self.read_key(st, key)
                if v[0] == 'ref':
                    key = v[1]
                else:
                    key = (('M', v),)
            elif isinstance(e, dict):
                if 'f' in e:
                    key = key + (('f', str(e['n'])),)
                elif 'dc' in e:
                    key = key + (('dc', str(e['dc'])),)
                elif 'idx' in e:
                    key = key + (('i', self.read_key(st, (('L', e['idx']),))),)
                else:
                    key = key + (('i', None),)
        return key

    def read_key(self, st, key):
        if key in st.cells:
            return st.cells[key]
        # finer cells stored under this key: the aggregate read is the old value with those parts replaced
        sub = tuple(sorted(((kk[len(key):], v) for kk, v in st.cells.items() if len(kk) > len(key) and kk[:len(key)] == key), key=repr))
        if sub:
            return ('upd', self._read_plain(st, key), sub)
        return self._read_plain(st, key)

    def _read_plain(self, st, key):
        # a stored aggregate / tuple covering this key
        for n in range(len(key) - 1, 0, -1):
            pre = key[:n]
            if pre in st.cells:
                v = st.cells[pre]
                for e in key[n:]:
                    v = self.project(v, e)
                return v
            if pre in st.epoch:
                return ('fld', key[n:], st.epoch[pre])
        return ('init', key)

    def project(self, v, e):
        if e[0] == 'f':
            if v[0] == 'agg' and v[4] and e[1] in v[4]:
                return v[3][v[4].index(e[1])]
            if v[0] == 'agg' and e[1].isdigit() and int(e[1]) < len(v[3]):
                return v[3][int(e[1])]
            if v[0] == 'bin' and v[1] in ('AddWithOverflow', 'SubWithOverflow', 'MulWithOverflow'):
                if e[1] == '0':
                    return self.arith(v[1].replace('WithOverflow', ''), v[2], v[3])
                return ('ovf', v)
            return ('fld', e[1], v)
        if e[0] == 'dc':
            return ('as', e[1], v)
        return ('idx', e[1], v)

    def store(self, st, pl, v, bb, si):
        key = self.place_key(st, pl)
        old = self.read_key(st, key)
        # drop finer cells under this key
        for kk in list(st.cells):
            if kk != key and kk[:len(key)] == key:
                del st.cells[kk]
        # a store through a pointer may alias cells reached through a different pointer value
        if key[0][0] == 'M':
            for kk in list(st.cells):
                if kk[0][0] == 'M' and kk[0] != key[0] and kk[-1] == key[-1]:
                    st.cells[kk] = st.fresh()
            st.stores.append((key, old, v, bb, si))
        st.cells[key] = v

    # ---- operands / rvalues
    def operand(self, st, op):
        o = op.get('o')
        if o == 'const':
            k = op['k']
            if k.get('c') == 'int':
                return ('c', int(k['v']))
            return ('k', repr(sorted(k.items()))[:200])
        return self.read_key(st, self.place_key(st, op['pl']))

    def arith(self, op, a, b):
        (ba, ka), (bb_, kb) = lin(a), lin(b)
        if op == 'Add':
            if bb_ is None:
                return mk_lin(ba, ka + kb)
            if ba is None:
                return mk_lin(bb_, ka + kb)
        if op == 'Sub' and bb_ is None:
            return mk_lin(ba, ka - kb)
        return ('bin', op, a, b)

    def rvalue(self, st, rv, bb):
        r = rv['r']
        if r == 'use':
            return self.operand(st, rv['x'])
        if r in ('ref', 'rawptr'):
            return ('ref', self.place_key(st, rv['pl']), bool(rv.get('mut')) or r == 'rawptr')
        if r == 'cast':
            return ('cast', rv.get('ty'), self.operand(st, rv['x']))
        if r == 'bin':
            a, b_ = self.operand(st, rv['a']), self.operand(st, rv['b'])
            if rv['op'] in ('Add', 'Sub'):
                return self.arith(rv['op'], a, b_)
            return ('bin', rv['op'], a, b_)
        if r == 'un':
            return ('un', rv['op'], self.operand(st, rv['a']))
        if r == 'discr':
            return ('discr', self.read_key(st, self.place_key(st, rv['pl'])), rv.get('ty') or '')
        if r == 'agg':
            ops = tuple(self.operand(st, o) for o in rv['ops'])
            return ('agg', rv.get('adt') or rv.get('kind'), rv.get('variant'), ops, tuple(rv.get('fields') or ()))
        return ('opaque', r, bb)


# ----------------------------------------------------------------------------- entailment
def facts_of(guards):
    """guards -> list of ('lt'|'le', x, y) facts."""
    out = []
    for op, a, b, truth in guards:
        if op == 'Lt':
            out.append(('lt', a, b) if truth else ('le', b, a))
        elif op == 'Le':
            out.append(('le', a, b) if truth else ('lt', b, a))
        elif op == 'Gt':
            out.append(('lt', b, a) if truth else ('le', a, b))
        elif op == 'Ge':
            out.append(('le', b, a) if truth else ('lt', a, b))
        elif op == 'Eq' and truth or op == 'Ne' and not truth:
            out.append(('le', a, b))
            out.append(('le', b, a))
    return out


def entails_lt(guards, x, y, strict=True):
    """Do the path's comparisons entail x < y (x <= y when not strict), reading `base + k`
    arithmetic exactly (the MIR of a debug build asserts no overflow at each step; see the
    rule's stated assumption)?  Two cases only:
      same base:      b + kx < b + ky           iff kx < ky
      one guard:      fa (<|<=) fb  with  x = fa + d1, y = fb + d2   =>  x < y if d1 <= d2 (lt) / d1 < d2 (le)
    Returns the justification string or None."""
    (bx, kx), (by, ky) = lin(x), lin(y)
    if bx == by:
        if kx < ky or (not strict and kx <= ky):
            return 'same base: %+d %s %+d' % (kx, '<' if strict else '<=', ky)
        return None
    for kind, fa, fb in facts_of(guards):
        (ba, ka), (bb_, kb) = lin(fa), lin(fb)
        if ba == bx and bb_ == by and ba is not None and bb_ is not None:
            d1, d2 = kx - ka, ky - kb
            need = d1 <= d2 if kind == 'lt' else d1 < d2
            if not strict:
                need = d1 <= d2 + (1 if kind == 'lt' else 0)
            if need:
                return 'guard %s(%+d,%+d) with offsets %+d/%+d' % (kind, ka, kb, d1, d2)
    return None


def term_find(t, pred, _depth=0):
    """All subterms satisfying pred (pre-order)."""
    out = []
    if _depth > 60:
        return out
    if isinstance(t, tuple):
        if t and isinstance(t[0], str) and pred(t):
            out.append(t)
        for x in t:
            if isinstance(x, tuple):
                out.extend(term_find(x, pred, _depth + 1))
    return out
