"""Rule reporting: instances, violations, floors, known findings, evidence, exit code."""
import json
import os
import sys
import time

VERIF = os.path.dirname(os.path.dirname(os.path.abspath(__file__)))
KNOWN = os.path.join(VERIF, 'known_findings.json')


class Report:
    def __init__(self, prop, tier='quick', level='other'):
        self.prop = prop
        self.tier = tier
        self.level = level
        self.t0 = time.time()
        self.instances = []      # dicts: rule, key, ok, detail, where
        self.violations = []     # dicts: rule, key, msg, where, extra
        self.broken = []         # messages (fail closed)
        self.rules = {}          # rule -> description
        self.notes = []
        self.assumptions = []
        self.trusted_base = []
        self.coverage_extra = {}
        self.explanation = ''
        self.configs = []
        self.analysed_functions = set()

    # -- recording
    def rule(self, rid, text):
        self.rules[rid] = text

    def analysed(self, *bodies):
        for b in bodies:
            self.analysed_functions.add(getattr(b, 'key', str(b)))

    def ok(self, rule, key, detail='', where=''):
        self.instances.append({'rule': rule, 'key': key, 'ok': True, 'detail': detail, 'where': where})

    def violation(self, rule, key, msg, where='', extra=None):
        self.instances.append({'rule': rule, 'key': key, 'ok': False, 'detail': msg, 'where': where})
        self.violations.append({'rule': rule, 'key': '%s/%s/%s' % (self.prop, rule, key), 'msg': msg, 'where': where,
                                'extra': extra or {}})

    def check(self, cond, rule, key, ok_detail, bad_msg, where='', extra=None):
        if cond:
            self.ok(rule, key, ok_detail, where)
        else:
            self.violation(rule, key, bad_msg, where, extra)
        return cond

    def floor(self, rule, count, floor, what):
        """Fewer instances than counted by hand on the pinned tree: the rule would pass
        vacuously. Reported as a violation of the rule (the instance that disappeared is the
        protected mechanism), keyed by the rule only."""
        if count < floor:
            self.violation(rule, 'floor', 'only %d instance(s) of "%s" found, %d were confirmed by hand on the pinned tree: '
                           'a protected site disappeared or is no longer recognisable' % (count, what, floor))
            return False
        return True

    def broken_check(self, msg):
        self.broken.append(msg)

    def assume(self, *a):
        self.assumptions.extend(a)

    # -- finishing
    def _known(self):
        try:
            with open(KNOWN) as f:
                doc = json.load(f)
        except FileNotFoundError:
            return {}
        out = {}
        for e in doc.get('findings', []):
            if e.get('status') == 'known' and e.get('property') == self.prop:
                out[e['key']] = e
        return out

    def finish(self):
        known = self._known()
        if os.environ.get('RDV_LIST'):
            for i in self.instances:
                if os.environ['RDV_LIST'] in ('1', i['rule']):
                    print('  %s %s/%s  %s' % ('ok ' if i['ok'] else 'BAD', i['rule'], i['key'], i['where']))
        unlisted = []
        listed = []
        seen_keys = set()
        uniq = []
        for v in self.violations:
            if v['key'] in seen_keys:
                continue
            seen_keys.add(v['key'])
            uniq.append(v)
        self.violations = uniq
        for v in self.violations:
            if v['key'] in known:
                listed.append(v)
            else:
                unlisted.append(v)
        wall = time.time() - self.t0
        replay_dir = os.path.join(VERIF, 'evidence', 'replay') if not os.environ.get('RDV_REPO') else os.path.join(VERIF, '.cache', 'variant-evidence', 'replay')
        os.makedirs(replay_dir, exist_ok=True)
        # ---- stdout
        for r in sorted(self.rules):
            n = sum(1 for i in self.instances if i['rule'] == r)
            bad = sum(1 for i in self.instances if i['rule'] == r and not i['ok'])
            print('[%s] %s: %d instance(s), %d failing -- %s' % (self.prop, r, n, bad, self.rules[r]))
        for v in listed:
            print('KNOWN-FINDING: property=%s %s %s' % (self.prop, v['key'], known[v['key']].get('what', v['msg'])))
        replay_paths = []
        for i, v in enumerate(unlisted):
            path = os.path.join(replay_dir, '%s-%d.json' % (self.prop, i))
            with open(path, 'w') as f:
                json.dump({'property': self.prop, 'rule': v['rule'], 'rule_text': self.rules.get(v['rule'], ''),
                           'key': v['key'], 'message': v['msg'], 'where': v['where'], 'extra': v['extra'],
                           'configs': self.configs}, f, indent=1, default=str)
            replay_paths.append(path)
            print('  %s [%s] %s' % (v['where'], v['key'], v['msg']))
            print('VIOLATION property=%s replay=%s' % (self.prop, path))
        for m in self.broken:
            print('CHECK-BROKEN property=%s %s' % (self.prop, m))
        # ---- evidence
        n_inst = len(self.instances)
        n_ok = sum(1 for i in self.instances if i['ok'])
        samples = []
        per_rule_seen = {}
        for i in self.instances:
            c = per_rule_seen.get(i['rule'], 0)
            if c < 6:
                samples.append({'rule': i['rule'], 'instance': i['key'], 'holds': i['ok'], 'detail': i['detail'][:300],
                                'where': i['where']})
            per_rule_seen[i['rule']] = c + 1
        distinct = len(set((i['rule'], i['key']) for i in self.instances))
        cov = {
            'explanation': self.explanation or 'static rules over MIR facts of /repo; see rules',
            'rule': 'one obligation per rule instance discovered in the MIR facts of the current tree; an instance is '
                    'identified by rule id + function def path + callee/field/ordinal (no line numbers)',
            'rules': self.rules,
            'obligations': n_inst,
            'discharged': n_ok + sum(1 for i in self.instances if not i['ok'] and ('%s/%s/%s' % (self.prop, i['rule'], i['key'])) in known),
            'evaluations': max(n_inst, 1),
            'distinct_nontrivial': distinct,
            'samples': samples or [{'note': 'no instance'}],
            'functions_analysed': len(self.analysed_functions),
            'functions': sorted(self.analysed_functions)[:60],
            'instances_per_rule': {r: sum(1 for i in self.instances if i['rule'] == r) for r in self.rules},
            'known_findings_printed': [v['key'] for v in listed],
            'unlisted_violations': [v['key'] for v in unlisted],
            'check_broken': self.broken,
            'configs': self.configs,
            'trusted_base': self.trusted_base or ['rustc nightly front end + MIR construction (mir-opt-level=0)',
                                                  'engine/mirfacts fact extractor', 'rdv analysis library'],
            'checker_cmd': './check %s --tier %s' % (self.prop, self.tier),
            'exhaustive': False,
        }
        cov.update(self.coverage_extra)
        ev = {
            'property_id': self.prop,
            'tier': self.tier,
            'seed': int(os.environ.get('VERIF_SEED', '0') or 0),
            'level': self.level,
            'coverage': cov,
            'assumptions': self.assumptions,
            'wall_s': round(wall, 3),
            'violations': len(unlisted),
        }
        # runs against a variant tree (RDV_REPO set: self tests, mutation campaign) must not overwrite the evidence of /repo
        ev_dir = os.path.join(VERIF, 'evidence') if not os.environ.get('RDV_REPO') else os.path.join(VERIF, '.cache', 'variant-evidence')
        os.makedirs(ev_dir, exist_ok=True)
        with open(os.path.join(ev_dir, '%s.json' % self.prop), 'w') as f:
            json.dump(ev, f, indent=1, default=str)
        if unlisted:
            return 1
        if self.broken:
            return 2
        print('[%s] OK: %d obligations, %d discharged, %d known finding(s); %.1fs' % (
            self.prop, n_inst, cov['discharged'], len(listed), wall))
        return 0


class Alias:
    """A view of a Report under which a rule written for one property runs as a rule of another one (a mechanism that is a necessary condition of both).
    Rule ids are renamed by `mapping` (ids not in it get `prefix` + their own id); everything else goes to the underlying report, so keys, floors and
    evidence carry the borrowing property's own rule id."""

    def __init__(self, rep, mapping, note=''):
        self._rep = rep
        self._map = dict(mapping)
        self._note = note

    def _r(self, rid):
        return self._map.get(rid, rid)

    def rule(self, rid, text):
        self._rep.rule(self._r(rid), text + (' [shared rule: %s]' % self._note if self._note else ''))

    def ok(self, rule, key, detail='', where=''):
        self._rep.ok(self._r(rule), key, detail, where)

    def violation(self, rule, key, msg, where='', extra=None):
        self._rep.violation(self._r(rule), key, msg, where, extra)

    def check(self, cond, rule, key, ok_detail, bad_msg, where='', extra=None):
        return self._rep.check(cond, self._r(rule), key, ok_detail, bad_msg, where, extra)

    def floor(self, rule, count, floor, what):
        return self._rep.floor(self._r(rule), count, floor, what)

    def __getattr__(self, name):
        return getattr(self._rep, name)


class Borrow(Alias):
    """Runs a whole rule module of another property and keeps only the rules named in `mapping` (renamed); everything else it reports is dropped. Used where a mechanism
    checked under property X is a necessary condition of property Y too, so that `./check Y` decides it as well."""

    def __init__(self, rep, mapping, note=''):
        Alias.__init__(self, rep, mapping, note)
        object.__setattr__(self, 'coverage_extra', {})
        object.__setattr__(self, 'notes', [])

    def _keep(self, rid):
        return rid in self._map

    def rule(self, rid, text):
        if self._keep(rid):
            Alias.rule(self, rid, text)

    def ok(self, rule, key, detail='', where=''):
        if self._keep(rule):
            Alias.ok(self, rule, key, detail, where)

    def violation(self, rule, key, msg, where='', extra=None):
        if self._keep(rule):
            Alias.violation(self, rule, key, msg, where, extra)

    def check(self, cond, rule, key, ok_detail, bad_msg, where='', extra=None):
        if self._keep(rule):
            return Alias.check(self, cond, rule, key, ok_detail, bad_msg, where, extra)
        return cond

    def floor(self, rule, count, floor, what):
        if self._keep(rule):
            return Alias.floor(self, rule, count, floor, what)
        return True

    def assume(self, *a):
        pass

    def __setattr__(self, name, value):
        if name in ('explanation',):
            return
        object.__setattr__(self, name, value)

    @property
    def instances(self):
        return self._rep.instances

    @property
    def violations(self):
        return self._rep.violations


def borrow(rep, facts, tier, lender, mapping):
    """Run rules/<lender>.py and keep the rules of `mapping` under the borrower's ids."""
    import importlib
    mod = importlib.import_module('rules.%s' % lender)
    need = [c for c in getattr(mod, 'CONFIGS', ['default']) if c not in facts]
    if need:
        from rdv import core, extract
        for c in need:
            facts[c] = core.Facts(extract.load(c))
    mod.run(Borrow(rep, mapping, note='%s %s' % (lender, ', '.join(sorted(mapping)))), facts, tier)
