"""Crossed arguments / fields: a value named like parameter (field) j is passed as parameter (field) i while the value named like i is
passed as j, both of the same type. Classic "swapped arguments" rule, evaluated on the resolved program: callee resolved by the compiler,
parameter names from the callee's own debug info, argument names from the caller's debug info or from the field the value is read from.
Names are the repository's own role table here (unicast/multicast, offered/requested, first/last, reader/writer): the rule only fires
when BOTH names cross, so a deliberate single rename does not trigger it."""
from rdv.core import Origins, callee_res, norm_path, strip_generics


def _name_of(body, og, op, bb, si, names):
    """A role name for an operand: debug name of the local, else the last named field / parameter it is read from."""
    if op.get('o') not in ('copy', 'move'):
        return None
    l = op['pl']['l']
    proj = op['pl'].get('p') or []
    for e in reversed(proj):
        if isinstance(e, dict) and 'f' in e and not str(e.get('n', '')).isdigit():
            return str(e['n'])
    if not proj and names.get(l):
        return names[l]
    if not proj:
        # an unnamed temporary: follow `tmp = copy/move X` (also through a clone / reborrow call) back to a named local or field
        cur = l
        for _ in range(6):
            defs = [(b2, s2, st) for b2, s2, st in body.statements() if st['s'] == 'assign' and st['lhs']['l'] == cur and not st['lhs'].get('p')]
            calls = [(b2, t2) for b2, t2 in body.calls() if t2['dest']['l'] == cur and not t2['dest'].get('p')]
            src = None
            if len(defs) == 1 and not calls:
                rv = defs[0][2]['rv']
                if rv['r'] == 'use' and rv['x'].get('o') in ('copy', 'move'):
                    src = rv['x']['pl']
                elif rv['r'] == 'ref':
                    src = rv['pl']
            elif len(calls) == 1 and not defs and len(calls[0][1]['args']) == 1 and \
                    callee_res(calls[0][1]).rsplit('::', 1)[-1] in ('clone', 'to_owned', 'into', 'from', 'deref', 'as_ref', 'to_vec', 'unwrap'):
                a = calls[0][1]['args'][0]
                if a.get('o') in ('copy', 'move'):
                    src = a['pl']
            if src is None:
                break
            for e in reversed(src.get('p') or []):
                if isinstance(e, dict) and 'f' in e and not str(e.get('n', '')).isdigit():
                    return str(e['n'])
            if names.get(src['l']) and not [e for e in (src.get('p') or []) if e != '*']:
                return names[src['l']]
            cur = src['l']
    t = og.of_operand(op, bb, si)
    seen = 0
    while t and seen < 12:
        seen += 1
        if t[0] == 'field' and not str(t[1]).isdigit():
            return str(t[1])
        if t[0] == 'param':
            return names.get(t[1])
        if t[0] in ('field', 'variant') and len(t) > 2:
            t = t[2]
            continue
        if t[0] == 'call' and len(t[2]) == 1 and t[1].rsplit('::', 1)[-1] in ('clone', 'to_owned', 'into', 'from', 'as_ref', 'deref', 'unwrap', 'to_vec', 'copied', 'cloned'):
            t = t[2][0]
            continue
        break
    return None


def _norm(n):
    return (n or '').lstrip('_').lower()


def crossed_calls(fx, bodies):
    """Yields (body, bb, callee, i, j, name_i, name_j) for calls with crossed argument names."""
    for b in bodies:
        names = b.local_names()
        og = None
        for bb, t in b.calls():
            tg, _dyn = fx.call_targets(t)
            if len(tg) != 1:
                continue
            cbs = [cb for cb in fx.by_key.get(tg[0], []) if cb.kind in ('fn', 'assoc_fn')]
            if len(cbs) != 1 or cbs[0].argc != len(t['args']) or cbs[0].argc < 2:
                continue
            cb = cbs[0]
            pn = cb.local_names()
            og = og or Origins(b, summaries=False)
            an = [_name_of(b, og, a, bb, 'term', names) for a in t['args']]
            for i in range(len(an)):
                for j in range(i + 1, len(an)):
                    pi, pj = _norm(pn.get(i + 1)), _norm(pn.get(j + 1))
                    ai, aj = _norm(an[i]), _norm(an[j])
                    if not (pi and pj and ai and aj) or pi == pj:
                        continue
                    if ai == pj and aj == pi and strip_generics(cb.locals[i + 1]) == strip_generics(cb.locals[j + 1]):
                        yield b, bb, cb.key, i + 1, j + 1, an[i], an[j]


def crossed_fields(fx, bodies):
    """Yields (body, bb, si, adt, f_i, f_j) for struct literals whose fields are filled from values named like each other."""
    for b in bodies:
        names = b.local_names()
        og = None
        for bb, si, st in b.statements():
            if not (st['s'] == 'assign' and st['rv']['r'] == 'agg' and st['rv'].get('kind') == 'adt' and st['rv'].get('fields') and len(st['rv']['fields']) >= 2):
                continue
            fields = [str(f) for f in st['rv']['fields']]
            if all(f.isdigit() for f in fields):
                continue
            og = og or Origins(b, summaries=False)
            vn = [_name_of(b, og, o, bb, si, names) for o in st['rv']['ops']]
            a = fx.adt(strip_generics(str(st['rv'].get('adt'))))
            ftys = {}
            if a:
                for v in a['variants']:
                    for f in v['fields']:
                        ftys[f['name']] = f['ty']
            for i in range(len(fields)):
                for j in range(i + 1, len(fields)):
                    fi, fj = _norm(fields[i]), _norm(fields[j])
                    vi, vj = _norm(vn[i]), _norm(vn[j])
                    if not (vi and vj) or fi == fj:
                        continue
                    if vi == fj and vj == fi and ftys.get(fields[i]) == ftys.get(fields[j]):
                        yield b, bb, si, strip_generics(str(st['rv'].get('adt'))), fields[i], fields[j]


def run_rule(rep, fx, rid, prefixes, pre=''):
    """Shared rule body: crossed argument / field names inside the modules of one property."""
    rep.rule(rid, 'no crossed roles: in %s no call passes a value named like parameter j as parameter i while the value named like i goes to j (same types), and no struct literal '
                  'fills two same-typed fields from values named like each other (names from the compiler\'s debug info of caller and callee)' % ', '.join(p.rstrip(':') for p in prefixes))
    bodies = [b for b in fx.bodies if b.key.startswith(tuple(prefixes)) or b.key.startswith(tuple('<' + p for p in prefixes))]
    n_calls = sum(1 for b in bodies for _bb, t in b.calls() if len(t['args']) >= 2)
    hits = 0
    for b, bb, callee, i, j, ni, nj in crossed_calls(fx, bodies):
        hits += 1
        rep.violation(rid, '%s%s/call:%s/args-%d-%d' % (pre, b.key, callee.rsplit('::', 2)[-2] + '::' + callee.rsplit('::', 1)[-1], i, j),
                      '%s passes `%s` as parameter %d and `%s` as parameter %d of %s, whose parameters are named the other way round: the two values end up in each other\'s place' % (
                          b.key, ni, i, nj, j, callee), b.where(bb))
    for b, bb, si, adt, fi, fj in crossed_fields(fx, bodies):
        hits += 1
        rep.violation(rid, '%s%s/literal:%s/%s-%s' % (pre, b.key, adt.rsplit('::', 1)[-1], fi, fj),
                      '%s builds %s with field `%s` filled from a value named `%s` and vice versa' % (b.key, adt, fi, fj), b.where(bb, si))
    rep.check(len(bodies) >= 10 and n_calls >= 20, rid, pre + 'scanned', '%d bodies, %d multi-argument calls examined, %d crossed' % (len(bodies), n_calls, hits),
              'the modules of this property were not found (%d bodies, %d calls): the rule would pass vacuously' % (len(bodies), n_calls), '')
    rep.coverage_extra.setdefault('swaplint', {})[rid] = {'bodies': len(bodies), 'calls': n_calls, 'crossed': hits}
