"""Polynomial normal form of integer origin terms (core.Origins), so that sibling formulas can be
compared up to algebra ((n-1)*f == n*f - f, a*b == b*a) and not by expression shape.

poly(term) -> {monomial: coeff}   monomial = sorted tuple of atoms, () for the constant
Atoms are the non-arithmetic subterms after stripping integer conversions (From/Into/try_into+unwrap,
casts are already transparent in Origins) and the `.0` of checked arithmetic. `min`/`max` become
atoms ('min', frozenset(polys)); division and remainder stay opaque atoms over normalised operands.
"""

CONV_SUFFIX = ('::from', '::into', '::try_into', '::try_from', 'Result::unwrap', 'Option::unwrap', 'Result::expect', '::to_owned', '::clone')
ARITH = {'Add': 'Add', 'Sub': 'Sub', 'Mul': 'Mul', 'AddWithOverflow': 'Add', 'SubWithOverflow': 'Sub', 'MulWithOverflow': 'Mul',
         'AddUnchecked': 'Add', 'SubUnchecked': 'Sub', 'MulUnchecked': 'Mul'}


def strip(t):
    """Peel conversions and the value projection of checked arithmetic."""
    while True:
        if t[0] == 'field' and t[1] == '0' and t[2][0] == 'bin' and t[2][1].endswith('WithOverflow'):
            t = ('bin', t[2][1].replace('WithOverflow', ''), t[2][2], t[2][3])
            continue
        if t[0] == 'call' and len(t[2]) == 1 and t[1].endswith(CONV_SUFFIX):
            t = t[2][0]
            continue
        if t[0] == 'cast':
            t = t[1]
            continue
        # a phi whose alternatives are equal after stripping
        return t


def freeze(p):
    return tuple(sorted(p.items()))


def padd(a, b, sign=1):
    out = dict(a)
    for m, c in b.items():
        out[m] = out.get(m, 0) + sign * c
        if out[m] == 0:
            del out[m]
    return out


def pmul(a, b):
    out = {}
    for m1, c1 in a.items():
        for m2, c2 in b.items():
            m = tuple(sorted(m1 + m2, key=repr))
            out[m] = out.get(m, 0) + c1 * c2
            if out[m] == 0:
                del out[m]
    return out


def atom(t):
    """Normalised atom for a non-polynomial term."""
    t = strip(t)
    if t[0] == 'call' and t[1].rsplit('::', 1)[-1] in ('min', 'max') and len(t[2]) == 2:
        return (t[1].rsplit('::', 1)[-1], frozenset(freeze(poly(x)) for x in t[2]))
    if t[0] == 'bin' and t[1] in ('Div', 'Rem', 'Shl', 'Shr', 'BitAnd', 'BitOr'):
        return (t[1], freeze(poly(t[2])), freeze(poly(t[3])))
    if t[0] == 'bin' and t[1] in ('Ne', 'Gt', 'Lt', 'Eq', 'Ge', 'Le'):
        return (t[1], freeze(poly(t[2])), freeze(poly(t[3])))
    if t[0] == 'call':
        # drop the call-site block so that two evaluations of the same getter compare equal
        return ('call', t[1], tuple(atom(a) if strip(a)[0] not in ('const',) else strip(a) for a in t[2]))
    if t[0] == 'field':
        return ('field', t[1], atom(t[2]))
    if t[0] == 'phi':
        alts = set(freeze(poly(a)) for a in t[1])
        if len(alts) == 1:
            return ('same', alts.pop())
        return ('phi', frozenset(alts))
    return t


def poly(t):
    t = strip(t)
    if t[0] == 'const' and t[1] == 'int':
        return {(): int(t[2])} if int(t[2]) != 0 else {}
    if t[0] == 'bin' and t[1] in ARITH:
        a, b = poly(t[2]), poly(t[3])
        op = ARITH[t[1]]
        if op == 'Add':
            return padd(a, b)
        if op == 'Sub':
            return padd(a, b, -1)
        return pmul(a, b)
    if t[0] == 'phi':
        alts = [poly(a) for a in t[1]]
        if all(freeze(a) == freeze(alts[0]) for a in alts):
            return alts[0]
    return {(atom(t),): 1}


def rename(p, mapping):
    """Substitute atoms (mapping: atom -> atom) in a polynomial."""
    out = {}
    for m, c in p.items():
        m2 = tuple(sorted((mapping.get(a, a) for a in m), key=repr))
        out[m2] = out.get(m2, 0) + c
    return out


def ceil_div_operands(t):
    """If t computes ceil(A / B) in one of the usual forms, return (poly A, poly B) frozen; else None.
    Forms: A/B + (A%B != 0 | A%B > 0 | 0 < A%B) as int,  div_ceil(A, B),  (A + B - 1) / B."""
    t = strip(t)
    if t[0] == 'call' and t[1].endswith('div_ceil') and len(t[2]) == 2:
        return freeze(poly(t[2][0])), freeze(poly(t[2][1]))
    if t[0] == 'bin' and t[1] == 'Add':
        for q, r in ((t[2], t[3]), (t[3], t[2])):
            q, r = strip(q), strip(r)
            if q[0] == 'bin' and q[1] == 'Div' and r[0] == 'bin' and r[1] in ('Ne', 'Gt', 'Lt'):
                x, y = strip(r[2]), strip(r[3])
                rem, zero = (x, y) if r[1] in ('Ne', 'Gt') else (y, x)
                if r[1] == 'Ne' and rem[0] == 'const':
                    rem, zero = zero, rem
                if zero == ('const', 'int', 0) and rem[0] == 'bin' and rem[1] == 'Rem':
                    A, B = freeze(poly(q[2])), freeze(poly(q[3]))
                    if (freeze(poly(rem[2])), freeze(poly(rem[3]))) == (A, B):
                        return A, B
    if t[0] == 'bin' and t[1] == 'Div':
        B = poly(t[3])
        num = poly(t[2])
        A = padd(padd(num, B, -1), {(): 1})
        if all(c != 0 for c in A.values()) and freeze(padd(padd(A, B), {(): -1})) == freeze(num) and A and () not in A:
            return freeze(A), freeze(B)
    return None


def minset(t):
    """t as a minimum of polynomials: frozenset of frozen polys with t == min(set). min distributes over + and over subtraction of a single polynomial;
    anything else is one polynomial (possibly over opaque atoms). max inside is left opaque."""
    t = strip(t)
    if t[0] == 'call' and t[1].rsplit('::', 1)[-1] == 'min' and len(t[2]) == 2:
        return minset(t[2][0]) | minset(t[2][1])
    if t[0] == 'bin' and t[1] in ARITH and ARITH[t[1]] == 'Add':
        a, b = minset(t[2]), minset(t[3])
        return frozenset(freeze(padd(dict(x), dict(y))) for x in a for y in b)
    if t[0] == 'bin' and t[1] in ARITH and ARITH[t[1]] == 'Sub':
        a, b = minset(t[2]), minset(t[3])
        if len(b) == 1:
            y = dict(next(iter(b)))
            return frozenset(freeze(padd(dict(x), y, -1)) for x in a)
    return frozenset([freeze(poly(t))])
