"""Symbolic byte counts: what a hand-written (or derived) speedy `write_to` emits versus what the companion
`len_serialized()` claims (C14: the length written into a submessage header is computed by functions separate
from the writers).

Both sides are turned into size expressions over the fields of `self`:

  polynomial (rdv.poly) over atoms
    ('len', obj)                 length of a byte container
    ('lens', T, obj)             T::len_serialized(obj)      (a callee with its own obligation)
    ('pad4', frozen poly)        bytes needed to reach the next multiple of 4
    ('sum', coll, frozen poly)   sum over the elements of a collection (element = ('bound',))
    ('sizeof', T)                wire size of a generic parameter
    anything else                opaque (compared structurally)

`write_to` is walked path by path (every path to an Ok return; loops are summarised: a counted loop
`for _ in 0..E` contributes E x body, an iteration over a collection contributes a sum); each path carries the
presence (Some/None) of the Option fields of `self` it tested. `len_serialized` is an expression whose
`opt.map(f).unwrap_or(0)` parts are resolved with the path's presence facts. Equality is decided after
normalisation with the only arithmetic fact needed: pad4(x + m) = pad4(x) when m is a multiple of 4 (constants,
values produced by round_up_to_4, len_serialized of types proven 4-aligned, sums of those).
No RustDDS code runs; an expression the engine cannot read is reported, never assumed equal.
"""
from rdv.core import CheckBroken, Origins, callee_res, natural_loops, strip_generics, switch_edges, term_has, term_str
from rdv.poly import freeze, padd, pmul, strip

PRIM = {'u8': 1, 'i8': 1, 'bool': 1, 'u16': 2, 'i16': 2, 'u32': 4, 'i32': 4, 'f32': 4, 'u64': 8, 'i64': 8, 'f64': 8}
WRITE_FIXED = {'write_u8': 1, 'write_i8': 1, 'write_u16': 2, 'write_i16': 2, 'write_u32': 4, 'write_i32': 4, 'write_f32': 4, 'write_u64': 8,
               'write_i64': 8, 'write_f64': 8}
BOUND = ('bound',)


class Unsupported(Exception):
    pass


def const_poly(n):
    return {(): n} if n else {}


def atom_poly(a):
    return {(a,): 1}


def canon_obj(t):
    """Canonical designation of an object reached from self: strips borrows/derefs/as_ref and writes the payload of
    `Some` as ('some', field)."""
    t = strip(t)
    while True:
        if t[0] == 'call' and len(t[2]) >= 1 and t[1].rsplit('::', 1)[-1] in ('as_ref', 'deref', 'as_slice', 'borrow', 'as_deref', 'as_bytes', 'iter', 'into_iter', 'as_mut'):
            t = strip(t[2][0])
            continue
        if t[0] in ('ref', 'deref', 'mutated'):
            t = strip(t[1])
            continue
        break
    if t[0] == 'field' and t[1] == '0' and t[2][0] == 'variant' and t[2][1] == 'Some':
        inner = canon_obj(t[2][2])
        return BOUND if inner == BOUND else ('some', inner)
    if t[0] == 'field':
        return ('field', t[1], canon_obj(t[2]))
    if t[0] == 'variant':
        return ('variant', t[1], canon_obj(t[2]))
    if t[0] == 'index':
        return ('index', canon_obj(t[1]))
    if t[0] == 'phi':
        alts = set(canon_obj(a) for a in t[1])
        if len(alts) == 1:
            return alts.pop()
        return ('phi', frozenset(alts))
    if t[0] == 'call' and t[1].endswith('::next'):
        return BOUND
    return t


def subst(p, old, new):
    """Substitute an object inside the atoms of a frozen/unfrozen poly."""
    def rec(x):
        if x == old:
            return new
        if isinstance(x, tuple):
            return tuple(rec(y) for y in x)
        if isinstance(x, frozenset):
            return frozenset(rec(y) for y in x)
        return x
    return {rec(m): c for m, c in p.items()}


class Sizes:
    def __init__(self, fx):
        self.fx = fx
        self._fixed = {}
        self._len = {}
        self._aligned = {}
        self.notes = []

    # ------------------------------------------------------------------ type helpers
    def writable_body(self, ty):
        head = strip_generics(ty)
        cands = [b for b in self.fx.bodies if b.key.endswith('::write_to') and 'speedy::Writable' in b.key and strip_generics(b.impl_self or '') == head]
        return cands[0] if len(cands) >= 1 else None

    def len_body(self, ty):
        head = strip_generics(ty)
        cands = [b for b in self.fx.bodies if b.name == 'len_serialized' and b.kind in ('fn', 'assoc_fn') and strip_generics(b.impl_self or '') == head]
        return cands[0] if cands else None

    def mem_size(self, ty):
        ty = ty.strip()
        if ty in PRIM:
            return PRIM[ty]
        if ty == 'usize':
            return 8
        a = self.fx.adt(strip_generics(ty))
        if a and a.get('size') is not None and '<' not in ty:
            return a['size']
        return None

    def fixed_size(self, ty):
        """Wire size of a value of type ty written with write_value, if it is a constant."""
        ty = ty.replace('&', '').replace("'_ ", '').strip()
        if ty in self._fixed:
            return self._fixed[ty]
        self._fixed[ty] = None
        r = None
        if ty in PRIM:
            r = PRIM[ty]
        elif ty.startswith('[') and ';' in ty:
            inner, n = ty[1:-1].rsplit(';', 1)
            f = self.fixed_size(inner.strip())
            r = f * int(n) if f is not None and n.strip().isdigit() else None
        else:
            wb = self.writable_body(ty)
            if wb is not None and self.len_body(ty) is None:
                try:
                    paths = self.write_paths(wb)
                    vals = set(freeze(p) for _c, p in paths)
                    if len(vals) == 1:
                        p = dict(vals.pop())
                        if all(m == () for m in p):
                            r = p.get((), 0)
                except Unsupported:
                    r = None
        self._fixed[ty] = r
        return r

    # ------------------------------------------------------------------ len_serialized as an expression
    def len_expr(self, body, args=None, depth=0):
        """Size expression returned by a len_serialized-like function (or closure). args: param index -> object."""
        og = Origins(body, summaries=False)
        rets = body.return_blocks()
        if not rets:
            raise Unsupported('%s has no return' % body.key)
        t = og.of_local(0, rets[0], 'term')
        return self.expr(body, og, t, args or {1: ('param', 1)}, depth)

    def expr(self, body, og, t, args, depth):
        if depth > 12:
            raise Unsupported('expression too deep')
        t = strip(t)
        tag = t[0]
        if tag == 'const':
            if t[1] == 'int':
                return const_poly(int(t[2]))
            if t[1] == 'item':
                c = self.fx.const_value(t[2]) if hasattr(self.fx, 'const_value') else None
                if c is None:
                    for k in self.fx.doc.get('consts', []):
                        if k.get('path') == t[2] and k.get('val') is not None:
                            c = int(k['val'])
                if c is None:
                    raise Unsupported('constant %s has no integer value' % t[2])
                return const_poly(c)
        if tag == 'param':
            o = args.get(t[1])
            if o is None:
                raise Unsupported('free parameter %s' % (t,))
            return atom_poly(('val', o))
        if tag == 'bin' and t[1] in ('Add', 'Sub', 'Mul', 'AddWithOverflow', 'SubWithOverflow', 'MulWithOverflow'):
            a, b = self.expr(body, og, t[2], args, depth + 1), self.expr(body, og, t[3], args, depth + 1)
            op = t[1].replace('WithOverflow', '')
            return padd(a, b) if op == 'Add' else padd(a, b, -1) if op == 'Sub' else pmul(a, b)
        if tag == 'phi':
            p4 = self.pad_phi(body, og, t, args, depth)
            if p4 is not None:
                return p4
            alts = [self.expr(body, og, a, args, depth + 1) for a in t[1]]
            if all(freeze(a) == freeze(alts[0]) for a in alts):
                return alts[0]
            raise Unsupported('value depends on control flow: %s' % term_str(t)[:80])
        if tag == 'call':
            name = t[1]
            last = name.rsplit('::', 1)[-1]
            a = t[2]
            if last == 'round_up_to_4' and len(a) == 1:
                x = self.expr(body, og, a[0], args, depth + 1)
                return padd(x, atom_poly(('pad4', freeze(x))))
            if last == 'padding_needed_for_alignment_4' and len(a) == 1:
                x = self.expr(body, og, a[0], args, depth + 1)
                return atom_poly(('pad4', freeze(x)))
            if last == 'size_of' and not a:
                tt = body.blocks[t[3]]['term']
                targs = [x for x in (tt['f'].get('args') or []) if not x.startswith("'")]
                if targs:
                    n = self.mem_size(targs[0])
                    if n is not None:
                        return const_poly(n)
                    return atom_poly(('sizeof', targs[0]))
                raise Unsupported('size_of without type argument')
            if last == 'len_serialized' and len(a) == 1:
                tt = body.blocks[t[3]]['term']
                ty = strip_generics(tt['f'].get('self_ty') or name.rsplit('::', 1)[0])
                return atom_poly(('lens', ty, self.obj(a[0], args)))
            if last == 'len' and len(a) == 1:
                return atom_poly(('len', self.obj(a[0], args)))
            if last in ('unwrap_or', 'unwrap_or_default') and a:
                inner = strip(a[0])
                dflt = self.expr(body, og, a[1], args, depth + 1) if len(a) > 1 else {}
                if dflt:
                    raise Unsupported('unwrap_or with a non-zero default')
                if inner[0] == 'call' and inner[1].endswith('Option::map') and len(inner[2]) == 2:
                    opt_obj = self.obj(inner[2][0], args)
                    f = inner[2][1]
                    e = self.apply_fn(body, f, ('some', opt_obj), args, depth)
                    return atom_poly(('opt', opt_obj, freeze(e)))
                raise Unsupported('unwrap_or of %s' % term_str(inner)[:60])
            if last == 'sum' and len(a) == 1:
                inner = strip(a[0])
                if inner[0] == 'call' and inner[1].endswith('::map') and len(inner[2]) == 2:
                    coll = self.obj(inner[2][0], args)
                    e = self.apply_fn(body, inner[2][1], BOUND, args, depth)
                    return atom_poly(('sum', coll, freeze(e)))
                raise Unsupported('sum of %s' % term_str(inner)[:60])
            if last in ('min', 'max') and len(a) == 2:
                return atom_poly((last, frozenset([freeze(self.expr(body, og, a[0], args, depth + 1)), freeze(self.expr(body, og, a[1], args, depth + 1))])))
        if tag == 'bin' and t[1] in ('Div', 'Rem', 'Shl', 'Shr'):
            return atom_poly((t[1], freeze(self.expr(body, og, t[2], args, depth + 1)), freeze(self.expr(body, og, t[3], args, depth + 1))))
        if tag in ('field', 'variant', 'index'):
            return atom_poly(('val', self.obj(t, args)))
        raise Unsupported('cannot read %s' % term_str(t)[:100])

    def pad_phi(self, body, og, t, args, depth):
        """`if x % 4 != 0 { 4 - x % 4 } else { 0 }` as a value: phi{0, 4 - (x rem 4)} whose controlling switch tests (x rem 4) against 0."""
        alts = [strip(a) for a in t[1]]
        if len(alts) != 2 or ('const', 'int', 0) not in alts:
            return None
        other = [a for a in alts if a != ('const', 'int', 0)][0]
        if not (other[0] == 'bin' and other[1] == 'Sub' and strip(other[2]) == ('const', 'int', 4)):
            return None
        rem = strip(other[3])
        if not (rem[0] == 'bin' and rem[1] == 'Rem' and strip(rem[3]) == ('const', 'int', 4)):
            return None
        x = rem[2]
        ctrl = False
        for _s, _t, cond, _lab in switch_edges(body, self.fx, og):
            c = strip(cond)
            if c[0] == 'bin' and c[1] in ('Ne', 'Eq', 'Gt') and ('const', 'int', 0) in (strip(c[2]), strip(c[3])):
                r2 = strip(c[2]) if strip(c[3]) == ('const', 'int', 0) else strip(c[3])
                if r2[0] == 'bin' and r2[1] == 'Rem' and strip(r2[3]) == ('const', 'int', 4) and freeze(self.expr(body, og, r2[2], args, depth + 1)) == freeze(self.expr(body, og, x, args, depth + 1)):
                    ctrl = True
        if not ctrl:
            return None
        return atom_poly(('pad4', freeze(self.expr(body, og, x, args, depth + 1))))

    def obj(self, t, args):
        o = canon_obj(t)

        def rec(x):
            if isinstance(x, tuple):
                if x and x[0] == 'param' and len(x) == 2 and x[1] in args:
                    return args[x[1]]
                return tuple(rec(y) for y in x)
            return x
        return rec(o)

    def apply_fn(self, body, f, arg_obj, args, depth):
        """Size expression of closure / fn item `f` applied to arg_obj."""
        f = strip(f)
        if f[0] == 'agg' and 'closure' in str(f[1]):
            from rdv.core import norm_path
            cands = [c for c in self.fx.closures_of(body) if c.key == norm_path(str(f[1]))]
            if not cands:
                raise Unsupported('closure %s not found' % f[1])
            c = cands[0]
            return self.len_expr(c, {1: ('env',), 2: arg_obj}, depth + 1)
        if f[0] == 'const' and f[1] in ('fn', 'item'):
            name = str(f[2])
            if name.endswith('len_serialized'):
                return atom_poly(('lens', strip_generics(name.rsplit('::', 1)[0]), arg_obj))
            if name.endswith('::len'):
                return atom_poly(('len', arg_obj))
        raise Unsupported('function value %s' % term_str(f)[:60])

    # ------------------------------------------------------------------ write_to as a table of paths
    def contribution(self, b, og, bb, t, args):
        """Size polynomial of one writer call, or None if the call is not a write."""
        d = strip_generics(t['f'].get('def') or '')
        r = strip_generics(callee_res(t))
        if not (d.startswith('speedy::Writer::') or r.startswith('speedy::Writer::')):
            return None
        last = d.rsplit('::', 1)[-1]
        if last in WRITE_FIXED:
            return const_poly(WRITE_FIXED[last])
        if last in ('write_bytes', 'write_slice'):
            return atom_poly(('len', self.obj(og.of_operand(t['args'][1], bb, 'term'), args)))
        if last == 'write_value':
            a = t['args'][1]
            aty = b.locals[a['pl']['l']] if a.get('o') in ('copy', 'move') else (a.get('k') or {}).get('ty', '')
            ty = (aty or '').replace('&', '').replace("'_ ", '').strip()
            o = self.obj(og.of_operand(a, bb, 'term'), args)
            if ty.startswith(('std::option::Option<', 'core::option::Option<')):
                inner = ty[ty.index('<') + 1:-1]
                inner_p = self.value_size(inner, ('some', o))
                return padd(const_poly(1), atom_poly(('opt', o, freeze(inner_p))))
            return self.value_size(ty, o)
        if last in ('endianness', 'context', 'context_mut', 'can_write_at_least'):
            return {}
        raise Unsupported('writer call %s' % last)

    def value_size(self, ty, o):
        if self.len_body(ty) is not None:
            return atom_poly(('lens', strip_generics(ty), o))
        f = self.fixed_size(ty)
        if f is not None:
            return const_poly(f)
        if len(ty) <= 2 and ty[:1].isupper():
            return atom_poly(('sizeof', ty))      # generic parameter
        raise Unsupported('write_value of %s: neither fixed size nor a len_serialized()' % ty)

    def loop_summary(self, b, og, head, blocks, args):
        """(count poly or None, collection obj or None, body poly)."""
        # body contribution: all paths head -> head inside the loop must contribute the same
        contribs = set()

        def dfs(bb, acc, seen):
            for s_ in b.succs(bb):
                if b.is_cleanup(s_) or s_ not in blocks:
                    continue
                if s_ == head:
                    contribs.add(freeze(acc))
                    continue
                if s_ in seen:
                    raise Unsupported('nested loop in %s' % b.key)
                t = b.blocks[s_]['term']
                acc2 = acc
                if t['t'] == 'call':
                    c = self.contribution(b, og, s_, t, args)
                    if c:
                        acc2 = padd(acc, c)
                dfs(s_, acc2, seen | {s_})
        t0 = b.blocks[head]['term']
        acc0 = {}
        if t0['t'] == 'call':
            c = self.contribution(b, og, head, t0, args)
            if c:
                acc0 = c
        dfs(head, acc0, {head})
        if len(contribs) != 1:
            raise Unsupported('loop at bb%d of %s writes a different amount on different paths' % (head, b.key))
        body_p = dict(contribs.pop())
        # what is iterated: the receiver of the `next` call in the loop
        it = None
        for bb in sorted(blocks):
            t = b.blocks[bb]['term']
            if t['t'] == 'call' and callee_res(t).endswith('::next'):
                it = og.of_operand(t['args'][0], bb, 'term')
        if it is None:
            raise Unsupported('loop at bb%d of %s has no iterator' % (head, b.key))
        rng = []
        term_has(it, lambda x: x[0] == 'agg' and str(x[1]).endswith('ops::Range') and len(x[2]) == 2 and rng.append(x))
        if rng:
            lo, hi = strip(rng[0][2][0]), rng[0][2][1]
            if lo != ('const', 'int', 0):
                raise Unsupported('counted loop does not start at 0')
            return self.expr(b, og, hi, args, 0), None, body_p
        flds = []
        term_has(it, lambda x: x[0] == 'field' and not str(x[1]).isdigit() and flds.append(x))
        coll = self.obj(flds[0], args) if flds else self.obj(it, args)
        n = self.array_len(b, coll)
        if n is not None:
            return const_poly(n), None, body_p
        return None, coll, body_p

    def array_len(self, b, coll):
        """Length of a fixed-size array field of self, from the ADT table."""
        if not (coll[0] == 'field' and coll[2] == ('param', 1)):
            return None
        a = self.fx.adt(strip_generics(b.impl_self or ''))
        if not a:
            return None
        for v in a['variants']:
            for f in v['fields']:
                if f['name'] == coll[1] and f['ty'].startswith('[') and ';' in f['ty']:
                    n = f['ty'][1:-1].rsplit(';', 1)[1].strip()
                    return int(n) if n.isdigit() else None
        return None

    def write_paths(self, b, args=None):
        """[(presence facts {obj: 'Some'|'None'}, size poly)] for every path of write_to that returns Ok."""
        args = args or {1: ('param', 1)}
        og = Origins(b, summaries=False)
        loops = {h: blocks for h, blocks, _s in natural_loops(b)}
        edges = {}
        for s_, t_, cond, lab in switch_edges(b, self.fx, og):
            edges[(s_, t_)] = (cond, lab)
        out = []
        rets = set(b.return_blocks())
        budget = [0]

        def last_ret_kind(path_ret):
            return path_ret

        def walk(bb, acc, facts, seen, ret_kind):
            budget[0] += 1
            if budget[0] > 200000:
                raise Unsupported('too many paths in %s' % b.key)
            # statements: track what is assigned to _0
            for st in b.blocks[bb]['st']:
                if st['s'] == 'assign' and st['lhs']['l'] == 0 and not st['lhs'].get('p') and st['rv']['r'] == 'agg':
                    ret_kind = st['rv'].get('variant')
            t = b.blocks[bb]['term']
            if t['t'] == 'call' and t['dest']['l'] == 0 and not t['dest'].get('p'):
                # `writer.write_x(..)` as the tail expression: the function returns that call's result
                is_write = strip_generics(t['f'].get('def') or '').startswith('speedy::Writer::')
                ret_kind = 'Err' if callee_res(t).endswith('from_residual') else ('Ok' if is_write else 'call')
            if bb in rets:
                if ret_kind == 'Ok':
                    out.append((dict(facts), acc))
                return
            if bb in loops:
                cnt, coll, body_p = self.loop_summary(b, og, bb, loops[bb], args)
                if body_p:
                    if cnt is not None:
                        acc = padd(acc, pmul(cnt, body_p))
                    else:
                        acc = padd(acc, atom_poly(('sum', coll, freeze(body_p))))
                exits = sorted(set(s_ for blk in loops[bb] for s_ in b.succs(blk) if s_ not in loops[bb] and not b.is_cleanup(s_)))
                for s_ in exits:
                    if s_ not in seen:
                        walk(s_, acc, facts, seen | {s_}, ret_kind)
                return
            if t['t'] == 'call':
                c = self.contribution(b, og, bb, t, args)
                if c:
                    acc = padd(acc, c)
            for s_ in b.succs(bb):
                if b.is_cleanup(s_) or s_ in seen:
                    continue
                f2 = facts
                e = edges.get((bb, s_))
                if e is not None:
                    cond, lab = e
                    if cond[0] == 'discr' and lab in ('Some', 'None'):
                        o = self.obj(cond[1], args)
                        if facts.get(o, lab) != lab:
                            continue          # contradicts an earlier test of the same Option on this path
                        f2 = dict(facts)
                        f2[o] = lab
                    elif cond[0] == 'call' and cond[1].endswith(('Option::is_some', 'Option::is_none')) and lab in (True, False):
                        o = self.obj(cond[2][0], args)
                        v = 'Some' if (lab is True) == cond[1].endswith('is_some') else 'None'
                        if facts.get(o, v) != v:
                            continue
                        f2 = dict(facts)
                        f2[o] = v
                walk(s_, acc, f2, seen | {s_}, ret_kind)
        walk(0, {}, {}, {0}, None)
        if not out:
            raise Unsupported('%s has no path to Ok' % b.key)
        return out

    # ------------------------------------------------------------------ normalisation and comparison
    def aligned_type(self, ty):
        """Is T::len_serialized() always a multiple of 4?"""
        ty = strip_generics(ty)
        if ty in self._aligned:
            return self._aligned[ty]
        self._aligned[ty] = False
        lb = self.len_body(ty)
        r = False
        if lb is not None:
            try:
                r = self.is_multiple_of_4(self.len_expr(lb))
            except Unsupported:
                r = False
        self._aligned[ty] = r
        return r

    def is_multiple_of_4(self, p):
        for m, c in p.items():
            if c % 4 == 0:
                continue
            if any(self.atom_aligned(a) for a in m):
                continue
            # x + pad4(x) pairs
            return self._paired(p)
        return True

    def _paired(self, p):
        """p = aligned part + sum of (x + pad4(x)) groups."""
        rest = dict(p)
        for m, c in list(p.items()):
            if len(m) == 1 and m[0][0] == 'pad4' and c == 1:
                inner = dict(m[0][1])
                rest = padd(rest, {m: 1}, -1)
                rest = padd(rest, inner, -1)
        return all(c % 4 == 0 or any(self.atom_aligned(a) for a in m) for m, c in rest.items())

    def atom_aligned(self, a):
        if a[0] == 'lens':
            return self.aligned_type(a[1])
        if a[0] == 'sum':
            return self.is_multiple_of_4(dict(a[2]))
        if a[0] == 'opt':
            return self.is_multiple_of_4(dict(a[2]))
        return False

    def reduce_mod4(self, p):
        out = {}
        for m, c in p.items():
            if c % 4 == 0 or any(self.atom_aligned(a) for a in m):
                continue
            out[m] = c % 4
        return out

    def normalise(self, p, facts):
        """Resolve opt atoms with the presence facts, reduce the argument of pad4 modulo 4."""
        out = {}
        for m, c in p.items():
            polys = [{(): 1}]
            for a in m:
                if a[0] == 'opt':
                    v = facts.get(a[1])
                    if v == 'None':
                        polys = [{}]
                        break
                    if v == 'Some':
                        inner = self.normalise(dict(a[2]), facts)
                        polys = [pmul(x, inner) for x in polys]
                        continue
                    inner = freeze(self.normalise(dict(a[2]), facts))
                    polys = [pmul(x, atom_poly(('opt', a[1], inner))) for x in polys]
                elif a[0] == 'pad4':
                    inner = self.reduce_mod4(self.normalise(dict(a[1]), facts))
                    if not inner:
                        polys = [{}]
                        break
                    polys = [pmul(x, atom_poly(('pad4', freeze(inner)))) for x in polys]
                elif a[0] == 'sum':
                    polys = [pmul(x, atom_poly(('sum', a[1], freeze(self.normalise(dict(a[2]), facts))))) for x in polys]
                else:
                    polys = [pmul(x, atom_poly(a)) for x in polys]
            for x in polys:
                for m2, c2 in x.items():
                    out[m2] = out.get(m2, 0) + c * c2
                    if out[m2] == 0:
                        del out[m2]
        return out

    def compare(self, ty):
        """-> list of (facts, L poly, W poly, equal) for type ty."""
        lb, wb = self.len_body(ty), self.writable_body(ty)
        if lb is None or wb is None:
            raise CheckBroken('%s: len_serialized (%s) / write_to (%s) not found' % (ty, lb is not None, wb is not None))
        L = self.len_expr(lb)
        rows = []
        for facts, W in self.write_paths(wb):
            ln = self.normalise(L, facts)
            wn = self.normalise(W, facts)
            rows.append((facts, ln, wn, freeze(ln) == freeze(wn)))
        return rows


def show(p):
    """Readable form of a polynomial."""
    def atom_s(a):
        if a[0] == 'len':
            return 'len(%s)' % obj_s(a[1])
        if a[0] == 'lens':
            return '%s::len_serialized(%s)' % (a[1].rsplit('::', 1)[-1], obj_s(a[2]))
        if a[0] == 'pad4':
            return 'pad4(%s)' % show(dict(a[1]))
        if a[0] == 'sum':
            return 'sum(%s: %s)' % (obj_s(a[1]), show(dict(a[2])))
        if a[0] == 'opt':
            return 'opt(%s: %s)' % (obj_s(a[1]), show(dict(a[2])))
        if a[0] == 'sizeof':
            return 'sizeof(%s)' % a[1]
        if a[0] == 'val':
            return obj_s(a[1])
        if a[0] in ('min', 'max'):
            return '%s(%s)' % (a[0], ', '.join(sorted(show(dict(x)) for x in a[1])))
        if a[0] in ('Div', 'Rem', 'Shl', 'Shr'):
            return '(%s %s %s)' % (show(dict(a[1])), a[0], show(dict(a[2])))
        return str(a)[:60]

    def obj_s(o):
        if not isinstance(o, tuple):
            return str(o)
        if o[0] == 'field':
            return '%s.%s' % (obj_s(o[2]), o[1])
        if o[0] == 'param':
            return 'self' if o[1] == 1 else 'arg%d' % o[1]
        if o[0] == 'some':
            return 'Some(%s)' % obj_s(o[1])
        if o == BOUND:
            return 'x'
        if o[0] == 'const':
            return str(o[2]).rsplit('::', 1)[-1]
        return str(o)[:50]
    parts = []
    for m, c in sorted(p.items(), key=lambda kv: repr(kv[0])):
        s = ' * '.join(atom_s(a) for a in m)
        parts.append(('%d' % c) if not m else (s if c == 1 else '%d * %s' % (c, s)))
    return ' + '.join(parts) or '0'
