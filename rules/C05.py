"""C05  Fragmented samples reassemble to exactly the original bytes, once.

Byte-exactness for every (size, fragment size, order) is arithmetic over run-time values and
is NOT decided. Decided: the release gate, buffer identity and the bitmap discipline.
(Index / length hazards of insert_frags are C06 obligations.)
"""
from rdv.core import (CheckBroken, Origins, Pos, call_matches, callee_res, natural_loops, norm_path, primary_edges,
                      resolve_captures, strip_generics, switch_edges, term_has, term_leaves, term_str)

CONFIGS = ['default']
LEVEL = 'other'

FA = 'rtps::fragment_assembler::'


def has_field(t, name):
    return term_has(t, lambda x: x[0] == 'field' and x[1] == name)


def has_call(t, suffix):
    return term_has(t, lambda x: x[0] == 'call' and x[1].endswith(suffix))


def run(rep, facts, tier):
    fx = facts['default']
    rep.explanation = ('A sample is released only on is_complete() of its own assembly buffer, which is the all() of the per-fragment bitmap; every fragment of a DATAFRAG '
                       'sets its own bit (idempotent for duplicates); the buffer is removed on release; buffers are keyed by (writer guid, sequence number) of the submessage; '
                       'the released payload is the removed buffer\'s bytes.')
    rep.assume('the byte placement arithmetic of insert_frags is not decided (value property)', 'writers use one constant fragment size per sample')
    rep.rule('R05.1', 'release gate: new_datafrag returns Some only under is_complete() == true and after assembly_buffers.remove(sn); is_complete() = received_bitmap.all(); '
                      'completion is not decided by counting arrivals')
    rep.rule('R05.2', 'buffer identity: the assembler is selected by entry(writer guid of the submessage), the buffer by entry(datafrag.writer_sn); insert_frags runs on that buffer')
    rep.rule('R05.3', 'the released payload is parsed from the bytes of the buffer removed for that sequence number')
    rep.rule('R05.4', 'bitmap discipline: insert_frags sets bit (fragment_starting_num - 1 + f) for every f in 0..fragments_in_submessage, and the bitmap is sized by the total number of fragments')

    nd = fx.find(FA + 'FragmentAssembler::new_datafrag')
    rep.analysed(nd)
    og = Origins(nd, summaries=False)
    P = Pos(nd)
    edges = list(switch_edges(nd, fx, og))
    comp = [(s_, t_) for s_, t_, cond, lab in edges if cond[0] == 'call' and cond[1].endswith('AssemblyBuffer::is_complete') and lab is True]
    rem = [(s_, t_) for s_, t_, cond, lab in primary_edges(nd, edges) if lab == 'Some' and cond[0] == 'discr' and cond[1][0] == 'call' and cond[1][1].endswith('::remove') and has_field(cond[1], 'assembly_buffers')]
    n_some = 0
    for bb, si, st in nd.statements():
        if st['s'] == 'assign' and st['lhs']['l'] == 0 and st['rv']['r'] == 'agg' and st['rv'].get('variant') == 'Some':
            n_some += 1
            ok1 = bool(comp) and P.every_path_passes(None, (bb, si), via_edges=comp, from_entry=True)
            ok2 = bool(rem) and P.every_path_passes(None, (bb, si), via_edges=rem, from_entry=True)
            rep.check(ok1, 'R05.1', 'new_datafrag/some#%d/complete' % n_some, 'Some only if is_complete()', 'a sample can be released from an assembly buffer that is not complete', nd.where(bb, si))
            rep.check(ok2, 'R05.1', 'new_datafrag/some#%d/removed' % n_some, 'Some only after the buffer was removed', 'a completed sample is released without removing its assembly buffer: it would be delivered again', nd.where(bb, si))
            v = og.of_operand(st['rv']['ops'][0], bb, si)
            ok3 = has_call(v, 'SerializedPayload::from_bytes') and term_has(v, lambda x: x[0] == 'call' and x[1].endswith('::remove') and has_field(x, 'assembly_buffers')) and has_field(v, 'buffer_bytes')
            rep.check(ok3, 'R05.3', 'new_datafrag/some#%d/payload' % n_some, 'payload = from_bytes(removed buffer.buffer_bytes)',
                      'the released sample is not built from the bytes of the removed assembly buffer (%s)' % term_str(v)[:120], nd.where(bb, si))
    rep.floor('R05.1', n_some, 1, 'Some results of new_datafrag')
    # the is_complete() tested is the one of the buffer selected by this datafrag's sn
    for s_, t_, cond, lab in edges:
        if cond[0] == 'call' and cond[1].endswith('AssemblyBuffer::is_complete') and lab is True:
            buf = cond[2][0]
            # either entry(sn).or_insert_with(new) or the explicit match on Entry::{Occupied => into_mut, Vacant => insert(new)}
            okb = (has_call(buf, '::or_insert_with') or has_call(buf, '::or_insert') or (has_call(buf, '::into_mut') and has_call(buf, '::insert'))) and \
                has_call(buf, '::entry') and (has_field(buf, 'writer_sn') or term_has(buf, lambda x: x[0] == 'field' and x[1] == 'writer_sn')) and has_field(buf, 'assembly_buffers')
            rep.check(okb, 'R05.2', 'new_datafrag/buffer-of-sn', 'buffer = assembly_buffers.entry(datafrag.writer_sn).or_insert_with(new)',
                      'the completeness test is not made on the buffer selected by the DATAFRAG\'s own sequence number', nd.where(s_))
    ins = [(bb, t) for bb, t in nd.calls() if call_matches(t, 'AssemblyBuffer::insert_frags')]
    # R05.9: no fragment is turned away: every path through new_datafrag records the fragment first
    rep.rule('R05.9', 'every DATAFRAG handed to the assembler is recorded: all paths of new_datafrag from entry to a return pass insert_frags on the buffer of its sequence number '
                      '(a fragment dropped because of what happened to *other* samples can never be completed)')
    every = bool(ins) and all(P.every_path_passes(None, (r, 'term'), via_pos=[(bb, 'term') for bb, _t in ins], from_entry=True) for r in nd.return_blocks())
    rep.check(every, 'R05.9', 'new_datafrag/always-inserted', 'insert_frags on every path', 'new_datafrag can return without recording the fragment (a path avoids insert_frags): '
              'fragments of a sample are discarded on a condition that does not depend on that sample, so it never completes although every fragment arrives', nd.where())
    # R05.15 (after seed C05f): ... and every fragment recorded is followed by the completeness test, whichever fragment it was - the sample is complete when the LAST hole is
    # filled, not when the last-numbered fragment arrives
    rep.rule('R05.15', 'complete => released: in new_datafrag every path from insert_frags to a return evaluates is_complete() of that buffer (the test is not skipped on a condition '
                       'about which fragment arrived), and from its true edge every path to a return has removed the buffer')
    tests = [(bb, 'term') for bb, t in nd.calls() if call_matches(t, 'AssemblyBuffer::is_complete')]
    oka = bool(ins) and bool(tests)
    for ib, _t in ins:
        for r in nd.return_blocks():
            if P.can_reach((ib, 'term'), (r, 'term'), avoid_pos=tests):
                oka = False
    rep.check(oka, 'R05.15', 'new_datafrag/always-tested', 'insert_frags => is_complete() evaluated, on every path',
              'new_datafrag can record a fragment and return without testing whether the sample is now complete: when the fragment that fills the last hole is not the one the '
              'condition expects (e.g. not the highest-numbered one), every fragment is there and the sample is never delivered nor requested again', nd.where())
    rmv = [(bb, 'term') for bb, t in nd.calls() if callee_res(t).endswith('::remove') and has_field(og.of_operand(t['args'][0], bb, 'term'), 'assembly_buffers')]
    okr = bool(comp) and bool(rmv) and not any(P.can_reach((t_, 0), (r, 'term'), avoid_pos=rmv) for s_, t_ in comp for r in nd.return_blocks())
    rep.check(okr, 'R05.15', 'new_datafrag/complete-removed', 'is_complete() => the buffer is removed before the return',
              'a complete assembly buffer can stay in the assembler: the sample is not handed over and, counted as partially received, not requested again either', nd.where())
    okI = bool(ins)
    for bb, t in ins:
        buf = og.of_operand(t['args'][0], bb, 'term')
        okI = okI and has_call(buf, '::entry') and has_field(buf, 'writer_sn') and og.of_operand(t['args'][1], bb, 'term') == ('param', 2)
        # insertion precedes the completeness test
        okI = okI and all(P.every_path_passes(None, (s_, 'term'), via_pos=[(bb, 'term')], from_entry=True) for s_, _t in comp)
    rep.check(okI, 'R05.2', 'new_datafrag/insert-then-test', 'insert_frags(this datafrag) on that buffer, before the completeness test',
              'the fragments are not inserted into the buffer of their sequence number before completeness is tested', nd.where())
    rmk = [og.of_operand(t['args'][1], bb, 'term') for bb, t in nd.calls() if callee_res(t).endswith('::remove') and has_field(og.of_operand(t['args'][0], bb, 'term'), 'assembly_buffers')]
    rep.check(bool(rmk) and all(has_field(k, 'writer_sn') for k in rmk), 'R05.1', 'new_datafrag/remove-key', 'removes the buffer of datafrag.writer_sn',
              'the buffer removed on completion is not the one of the DATAFRAG\'s sequence number', nd.where())
    ic = fx.find(FA + 'AssemblyBuffer::is_complete')
    rep.analysed(ic)
    ogi = Origins(ic, summaries=False)
    t0 = ogi.of_local(0, ic.return_blocks()[0], 'term')
    okc = t0[0] == 'call' and t0[1].endswith('BitVec::<B>::all') or (t0[0] == 'call' and t0[1].endswith('::all') and 'BitVec' in t0[1])
    okc = okc and has_field(t0, 'received_bitmap')
    rep.check(okc, 'R05.1', 'is_complete/bitmap-all', 'is_complete() = received_bitmap.all()',
              'completeness is %s, not "every fragment bit is set": duplicates or out-of-range counts could complete a sample with a hole' % term_str(t0)[:80], ic.where())
    # ---- R05.4
    inf = fx.find(FA + 'AssemblyBuffer::insert_frags')
    rep.analysed(inf)
    ogf = Origins(inf, summaries=False)
    sets = [(bb, t) for bb, t in inf.calls() if callee_res(t).endswith('::set') and has_field(ogf.of_operand(t['args'][0], bb, 'term'), 'received_bitmap')]
    oks = bool(sets)
    for bb, t in sets:
        idx = ogf.of_operand(t['args'][1], bb, 'term')
        val = ogf.of_operand(t['args'][2], bb, 'term')
        oks = oks and val == ('const', 'int', 1) and has_field(idx, 'fragment_starting_num') and term_has(idx, lambda x: x[0] == 'call' and x[1].endswith('::next')) and \
            term_has(idx, lambda x: (x[0] == 'bin' and x[1].startswith('Sub')))
        # the loop runs over 0..fragments_in_submessage
        oks = oks and has_field(idx, 'fragments_in_submessage')
        oks = oks and any(bb in blocks for _h, blocks, _s in natural_loops(inf))
    rep.check(oks, 'R05.4', 'insert_frags/bits', 'sets bit (starting_num - 1 + f) for f in 0..fragments_in_submessage',
              'insert_frags does not mark exactly the fragments carried by the DATAFRAG as received', inf.where())
    # a fragment is marked received only if it is there in full (raised F27): from the edge "payload shorter than the window it announces" no bit is set
    rep.rule('R05.16', 'received means received whole: in insert_frags the bits of a DATAFRAG are set only on paths on which its payload is not shorter than the bytes its fragments '
                       'stand for - min(fragments_in_submessage * frag_size, what remains of the sample) -: the edge "payload.len() < expected" leads to the return without '
                       'received_bitmap.set')
    ogi = Origins(inf, summaries=False)
    Pi = Pos(inf)
    sets = [(bb, 'term') for bb, t in inf.calls() if callee_res(t).endswith('BitVec::<B>::set') or (callee_res(t).endswith('::set') and has_field(ogi.of_operand(t['args'][0], bb, 'term'), 'received_bitmap'))]
    short = []
    for s_, t_, cond, lab in switch_edges(inf, fx, ogi):
        if cond[0] != 'bin' or cond[1] not in ('Lt', 'Ge', 'Gt', 'Le') or not isinstance(lab, bool):
            continue
        a, b_ = cond[2], cond[3]
        pl_a = term_has(a, lambda x: (x[0] == 'call' and x[1].endswith('::len')) or x[0] == 'len') and has_field(a, 'serialized_payload')
        pl_b = term_has(b_, lambda x: (x[0] == 'call' and x[1].endswith('::len')) or x[0] == 'len') and has_field(b_, 'serialized_payload')
        exp_a = has_field(a, 'fragments_in_submessage') and not pl_a
        exp_b = has_field(b_, 'fragments_in_submessage') and not pl_b
        if pl_a and exp_b and ((cond[1] == 'Lt' and lab is True) or (cond[1] == 'Ge' and lab is False)):
            short.append((s_, t_, b_))
        if exp_a and pl_b and ((cond[1] == 'Gt' and lab is True) or (cond[1] == 'Le' and lab is False)):
            short.append((s_, t_, a))
    # the expectation covers the last fragment too: it mentions what remains of the sample (the buffer length)
    whole = [x for x in short if has_field(x[2], 'buffer_bytes')]
    # ... and it is their minimum, not more: a test that asks for more than the fragments stand for turns every fragment away (mutation round 4: min -> max survived)
    from rdv.poly import minset as _minset
    exact = []
    for x in whole:
        ms = _minset(x[2])
        has_nfs = any(any('fragments_in_submessage' in str(a) for m in dict(p_).keys() for a in m) and not any('buffer_bytes' in str(a) for m in dict(p_).keys() for a in m) for p_ in ms)
        has_rem = any(any('buffer_bytes' in str(a) for m in dict(p_).keys() for a in m) for p_ in ms)
        if len(ms) == 2 and has_nfs and has_rem:
            exact.append(x)
    whole = exact if whole else whole
    ok16 = bool(sets) and bool(whole) and not any(Pi.can_reach((t_, 0), st_) for s_, t_, _e in whole for st_ in sets)
    rep.check(ok16, 'R05.16', 'insert_frags/short-fragment-not-counted', 'payload.len() < min(n*fs, remaining) => no bit set',
              'insert_frags marks the fragments of a DATAFRAG as received although its payload is shorter than the bytes they stand for (%s): with the other fragments in place the '
              'sample is delivered with the missing bytes left zero' % ('the size test does not lead away from the bitmap' if whole else
                                                                          ('the size expected is not min(n*fs, what remains of the sample)' if short else 'there is no such size test')), inf.where())
    nb = fx.find(FA + 'AssemblyBuffer::new')
    rep.analysed(nb)
    ogn = Origins(nb, summaries=False)
    okn = False
    for bb, si, st in nb.statements():
        if st['s'] == 'assign' and st['rv']['r'] == 'agg' and strip_generics(st['rv'].get('adt', '')).endswith('AssemblyBuffer'):
            f = st['rv']['fields']
            bm = ogn.of_operand(st['rv']['ops'][f.index('received_bitmap')], bb, si)
            fc = ogn.of_operand(st['rv']['ops'][f.index('fragment_count')], bb, si)
            okn = bm[0] == 'call' and bm[1].endswith('from_elem') and bm[2][1] == ('const', 'int', 0) and has_call(bm, 'total_number_of_fragments') and has_call(fc, 'total_number_of_fragments')
    rep.check(okn, 'R05.4', 'AssemblyBuffer::new/bitmap-size', 'bitmap = total_number_of_fragments() bits, all false',
              'the received-fragment bitmap is not created with one cleared bit per fragment of the sample', nb.where())
    # the buffer the fragments are copied into is data_size bytes long from the start (mutation triage: without the resize the buffer has capacity but length 0, the copy
    # window R05.12 clamps to it, every fragment copies nothing and the sample completes empty)
    okb = False
    whyb = 'buffer_bytes is not built by with_capacity/new + resize(data_size, _) or zeroed(data_size)'
    for bb, si, st in nb.statements():
        if st['s'] == 'assign' and st['rv']['r'] == 'agg' and strip_generics(st['rv'].get('adt', '')).endswith('AssemblyBuffer'):
            f = st['rv']['fields']
            buf = ogn.of_operand(st['rv']['ops'][f.index('buffer_bytes')], bb, si)
            Pn = Pos(nb)
            sized = []
            for cb, ct in nb.calls():
                cr = callee_res(ct)
                if cr.endswith(('BytesMut::resize', 'BytesMut::zeroed', 'Vec::<T, A>::resize')):
                    a = ogn.of_operand(ct['args'][1 if cr.endswith('resize') else 0], cb, 'term')
                    if has_field(a, 'data_size') and not term_has(a, lambda x: x[0] == 'bin'):
                        sized.append((cb, 'term'))
            okb = bool(sized) and Pn.every_path_passes(None, (bb, si), via_pos=sized, from_entry=True) and \
                (term_has(buf, lambda x: x[0] == 'mutated') or term_has(buf, lambda x: x[0] == 'call' and x[1].endswith('zeroed')))
    rep.check(okb, 'R05.4', 'AssemblyBuffer::new/buffer-length', 'buffer_bytes.len() = data_size before any fragment is placed',
              'the assembly buffer is not created data_size bytes long (%s): fragments are copied into a shorter buffer and the sample completes truncated or empty' % whyb, nb.where())
    # ---- R05.2 reader side
    hd = fx.find('rtps::reader::Reader::handle_datafrag_msg')
    rep.analysed(hd)
    ogh = Origins(hd, summaries=True)
    fam = [(bb, t) for bb, t in hd.calls() if call_matches(t, 'Reader::fragment_assembler_mutable')]
    okr = bool(fam)
    for bb, t in fam:
        g = ogh.of_operand(t['args'][1], bb, 'term')
        okr = okr and has_field(g, 'source_guid_prefix') and has_field(g, 'writer_id')
    ndc = [(bb, t) for bb, t in hd.calls() if call_matches(t, 'FragmentAssembler::new_datafrag')]
    for bb, t in ndc:
        okr = okr and has_call(ogh.of_operand(t['args'][0], bb, 'term'), 'fragment_assembler_mutable') and ogh.of_operand(t['args'][1], bb, 'term') == ('param', 2)
    rep.check(okr and bool(ndc), 'R05.2', 'handle_datafrag_msg/assembler-of-writer', 'assembler = entry(GUID(source prefix, datafrag.writer_id)); new_datafrag(this datafrag)',
              'fragments are not routed to the assembler of the writer that sent them', hd.where())
    fm = fx.find('rtps::reader::Reader::fragment_assembler_mutable')
    ogm = Origins(fm, summaries=False)
    t0 = ogm.of_local(0, fm.return_blocks()[0], 'term')
    rep.check(has_call(t0, '::entry') and has_field(t0, 'fragment_assemblers') and term_has(t0, lambda x: x == ('param', 2)), 'R05.2', 'fragment_assembler_mutable/keyed-by-writer',
              'fragment_assemblers.entry(writer_guid)', 'assemblers are not keyed by the writer guid', fm.where())

    rule_split_and_placement(rep, fx)
    rule_size_slice_agreement(rep, fx)
    rule_05_10(rep, fx)
    rule_frag_amount(rep, fx, 'R05.11')


def rule_split_and_placement(rep, fx):
    """R05.5-R05.7: the writer's split and the reader's placement are sibling formulas; they are compared as polynomials
    (rdv/poly.py), so algebraic rewrites are fine and a changed operand, offset or rounding is not."""
    from rdv.poly import poly, freeze, rename, ceil_div_operands, atom, strip
    rep.rule('R05.5', 'writer split: data_frag_msg sends bytes_slice(data, (n-1)*fs, min(n*fs, size)) in a DataFrag{fragment_starting_num = n, fragments_in_submessage = 1, '
                      'fragment_size = fs, data_size = size}; both callers pass fs = data_max_size_serialized and size = payload_size() of the very change sent; the send loop '
                      'covers fragment numbers 1..=num_frags')
    rep.rule('R05.6', 'reader placement: insert_frags copies the payload from offset 0 to buffer offset (fragment_starting_num-1)*frag_size, the same polynomial as the writer\'s start offset')
    rep.rule('R05.7', 'fragment counts agree: the writer\'s num_frags and the reader\'s total_number_of_fragments are both ceil(size / fragment size) of the corresponding operands')
    # ---------------------------------------------------------------- R05.5 (a) the builder
    b = fx.find('rtps::message::MessageBuilder::data_frag_msg')
    rep.analysed(b)
    og = Origins(b, summaries=False)
    df = [(bb, si, st) for bb, si, st in b.statements() if st['s'] == 'assign' and st['rv']['r'] == 'agg' and strip_generics(str(st['rv'].get('adt'))).endswith('data_frag::DataFrag')]
    if len(df) != 1:
        raise CheckBroken('data_frag_msg: expected one DataFrag construction, found %d' % len(df))
    bb, si, st = df[0]
    f = dict(zip(st['rv']['fields'], [og.of_operand(o, bb, si) for o in st['rv']['ops']]))
    n, fs, size = strip(f['fragment_starting_num']), strip(f['fragment_size']), strip(f['data_size'])
    rep.check(all(x[0] == 'param' for x in (n, fs, size)) and len({n, fs, size}) == 3, 'R05.5', 'data_frag_msg/fields',
              'fragment_starting_num, fragment_size, data_size are three distinct parameters', 'the DataFrag header fields are not the builder\'s fragment number / fragment size / sample size parameters', b.where(bb, si))
    rep.check(strip(f['fragments_in_submessage']) == ('const', 'int', 1), 'R05.5', 'data_frag_msg/one-fragment', 'fragments_in_submessage = 1',
              'fragments_in_submessage is not 1 although the builder slices exactly one fragment', b.where(bb, si))
    pay = f['serialized_payload']
    slices = [x for x in term_leaves(pay) if x[0] == 'call' and x[1].endswith('bytes_slice')]
    # with security the payload passes through encode_serialized_payload; the slice is found inside the term
    if not slices:
        slices = [og._call(t, cb, 0) for cb, t in b.calls() if callee_res(t).endswith('DDSData::bytes_slice')]
    ok = False
    w_from = None
    if slices:
        s_ = slices[0]
        w_from, w_to = poly(s_[2][1]), s_[2][2]
        an, afs, asz = atom(n), atom(fs), atom(size)
        want_from = {tuple(sorted((an, afs), key=repr)): 1, (afs,): -1}
        want_to = ('min', frozenset([freeze({tuple(sorted((an, afs), key=repr)): 1}), freeze({(asz,): 1})]))
        ok = freeze(w_from) == freeze(want_from) and atom(w_to) == want_to and term_has(s_[2][0], lambda x: x[0] == 'field' and x[1] == 'data_value')
    rep.check(ok, 'R05.5', 'data_frag_msg/slice', 'payload = data_value.bytes_slice((n-1)*fs, min(n*fs, size))',
              'the fragment payload is not bytes (n-1)*fs .. min(n*fs, size) of the change: reassembly at the reader cannot give back the written bytes', b.where(bb, si))
    # ---------------------------------------------------------------- R05.5 (b) the callers
    n_call = 0
    for cb in fx.bodies:
        for cbb, t in cb.calls():
            if not callee_res(t).endswith('MessageBuilder::data_frag_msg'):
                continue
            n_call += 1
            rep.analysed(cb)
            ogc = Origins(cb, summaries=False)
            a = [ogc.of_operand(x, cbb, 'term') for x in t['args']]
            # params of data_frag_msg: self, cache_change, reader_entity_id, writer_guid, fragment_number, fragment_size, sample_size, ...
            cc, frag, fsz, ssz = a[1], a[4], a[5], a[6]
            def single_atom(tm):
                pl = poly(tm)
                if len(pl) == 1:
                    (m, c), = pl.items()
                    if c == 1 and len(m) == 1:
                        return m[0]
                return None
            afsz, assz = single_atom(fsz), single_atom(ssz)
            ok_fs = afsz is not None and ((afsz[0] == 'field' and afsz[1] == 'data_max_size_serialized') or
                                          (afsz[0] == 'field' and afsz[1] == '1' and afsz[2][0] == 'call' and afsz[2][1].endswith('num_frags_and_frag_size')))
            ok_sz = assz is not None and assz[0] == 'call' and assz[1].endswith('payload_size') and len(assz[2]) == 1 and \
                assz[2][0][0] == 'field' and assz[2][0][1] == 'data_value' and assz[2][0][2] == atom(cc)
            rep.check(ok_fs, 'R05.5', '%s/call#%d/fragment-size' % (cb.key, n_call), 'fragment size = the writer\'s data_max_size_serialized',
                      'data_frag_msg is called with a fragment size that is not the writer\'s data_max_size_serialized (%s)' % term_str(fsz)[:100], cb.where(cbb))
            rep.check(ok_sz, 'R05.5', '%s/call#%d/sample-size' % (cb.key, n_call), 'sample size = payload_size() of the change being sent',
                      'data_frag_msg is called with a sample size that is not payload_size() of the same cache change (%s)' % term_str(ssz)[:100], cb.where(cbb))
            # the send loop: fragment numbers from range_inclusive(new(1), new(num_frags(payload_size)))
            rng = [x for x in term_leaves(frag) if x[0] == 'call' and x[1].endswith('range_inclusive')]
            if rng:
                lo, hi = strip(rng[0][2][0]), strip(rng[0][2][1])
                lo_ok = lo[0] == 'call' and lo[1].endswith('FragmentNumber::new') and strip(lo[2][0]) == ('const', 'int', 1)
                hi_ok = hi[0] == 'call' and hi[1].endswith('FragmentNumber::new') and term_has(hi, lambda x: x[0] == 'call' and x[1].endswith('num_frags_and_frag_size')) \
                    and term_has(hi, lambda x: x[0] == 'field' and x[1] == '0')
                nf = [x for x in term_leaves(hi) if x[0] == 'call' and x[1].endswith('num_frags_and_frag_size')]
                arg_ok = bool(nf) and any(y[0] == 'call' and y[1].endswith('payload_size') for y in term_leaves(nf[0][2][1]))
                rep.check(lo_ok and hi_ok and arg_ok, 'R05.5', '%s/call#%d/loop' % (cb.key, n_call), 'fragment numbers 1..=num_frags(payload_size)',
                          'the send loop does not cover fragment numbers 1..=num_frags of the payload: %s' % term_str(frag)[:140], cb.where(cbb))
            else:
                # repair path: the fragment number comes from the reader's request
                rep.check(term_has(frag, lambda x: x[0] == 'call' and 'frags_requested' in x[1]), 'R05.5', '%s/call#%d/requested' % (cb.key, n_call),
                          'fragment number = a requested fragment', 'the fragment number sent by the repair path is not the requested one', cb.where(cbb))
    rep.floor('R05.5', n_call, 2, 'call sites of data_frag_msg')
    # ---------------------------------------------------------------- R05.6 reader placement
    ins = fx.find(FA + 'AssemblyBuffer::insert_frags')
    rep.analysed(ins)
    ogi = Origins(ins, summaries=False)
    copies = [(cbb, t) for cbb, t in ins.calls() if callee_res(t).endswith('copy_from_slice')]
    if len(copies) != 1:
        raise CheckBroken('insert_frags: expected one copy_from_slice, found %d' % len(copies))
    cbb, t = copies[0]
    dst, src = ogi.of_operand(t['args'][0], cbb, 'term'), ogi.of_operand(t['args'][1], cbb, 'term')
    ok_dst = dst[0] == 'call' and dst[1].endswith('index_mut') and term_has(dst[2][0], lambda x: x[0] == 'field' and x[1] == 'buffer_bytes')
    ok_src = src[0] == 'call' and src[1].endswith('::index') and term_has(src[2][0], lambda x: x[0] == 'field' and x[1] == 'serialized_payload') \
        and src[2][1][0] == 'agg' and str(src[2][1][1]).endswith('ops::RangeTo')
    ok_pl = False
    if ok_dst and dst[2][1][0] == 'agg' and str(dst[2][1][1]).endswith('ops::Range') and w_from is not None:
        r_from = poly(dst[2][1][2][0])
        # roles: the reader's fragment number is datafrag.fragment_starting_num, its fragment size the frag_size parameter
        r_n = [a_ for m in r_from for a_ in m if a_[0] == 'field' and a_[1] == 'fragment_starting_num']
        r_fs = [a_ for m in r_from for a_ in m if a_[0] == 'param']
        if r_n and r_fs:
            mapped = rename(w_from, {atom(n): r_n[0], atom(fs): r_fs[0]})
            ok_pl = freeze(mapped) == freeze(r_from)
        # the end of the destination is start + length of the source slice
        if ok_pl and ok_src:
            r_to = dst[2][1][2][1]
            s_len = src[2][1][2][0]
            ok_pl = freeze(poly(s_len)) == freeze(padd_(poly(r_to), r_from))
    rep.check(ok_dst and ok_src and ok_pl, 'R05.6', 'insert_frags/placement', 'buffer[(start-1)*fs .. to] <- payload[.. to - (start-1)*fs]',
              'insert_frags does not place the fragment payload (from its offset 0) at (fragment_starting_num-1)*frag_size, the offset the writer cut it from', ins.where(cbb))
    rule_copy_window(rep, fx, 'R05.12')
    # R05.13 every DATAFRAG built goes out (mutation triage: deleting the push onto the send list survived every check and the suite)
    from rules import builtsent
    builtsent.run_rule(rep, fx, 'R05.13')
    builtsent.run_wire(rep, fx, 'R05.17')
    rule_bytes_slice(rep, fx, 'R05.14')
    rule_partially_received_contract(rep, fx, 'R05.18')
    # ---------------------------------------------------------------- R05.7 counts
    nfb = fx.find('rtps::writer::Writer::num_frags_and_frag_size')
    tnb = fx.find('messages::submessages::data_frag::DataFrag::total_number_of_fragments')
    rep.analysed(nfb, tnb)
    ogn, ogt = Origins(nfb, summaries=False), Origins(tnb, summaries=False)
    w = None
    for bb_, si_, st_ in nfb.statements():
        if st_['s'] == 'assign' and st_['lhs']['l'] == 0 and not st_['lhs'].get('p') and st_['rv']['r'] == 'agg' and len(st_['rv']['ops']) == 2:
            cnt, fsz = ogn.of_operand(st_['rv']['ops'][0], bb_, si_), ogn.of_operand(st_['rv']['ops'][1], bb_, si_)
            cd = ceil_div_operands(cnt)
            w = cd is not None and cd[1] == freeze(poly(fsz)) and cd[0] == freeze({(('param', 2),): 1}) and \
                term_has(fsz, lambda x: x[0] == 'field' and x[1] == 'data_max_size_serialized')
    rep.check(bool(w), 'R05.7', 'num_frags_and_frag_size/ceil-div', 'num_frags = ceil(payload_size / data_max_size_serialized), returned with that fragment size',
              'the writer\'s fragment count is not ceil(payload_size / fragment size) of the fragment size it returns', nfb.where())
    r = None
    for bb_, t_ in tnb.calls():
        if callee_res(t_).endswith('FragmentNumber::new'):
            cd = ceil_div_operands(ogt.of_operand(t_['args'][0], bb_, 'term'))
            r = cd is not None and cd[0] == freeze({(('field', 'data_size', ('param', 1)),): 1}) and cd[1] == freeze({(('field', 'fragment_size', ('param', 1)),): 1})
    rep.check(bool(r), 'R05.7', 'total_number_of_fragments/ceil-div', 'expected fragments = ceil(data_size / fragment_size)',
              'the reader\'s expected fragment count is not ceil(data_size / fragment_size)', tnb.where())


def padd_(a, b):
    from rdv.poly import padd
    return padd(a, b, -1)


def rule_size_slice_agreement(rep, fx):
    """R05.8: the size the writer announces (data_size, fragment count, last-fragment clamp all come from payload_size()) and the
    bytes it can cut (bytes_slice) are computed by sibling functions per DDSData variant; they must describe the same byte string."""
    from rdv.poly import poly, freeze, atom
    rep.rule('R05.8', 'size/slice agreement: for every DDSData variant payload_size() is len_serialized() of the very object bytes_slice() cuts from, and '
                      'SerializedPayload::len_serialized() equals the upper clamp of SerializedPayload::bytes_slice() (header + value)')
    ps = fx.find('dds::ddsdata::DDSData::payload_size')
    bs = fx.find('dds::ddsdata::DDSData::bytes_slice')
    rep.analysed(ps, bs)
    ogp, ogb = Origins(ps, summaries=False), Origins(bs, summaries=False)
    sized = {}
    for bb, t in ps.calls():
        r = strip_generics(callee_res(t))
        if r.endswith('::len_serialized'):
            o = ogp.of_operand(t['args'][0], bb, 'term')
            sized[atom(o)] = r.rsplit('::', 1)[0]
    sliced = {}
    for bb, t in bs.calls():
        r = strip_generics(callee_res(t))
        if r.endswith('::bytes_slice'):
            o = ogb.of_operand(t['args'][0], bb, 'term')
            sliced[atom(o)] = r.rsplit('::', 1)[0]
    # every returned size of payload_size is one of these calls or a constant (the 16-byte key hash, which is never sent as DATAFRAG)
    rets = []
    for bb, si, st in ps.statements():
        if st['s'] == 'assign' and st['lhs']['l'] == 0 and not st['lhs'].get('p'):
            rets.append(ogp._rvalue(st['rv'], bb, si, 0))
    for bb, t in ps.calls():
        if t['dest']['l'] == 0 and not t['dest'].get('p'):
            rets.append(ogp._call(t, bb, 0))
    other = [r_ for r_ in rets if not (r_[0] == 'const' or (r_[0] == 'call' and r_[1].endswith('::len_serialized')))]
    ok = bool(sized) and sized == sliced and not other
    rep.check(ok, 'R05.8', 'DDSData/payload_size-vs-bytes_slice', 'payload_size() = len_serialized() of the object bytes_slice() cuts, for %d variant(s)' % len(sized),
              'DDSData::payload_size and DDSData::bytes_slice do not describe the same bytes for every variant (sized: %s; sliced: %s; other sizes: %s): data_size, the fragment count '
              'and the last fragment\'s end are then wrong for that variant and the reader reassembles a truncated or over-long sample' % (
                  sorted(str(k)[:60] for k in sized), sorted(str(k)[:60] for k in sliced), [term_str(x)[:60] for x in other]), ps.where())
    ls = fx.find('serialized_payload::SerializedPayload::len_serialized')
    sb = fx.find('serialized_payload::SerializedPayload::bytes_slice')
    rep.analysed(ls, sb)
    ogl, ogs = Origins(ls, summaries=False), Origins(sb, summaries=False)
    lens = []
    for bb, si, st in ls.statements():
        if st['s'] == 'assign' and st['lhs']['l'] == 0 and not st['lhs'].get('p'):
            lens.append(freeze(poly(ogl._rvalue(st['rv'], bb, si, 0))))
    clamps = []
    for bb, t in sb.calls():
        if strip_generics(callee_res(t)).endswith('cmp::min'):
            a = [ogs.of_operand(x, bb, 'term') for x in t['args']]
            if a[0] == ('param', 3):
                clamps.append(freeze(poly(a[1])))
            elif a[1] == ('param', 3):
                clamps.append(freeze(poly(a[0])))
    ok2 = len(set(lens)) == 1 and len(set(clamps)) == 1 and lens[0] == clamps[0]
    rep.check(ok2, 'R05.8', 'SerializedPayload/len-vs-clamp', 'len_serialized() = the clamp of bytes_slice(): header + value length',
              'SerializedPayload::len_serialized() and the upper clamp of SerializedPayload::bytes_slice() are different expressions', ls.where())


def rule_05_10(rep, fx):
    """A buffer that is still receiving fragments is not thrown away: staleness is measured from the last fragment, which every recorded fragment refreshes."""
    rep.rule('R05.10', 'stale-buffer clean-up: garbage_collect_before keeps a buffer iff its modified_time >= the expiry bound (not the creation time), and insert_frags sets '
                       'modified_time := now on every path that records a fragment')
    gc = fx.find(FA + 'FragmentAssembler::garbage_collect_before')
    cl = fx.closures_of(gc, transitive=False)
    rep.analysed(gc, *cl)
    okg = False
    why = 'no retain closure'
    for c in cl:
        ogc = Origins(c)
        rets = c.return_blocks()
        rv = ogc.of_local(0, rets[0], 'term') if rets else ('unknown',)
        cmp_ = []
        term_has(rv, lambda x: x[0] == 'call' and x[1].rsplit('::', 1)[-1] in ('ge', 'gt', 'le', 'lt') and cmp_.append(x))
        if cmp_:
            x = cmp_[0]
            op = x[1].rsplit('::', 1)[-1]
            a, b_ = x[2]
            mod_a, mod_b = has_field(a, 'modified_time'), has_field(b_, 'modified_time')
            crt = has_field(a, 'created_time') or has_field(b_, 'created_time')
            okg = not crt and ((op == 'ge' and mod_a and not mod_b) or (op == 'le' and mod_b and not mod_a))
            why = term_str(rv)[:80]
    rep.check(okg, 'R05.10', 'garbage_collect_before/by-last-update', 'retain iff modified_time >= expire_before',
              'garbage_collect_before does not keep exactly the buffers updated at or after the expiry bound (%s): a sample whose fragments keep arriving is dropped half way and never completes' % why, gc.where())
    ins = fx.find(FA + 'AssemblyBuffer::insert_frags')
    P = Pos(ins)
    stores = [(bb, si) for bb, si, st in ins.statements() if st['s'] == 'assign' and (st['lhs'].get('p') or []) and isinstance(st['lhs']['p'][-1], dict) and st['lhs']['p'][-1].get('n') == 'modified_time']
    copies = [(bb, 'term') for bb, t in ins.calls() if callee_res(t).endswith('copy_from_slice')]
    oki = bool(stores) and bool(copies)
    for c in copies:
        for r in ins.return_blocks():
            if P.can_reach(c, (r, 'term'), avoid_pos=stores):
                oki = False
    rep.check(oki, 'R05.10', 'insert_frags/refreshes-modified-time', 'modified_time := now after every recorded fragment',
              'insert_frags can record a fragment without refreshing modified_time: a buffer in use looks stale to the clean-up', ins.where())


def rule_frag_amount(rep, fx, rid):
    """Bytes copied and fragments marked must describe the same part of the sample (shared: C05 R05.11, C01 R01.10)."""
    from rdv.poly import poly, freeze, atom
    rep.rule(rid, 'amount copied = amount marked: insert_frags copies min(fragments_in_submessage * frag_size, payload length) bytes (clamped to the buffer) and marks exactly '
                  'fragments_in_submessage bits, the same count on both sides; a DATAFRAG carrying several fragments contributes all their bytes')
    ins = fx.find(FA + 'AssemblyBuffer::insert_frags')
    rep.analysed(ins)
    og = Origins(ins, summaries=False)
    copies = [(bb, t) for bb, t in ins.calls() if callee_res(t).endswith('copy_from_slice')]
    ok = len(copies) == 1
    why = ''
    if ok:
        bb, t = copies[0]
        dst = og.of_operand(t['args'][0], bb, 'term')
        # the end of the destination range
        ends = []
        term_has(dst, lambda x: x[0] == 'agg' and str(x[1]).endswith('ops::Range') and len(x[2]) == 2 and ends.append(x[2][1]))
        ok = bool(ends)
        if ok:
            e = ends[0]
            prods = []
            term_has(e, lambda x: x[0] == 'bin' and x[1].startswith('Mul') and prods.append(x))
            good = [p_ for p_ in prods if any(term_has(a, lambda y: y[0] == 'field' and y[1] == 'fragments_in_submessage') for a in (p_[2], p_[3])) and
                    any(term_has(a, lambda y: y == ('param', 3)) for a in (p_[2], p_[3]))]
            mins = []
            term_has(e, lambda x: x[0] == 'call' and x[1].endswith('cmp::min') and mins.append(x))
            with_len = any(any(term_has(a, lambda y: y[0] == 'call' and y[1].endswith('::len') and term_has(y, lambda z: z[0] == 'field' and z[1] == 'serialized_payload')) for a in m[2]) and
                           any(term_has(a, lambda y: y in good) for a in m[2]) for m in mins)
            ok = bool(good) and with_len
            why = term_str(e)[:140]
    rep.check(ok, rid, 'insert_frags/amount', 'copies min(fragments_in_submessage * frag_size, payload len) bytes',
              'insert_frags does not copy fragments_in_submessage * frag_size bytes (payload length permitting) while it marks fragments_in_submessage fragments as received (%s): a DATAFRAG '
              'with several fragments completes the sample with part of its bytes never written' % why, ins.where())


def rule_copy_window(rep, fx, rid):
    """How many bytes insert_frags copies. Shared by C05 (R05.12: too few bytes leave a zero-filled hole in a sample that is then delivered as complete) and
    C06 (R06.5: too many bytes run past the assembly buffer or the payload and panic on the receive thread)."""
    from rdv.poly import poly, freeze, minset, padd, atom
    rep.rule(rid, 'copy window of insert_frags: the number of bytes copied, as a minimum of polynomials, is exactly min{ fragments_in_submessage * frag_size, len(payload), '
                  'len(buffer) - (fragment_starting_num-1)*frag_size } (whatever the shape of the expression): as much as the DATAFRAG announces and carries, never past the '
                  'end of the sample buffer; the destination range and the source slice have that same length')
    ins = fx.find(FA + 'AssemblyBuffer::insert_frags')
    rep.analysed(ins)
    og = Origins(ins, summaries=False)
    copies = [(cbb, t) for cbb, t in ins.calls() if callee_res(t).endswith('copy_from_slice')]
    if len(copies) != 1:
        raise CheckBroken('insert_frags: expected one copy_from_slice, found %d' % len(copies))
    cbb, t = copies[0]
    dst, src = og.of_operand(t['args'][0], cbb, 'term'), og.of_operand(t['args'][1], cbb, 'term')
    ok = dst[0] == 'call' and dst[1].endswith('index_mut') and dst[2][1][0] == 'agg' and str(dst[2][1][1]).endswith('ops::Range') and \
        src[0] == 'call' and src[1].endswith('::index') and src[2][1][0] == 'agg' and str(src[2][1][1]).endswith('ops::RangeTo')
    why = 'the copy is not buffer[a..b] <- payload[..c]'
    if ok:
        r_from, r_to, s_len = dst[2][1][2][0], dst[2][1][2][1], src[2][1][2][0]
        pf = poly(r_from)
        L = frozenset(freeze(padd(dict(x), pf, -1)) for x in minset(r_to))
        Ls = minset(s_len)
        # atoms
        fs = [a_ for m in pf for a_ in m if a_[0] == 'param']
        n_at = None
        for bb, si, st in ins.statements():
            pass
        nterm = [x for x in _subterms(r_to) if x[0] == 'field' and x[1] == 'fragments_in_submessage']
        plen = [x for x in _subterms(r_to) if x[0] == 'call' and x[1].endswith('::len') and term_has(x, lambda z: z[0] == 'field' and z[1] == 'serialized_payload')]
        blen = [x for x in _subterms(r_to) if x[0] == 'call' and x[1].endswith('::len') and term_has(x, lambda z: z[0] == 'field' and z[1] == 'buffer_bytes')]
        if not (fs and nterm and plen and blen):
            ok = False
            why = 'the end of the destination range does not mention fragments_in_submessage, len(payload) and len(buffer) (%s)' % term_str(r_to)[:120]
        else:
            a_n, a_fs, a_pl, a_bl = atom(nterm[0]), fs[0], atom(plen[0]), atom(blen[0])
            want = frozenset([freeze({tuple(sorted((a_n, a_fs), key=repr)): 1}), freeze({(a_pl,): 1}), freeze(padd({(a_bl,): 1}, pf, -1))])
            ok = (L == want) and (Ls == want)
            why = 'copied length = min%s, source slice length = min%s; expected min{n*fs, len(payload), len(buffer) - from}' % (_show(L), _show(Ls))
    rep.check(ok, rid, 'insert_frags/copy-window', 'length = min{n*fs, len(payload), len(buffer) - from} on both sides of the copy',
              'insert_frags copies a number of bytes that is not min{fragments_in_submessage*frag_size, len(payload), len(buffer) - start offset}: %s. Too few bytes leave a hole in a '
              'sample that is still marked complete; too many run past the buffer (or the payload) and panic on the receive thread' % why, ins.where(cbb))


def _subterms(t):
    out = []

    def walk(x):
        if isinstance(x, tuple):
            if x and isinstance(x[0], str):
                out.append(x)
            for y in x:
                walk(y)
    walk(t)
    return out


def _show(S):
    def one(p):
        return ' + '.join('%s%s' % ('' if c == 1 else '%d*' % c, '*'.join(_an(a) for a in m) or '1') for m, c in p) or '0'
    return '{' + ', '.join(sorted(one(p) for p in S)) + '}'


def _an(a):
    s_ = str(a)
    for k in ('fragments_in_submessage', 'serialized_payload', 'buffer_bytes', 'fragment_starting_num'):
        if k in s_:
            return ('len(%s)' % k) if '::len' in s_ else k
    return 'frag_size' if a[0] == 'param' else s_[:30]


def rule_bytes_slice(rep, fx, rid):
    """The writer cuts fragments out of header ++ value with SerializedPayload::bytes_slice. R05.5 decides the offsets handed in; this rule decides that what comes back is
    that window of header ++ value (the first fragment is the one that needs the copy path)."""
    from rdv.poly import poly, minset, freeze, padd, atom
    rep.rule(rid, 'bytes_slice(from, to) = (header ++ value)[from\' .. to\'] with to\' = min(to, len(value) + H) and from\' = min(from, to\'): without the header '
                  '(from\' >= H) it is value.slice(from\' - H .. to\' - H); otherwise a buffer is filled, in this order and on every path, with representation_identifier.bytes, '
                  'representation_options and - exactly when to\' > H - value.slice(.. to\' - H), and the result is its slice(from\' .. to\')')
    b = fx.find('messages::submessages::elements::serialized_payload::SerializedPayload::bytes_slice')
    rep.analysed(b)
    og = Origins(b, summaries=False)
    P = Pos(b)
    edges = list(switch_edges(b, fx, og))
    H = 'H_LEN'

    def is_h(x):
        return x[0] == 'const' and str(x[-1]).endswith(H)

    def rng(term):
        """(kind, start, end) of a Range / RangeTo aggregate"""
        if term[0] == 'agg' and str(term[1]).endswith('ops::Range'):
            return ('range', term[2][0], term[2][1])
        if term[0] == 'agg' and str(term[1]).endswith('ops::RangeTo'):
            return ('to', None, term[2][0])
        return None
    bad = []
    slices = [(bb, t) for bb, t in b.calls() if callee_res(t).endswith('Bytes::slice')]
    exts = [(bb, t) for bb, t in b.calls() if callee_res(t).endswith('extend_from_slice')]
    # the two clamped bounds
    to_c = from_c = None
    for bb, t in b.calls():
        if callee_res(t).endswith('cmp::min'):
            a0, a1 = og.of_operand(t['args'][0], bb, 'term'), og.of_operand(t['args'][1], bb, 'term')
            if a0 == ('param', 3) and term_has(a1, lambda x: x[0] == 'call' and x[1].endswith('::len')) and term_has(a1, is_h) and not term_has(a1, lambda x: x[0] == 'param' and x[1] != 1):
                to_c = ('call', strip_generics(callee_res(t)), (a0, a1), bb)
            if a0 == ('param', 2) and term_has(a1, lambda x: x == ('param', 3)):
                from_c = (bb, a1)
    if to_c is None or from_c is None:
        bad.append('the clamps to\' = min(to, len(value) + H), from\' = min(from, to\') are not both there')
    # direct path
    direct = [(bb, t) for bb, t in slices if og.of_operand(t['args'][0], bb, 'term') == ('field', 'value', ('param', 1)) and (rng(og.of_operand(t['args'][1], bb, 'term')) or ('', 0, 0))[0] == 'range']
    copyv = [(bb, t) for bb, t in slices if og.of_operand(t['args'][0], bb, 'term') == ('field', 'value', ('param', 1)) and (rng(og.of_operand(t['args'][1], bb, 'term')) or ('', 0, 0))[0] == 'to']
    final = [(bb, t) for bb, t in slices if term_has(og.of_operand(t['args'][0], bb, 'term'), lambda x: x[0] == 'call' and x[1].endswith('freeze'))]
    if len(direct) != 1 or len(copyv) != 1 or len(final) != 1:
        bad.append('shape: %d direct slice(s) of value, %d prefix slice(s) of value, %d slice(s) of the filled buffer' % (len(direct), len(copyv), len(final)))
    else:
        def msub(term):
            return frozenset(minset(term))
        hp = None
        for x in _subterms(og.of_operand(direct[0][1]['args'][1], direct[0][0], 'term')):
            if is_h(x):
                hp = {(atom(x),): 1}
        _, ds, de = rng(og.of_operand(direct[0][1]['args'][1], direct[0][0], 'term'))
        _, _, ce = rng(og.of_operand(copyv[0][1]['args'][1], copyv[0][0], 'term'))
        _, fs_, fe = rng(og.of_operand(final[0][1]['args'][1], final[0][0], 'term'))
        if hp is None:
            bad.append('H_LEN does not occur in the direct slice')
        else:
            plus_h = lambda S: frozenset(freeze(padd(dict(x), hp, 1)) for x in S)
            if plus_h(msub(ds)) != msub(fs_) or plus_h(msub(de)) != msub(fe):
                bad.append('direct slice is not [from\' - H .. to\' - H] of the bounds the copy path uses')
            if plus_h(msub(ce)) != msub(fe):
                bad.append('the value prefix copied is not value[.. to\' - H]')
            # from' and to' themselves
            want_to = None
            lenv = [x for x in _subterms(fe) if x[0] == 'call' and x[1].endswith('::len') and term_has(x, lambda z: z == ('field', 'value', ('param', 1)))]
            if not lenv:
                bad.append('to\' does not depend on len(value)')
            else:
                want_to = frozenset([freeze({(atom(('param', 3)),): 1}), freeze(padd({(atom(lenv[0]),): 1}, hp, 1))])
                if msub(fe) != want_to:
                    bad.append('to\' is not min(to, len(value) + H)')
                if msub(fs_) != want_to | frozenset([freeze({(atom(('param', 2)),): 1})]):
                    bad.append('from\' is not min(from, to\')')
        # which path: the direct form needs from' >= H (from' > H is fine too: the copy form is right for every window)
        def _fromtest(cond):
            return cond[0] == 'bin' and cond[1] in ('Ge', 'Gt', 'Lt', 'Le') and is_h(cond[3]) and frozenset(minset(cond[2])) == frozenset(minset(fs_))
        ge = [(s_, t_, lab) for s_, t_, cond, lab in edges if _fromtest(cond)]
        if not ge:
            bad.append('no test from\' >= H decides between the two forms')
        else:
            dsel = [(s_, t_) for s_, t_, cond, lab in edges if _fromtest(cond) and lab is (cond[1] in ('Ge', 'Gt'))]
            csel = [(s_, t_) for s_, t_, cond, lab in edges if _fromtest(cond) and lab is not (cond[1] in ('Ge', 'Gt'))]
            if not dsel or not P.every_path_passes(None, (direct[0][0], 'term'), via_edges=dsel, from_entry=True):
                bad.append('value is sliced directly although the window starts inside the header')
            # copy path: ext(rep id) -> ext(options) -> [to' > H: ext(value prefix)] -> freeze -> slice
            ids = [bb for bb, t in exts if og.of_operand(t['args'][1], bb, 'term') == ('field', 'bytes', ('field', 'representation_identifier', ('param', 1)))]
            ops = [bb for bb, t in exts if og.of_operand(t['args'][1], bb, 'term') == ('field', 'representation_options', ('param', 1))]
            vals = [bb for bb, t in exts if term_has(og.of_operand(t['args'][1], bb, 'term'), lambda x: x[0] == 'call' and x[1].endswith('Bytes::slice') and len(x) > 3 and x[3] == copyv[0][0])]
            fin = (final[0][0], 'term')
            if len(ids) != 1 or len(ops) != 1 or len(vals) != 1 or len(exts) != 3:
                bad.append('the buffer is not filled by exactly representation_identifier.bytes, representation_options and the value prefix (%d extend calls)' % len(exts))
            else:
                for s_, t_ in csel:
                    if P.can_reach((t_, 0), (ops[0], 'term'), avoid_pos=[(ids[0], 'term')]) or P.can_reach((t_, 0), fin, avoid_pos=[(ids[0], 'term')]):
                        bad.append('the representation identifier can be left out')
                    if P.can_reach((t_, 0), fin, avoid_pos=[(ops[0], 'term')]) or P.can_reach((ops[0], 'term'), (ids[0], 'term')):
                        bad.append('the representation options can be left out or come first')
                if P.can_reach((vals[0], 'term'), (ops[0], 'term')) or P.can_reach((vals[0], 'term'), (ids[0], 'term')):
                    bad.append('value bytes are written before the header')
                # the value prefix may be skipped only where to' <= H is known
                skip_ok = [(s_, t_) for s_, t_, cond, lab in edges if cond[0] == 'bin' and is_h(cond[3]) and (cond[1], lab) in (('Gt', False), ('Le', True), ('Ge', False), ('Lt', True)) and
                           frozenset(minset(cond[2])) == frozenset(minset(fe))]
                for s_, t_ in csel:
                    if not P.every_path_passes((t_, 0), fin, via_pos=[(vals[0], 'term')], via_edges=skip_ok):
                        bad.append('with to\' > H the value prefix is not copied on every path')
    rep.check(not bad, rid, 'bytes_slice/window-of-header-and-value', 'both forms return (header ++ value)[from\' .. to\']',
              'SerializedPayload::bytes_slice does not return the requested window of header ++ value (%s): the fragments the writer cuts do not add up to the sample' % '; '.join(bad[:3]), b.where())


def rule_partially_received_contract(rep, fx, rid='R05.18'):
    """What "partially received" means is a contract between the assembler and the Reader (added after seeds C01g / C03g, which made it "a buffer exists and a fragment bit is set":
    a sample whose only DATAFRAG so far was refused then counts as complete-but-unusable and is skipped, i.e. acknowledged and never delivered)."""
    rep.rule(rid, 'partially received = a buffer exists: Reader::handle_datafrag_msg reads "no sample released and not partially received" as "every fragment arrived, the sample is '
                  'unusable" and skips it for good, so FragmentAssembler::is_partially_received(sn) has to answer with the presence of an assembly buffer for sn and nothing narrower '
                  '(contains_key / get(..).is_some() on assembly_buffers with its argument, no further conjunct), and Reader::is_frag_partially_received hands that answer through')
    b = fx.find('rtps::fragment_assembler::FragmentAssembler::is_partially_received')
    rep.analysed(b)
    og = Origins(b, summaries=False)
    ok = True
    for r in b.return_blocks():
        v = og.of_local(0, r, 'term')
        pres = v[0] == 'call' and v[1].rsplit('::', 1)[-1] == 'contains_key' and term_has(v[2][0], lambda x: x[0] == 'field' and x[1] == 'assembly_buffers') and \
            term_has(v[2][1], lambda x: x == ('param', 2))
        pres2 = v[0] == 'call' and v[1].rsplit('::', 1)[-1] == 'is_some' and v[2] and v[2][0][0] == 'call' and v[2][0][1].rsplit('::', 1)[-1] == 'get' and \
            term_has(v[2][0], lambda x: x[0] == 'field' and x[1] == 'assembly_buffers') and term_has(v[2][0], lambda x: x == ('param', 2))
        ok = ok and (pres or pres2)
    n_sw = sum(1 for bb in b.live_blocks() if b.blocks[bb]['term']['t'] == 'switch')
    rep.check(ok and n_sw == 0, rid, 'is_partially_received/buffer-present', 'answer = assembly_buffers has a buffer for sn',
              'FragmentAssembler::is_partially_received answers something narrower (or other) than "an assembly buffer exists for this sequence number": a sample whose buffer exists '
              'but does not satisfy the extra condition (e.g. its only DATAFRAG so far was refused) is taken by handle_datafrag_msg for complete-but-unusable and skipped: it is '
              'acknowledged, never requested again and never delivered', b.where())
    r = fx.find('rtps::reader::Reader::is_frag_partially_received')
    rep.analysed(r)
    ogr = Origins(r, summaries=False)
    bodies = [r] + list(fx.closures_of(r))
    calls = [(k, bb, t) for k in bodies for bb, t in k.calls() if call_matches(t, 'FragmentAssembler::is_partially_received')]
    okr = len(calls) == 1
    neg = ('not', 'is_none', 'is_none_or')
    for k in bodies:
        okk = Origins(k, summaries=False)
        for rb in k.return_blocks():
            v = okk.of_local(0, rb, 'term')
            okr = okr and not term_has(v, lambda x: x[0] == 'un' or (x[0] == 'call' and x[1].rsplit('::', 1)[-1] in neg))
    for rb in r.return_blocks():
        v = ogr.of_local(0, rb, 'term')
        okr = okr and term_has(v, lambda x: x[0] == 'field' and x[1] == 'fragment_assemblers') and term_has(v, lambda x: x == ('param', 2))
    rep.check(okr, rid, 'Reader::is_frag_partially_received/hands-through', 'asks the assembler of that writer about that sequence number, not negated',
              'Reader::is_frag_partially_received does not hand through what the assembler of the writer says about the sequence number it was asked for', r.where())
