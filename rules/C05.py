"""C05  Fragmented samples reassemble to exactly the original bytes, once.

Byte-exactness for every (size, fragment size, order) is arithmetic over run-time values and
is NOT decided. Decided: the release gate, buffer identity and the bitmap discipline.
(Index / length hazards of insert_frags are C06 obligations.)
"""
from rdv.core import (CheckBroken, Origins, Pos, call_matches, callee_res, natural_loops, norm_path, primary_edges,
                      resolve_captures, strip_generics, switch_edges, term_has, term_leaves, term_str)

CONFIGS = ['default']
LEVEL = 'other'

FA = 'rtps::fragment_assembler::'


def has_field(t, name):
    return term_has(t, lambda x: x[0] == 'field' and x[1] == name)


def has_call(t, suffix):
    return term_has(t, lambda x: x[0] == 'call' and x[1].endswith(suffix))


def run(rep, facts, tier):
    fx = facts['default']
    rep.explanation = ('A sample is released only on is_complete() of its own assembly buffer, which is the all() of the per-fragment bitmap; every fragment of a DATAFRAG '
                       'sets its own bit (idempotent for duplicates); the buffer is removed on release; buffers are keyed by (writer guid, sequence number) of the submessage; '
                       'the released payload is the removed buffer\'s bytes.')
    rep.assume('the byte placement arithmetic of insert_frags is not decided (value property)', 'writers use one constant fragment size per sample')
    rep.rule('R05.1', 'release gate: new_datafrag returns Some only under is_complete() == true and after assembly_buffers.remove(sn); is_complete() = received_bitmap.all(); '
                      'completion is not decided by counting arrivals')
    rep.rule('R05.2', 'buffer identity: the assembler is selected by entry(writer guid of the submessage), the buffer by entry(datafrag.writer_sn); insert_frags runs on that buffer')
    rep.rule('R05.3', 'the released payload is parsed from the bytes of the buffer removed for that sequence number')
    rep.rule('R05.4', 'bitmap discipline: insert_frags sets bit (fragment_starting_num - 1 + f) for every f in 0..fragments_in_submessage, and the bitmap is sized by the total number of fragments')

    nd = fx.find(FA + 'FragmentAssembler::new_datafrag')
    rep.analysed(nd)
    og = Origins(nd, summaries=False)
    P = Pos(nd)
    edges = list(switch_edges(nd, fx, og))
    comp = [(s_, t_) for s_, t_, cond, lab in edges if cond[0] == 'call' and cond[1].endswith('AssemblyBuffer::is_complete') and lab is True]
    rem = [(s_, t_) for s_, t_, cond, lab in primary_edges(nd, edges) if lab == 'Some' and cond[0] == 'discr' and cond[1][0] == 'call' and cond[1][1].endswith('::remove') and has_field(cond[1], 'assembly_buffers')]
    n_some = 0
    for bb, si, st in nd.statements():
        if st['s'] == 'assign' and st['lhs']['l'] == 0 and st['rv']['r'] == 'agg' and st['rv'].get('variant') == 'Some':
            n_some += 1
            ok1 = bool(comp) and P.every_path_passes(None, (bb, si), via_edges=comp, from_entry=True)
            ok2 = bool(rem) and P.every_path_passes(None, (bb, si), via_edges=rem, from_entry=True)
            rep.check(ok1, 'R05.1', 'new_datafrag/some#%d/complete' % n_some, 'Some only if is_complete()', 'a sample can be released from an assembly buffer that is not complete', nd.where(bb, si))
            rep.check(ok2, 'R05.1', 'new_datafrag/some#%d/removed' % n_some, 'Some only after the buffer was removed', 'a completed sample is released without removing its assembly buffer: it would be delivered again', nd.where(bb, si))
            v = og.of_operand(st['rv']['ops'][0], bb, si)
            ok3 = has_call(v, 'SerializedPayload::from_bytes') and term_has(v, lambda x: x[0] == 'call' and x[1].endswith('::remove') and has_field(x, 'assembly_buffers')) and has_field(v, 'buffer_bytes')
            rep.check(ok3, 'R05.3', 'new_datafrag/some#%d/payload' % n_some, 'payload = from_bytes(removed buffer.buffer_bytes)',
                      'the released sample is not built from the bytes of the removed assembly buffer (%s)' % term_str(v)[:120], nd.where(bb, si))
    rep.floor('R05.1', n_some, 1, 'Some results of new_datafrag')
    # the is_complete() tested is the one of the buffer selected by this datafrag's sn
    for s_, t_, cond, lab in edges:
        if cond[0] == 'call' and cond[1].endswith('AssemblyBuffer::is_complete') and lab is True:
            buf = cond[2][0]
            okb = has_call(buf, '::or_insert_with') and has_call(buf, '::entry') and has_field(buf, 'writer_sn') and has_field(buf, 'assembly_buffers')
            rep.check(okb, 'R05.2', 'new_datafrag/buffer-of-sn', 'buffer = assembly_buffers.entry(datafrag.writer_sn).or_insert_with(new)',
                      'the completeness test is not made on the buffer selected by the DATAFRAG\'s own sequence number', nd.where(s_))
    ins = [(bb, t) for bb, t in nd.calls() if call_matches(t, 'AssemblyBuffer::insert_frags')]
    okI = bool(ins)
    for bb, t in ins:
        buf = og.of_operand(t['args'][0], bb, 'term')
        okI = okI and has_call(buf, '::entry') and has_field(buf, 'writer_sn') and og.of_operand(t['args'][1], bb, 'term') == ('param', 2)
        # insertion precedes the completeness test
        okI = okI and all(P.every_path_passes(None, (s_, 'term'), via_pos=[(bb, 'term')], from_entry=True) for s_, _t in comp)
    rep.check(okI, 'R05.2', 'new_datafrag/insert-then-test', 'insert_frags(this datafrag) on that buffer, before the completeness test',
              'the fragments are not inserted into the buffer of their sequence number before completeness is tested', nd.where())
    rmk = [og.of_operand(t['args'][1], bb, 'term') for bb, t in nd.calls() if callee_res(t).endswith('::remove') and has_field(og.of_operand(t['args'][0], bb, 'term'), 'assembly_buffers')]
    rep.check(bool(rmk) and all(has_field(k, 'writer_sn') for k in rmk), 'R05.1', 'new_datafrag/remove-key', 'removes the buffer of datafrag.writer_sn',
              'the buffer removed on completion is not the one of the DATAFRAG\'s sequence number', nd.where())
    ic = fx.find(FA + 'AssemblyBuffer::is_complete')
    rep.analysed(ic)
    ogi = Origins(ic, summaries=False)
    t0 = ogi.of_local(0, ic.return_blocks()[0], 'term')
    okc = t0[0] == 'call' and t0[1].endswith('BitVec::<B>::all') or (t0[0] == 'call' and t0[1].endswith('::all') and 'BitVec' in t0[1])
    okc = okc and has_field(t0, 'received_bitmap')
    rep.check(okc, 'R05.1', 'is_complete/bitmap-all', 'is_complete() = received_bitmap.all()',
              'completeness is %s, not "every fragment bit is set": duplicates or out-of-range counts could complete a sample with a hole' % term_str(t0)[:80], ic.where())
    # ---- R05.4
    inf = fx.find(FA + 'AssemblyBuffer::insert_frags')
    rep.analysed(inf)
    ogf = Origins(inf, summaries=False)
    sets = [(bb, t) for bb, t in inf.calls() if callee_res(t).endswith('::set') and has_field(ogf.of_operand(t['args'][0], bb, 'term'), 'received_bitmap')]
    oks = bool(sets)
    for bb, t in sets:
        idx = ogf.of_operand(t['args'][1], bb, 'term')
        val = ogf.of_operand(t['args'][2], bb, 'term')
        oks = oks and val == ('const', 'int', 1) and has_field(idx, 'fragment_starting_num') and term_has(idx, lambda x: x[0] == 'call' and x[1].endswith('::next')) and \
            term_has(idx, lambda x: (x[0] == 'bin' and x[1].startswith('Sub')))
        # the loop runs over 0..fragments_in_submessage
        oks = oks and has_field(idx, 'fragments_in_submessage')
        oks = oks and any(bb in blocks for _h, blocks, _s in natural_loops(inf))
    rep.check(oks, 'R05.4', 'insert_frags/bits', 'sets bit (starting_num - 1 + f) for f in 0..fragments_in_submessage',
              'insert_frags does not mark exactly the fragments carried by the DATAFRAG as received', inf.where())
    nb = fx.find(FA + 'AssemblyBuffer::new')
    rep.analysed(nb)
    ogn = Origins(nb, summaries=False)
    okn = False
    for bb, si, st in nb.statements():
        if st['s'] == 'assign' and st['rv']['r'] == 'agg' and strip_generics(st['rv'].get('adt', '')).endswith('AssemblyBuffer'):
            f = st['rv']['fields']
            bm = ogn.of_operand(st['rv']['ops'][f.index('received_bitmap')], bb, si)
            fc = ogn.of_operand(st['rv']['ops'][f.index('fragment_count')], bb, si)
            okn = bm[0] == 'call' and bm[1].endswith('from_elem') and bm[2][1] == ('const', 'int', 0) and has_call(bm, 'total_number_of_fragments') and has_call(fc, 'total_number_of_fragments')
    rep.check(okn, 'R05.4', 'AssemblyBuffer::new/bitmap-size', 'bitmap = total_number_of_fragments() bits, all false',
              'the received-fragment bitmap is not created with one cleared bit per fragment of the sample', nb.where())
    # ---- R05.2 reader side
    hd = fx.find('rtps::reader::Reader::handle_datafrag_msg')
    rep.analysed(hd)
    ogh = Origins(hd, summaries=True)
    fam = [(bb, t) for bb, t in hd.calls() if call_matches(t, 'Reader::fragment_assembler_mutable')]
    okr = bool(fam)
    for bb, t in fam:
        g = ogh.of_operand(t['args'][1], bb, 'term')
        okr = okr and has_field(g, 'source_guid_prefix') and has_field(g, 'writer_id')
    ndc = [(bb, t) for bb, t in hd.calls() if call_matches(t, 'FragmentAssembler::new_datafrag')]
    for bb, t in ndc:
        okr = okr and has_call(ogh.of_operand(t['args'][0], bb, 'term'), 'fragment_assembler_mutable') and ogh.of_operand(t['args'][1], bb, 'term') == ('param', 2)
    rep.check(okr and bool(ndc), 'R05.2', 'handle_datafrag_msg/assembler-of-writer', 'assembler = entry(GUID(source prefix, datafrag.writer_id)); new_datafrag(this datafrag)',
              'fragments are not routed to the assembler of the writer that sent them', hd.where())
    fm = fx.find('rtps::reader::Reader::fragment_assembler_mutable')
    ogm = Origins(fm, summaries=False)
    t0 = ogm.of_local(0, fm.return_blocks()[0], 'term')
    rep.check(has_call(t0, '::entry') and has_field(t0, 'fragment_assemblers') and term_has(t0, lambda x: x == ('param', 2)), 'R05.2', 'fragment_assembler_mutable/keyed-by-writer',
              'fragment_assemblers.entry(writer_guid)', 'assemblers are not keyed by the writer guid', fm.where())
