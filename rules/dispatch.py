"""Which local Readers a writer submessage (DATA, DATAFRAG, HEARTBEAT, GAP) is handed to (shared by C02 / C01 / C17): RustDDS itself multicasts with reader id UNKNOWN, so
the selection decides whether anything is delivered at all."""
import itertools

from rdv import boolform
from rdv.core import CheckBroken, Origins, Pos, call_matches, callee_res, natural_loops, switch_edges, term_has, term_str

MR = 'rtps::message_receiver::MessageReceiver::'
PAIRS = {'spdp': ('SPDP_BUILTIN_PARTICIPANT_WRITER', 'SPDP_BUILTIN_PARTICIPANT_READER'),
         'stateless': ('P2P_BUILTIN_PARTICIPANT_STATELESS_WRITER', 'P2P_BUILTIN_PARTICIPANT_STATELESS_READER')}


def _namer(t, og, bb):
    cr = callee_res(t)
    last = cr.rsplit('::', 1)[-1]
    if call_matches(t, 'Reader::contains_writer'):
        return 'contains'
    if last == 'confirm_local_endpoint_guid':
        return 'confirm'
    if last in ('eq', 'ne') and len(t['args']) == 2:
        txt = ' '.join(term_str(og.of_operand(x, bb, 'term')) for x in t['args'])
        for k, (w, r) in PAIRS.items():
            if txt.endswith(w) or (w + ' ') in txt or txt.rstrip(')').endswith(w):
                return '%s:%s_w' % (last, k)
            if txt.endswith(r) or (r + ' ') in txt or txt.rstrip(')').endswith(r):
                return '%s:%s_r' % (last, k)
    return None


def run_rule(rep, fx, rid, cfg='default', floor=1):
    pre = '' if cfg == 'default' else cfg + ':'
    if cfg == 'default':
        rep.rule(rid, 'writer submessages reach their readers: a submessage with reader id UNKNOWN is handed (a clone each) to every available Reader selected by '
                      'contains_writer(sender) OR (SPDP writer AND SPDP reader) OR (stateless P2P writer AND stateless P2P reader) - decision table of the selecting closure over '
                      'its five tests, all assignments; in the secured path additionally AND confirm_local_endpoint_guid - and a submessage naming a reader is handed to exactly '
                      'that reader id; every id the selection produced is handed on before the next is fetched')
    n = 0
    for b in fx.bodies:
        if b.kind != 'closure' or not b.key.startswith(MR) or not any(call_matches(t, 'Reader::contains_writer') for _, t in b.calls()):
            continue
        n += 1
        T = boolform.table(b, fx, _namer, None)
        names = {a.split(':')[-1] for a in T.atoms}
        need = {'contains', 'spdp_w', 'spdp_r', 'stateless_w', 'stateless_r'}
        bad = []
        if not need <= names:
            bad.append('tests found: %s' % sorted(names))
        else:
            for vals in itertools.product((False, True), repeat=len(T.atoms)):
                assign = dict(zip(T.atoms, vals))
                tr = {}
                for k, v in assign.items():
                    nm = k.split(':')[-1]
                    tr[nm] = (not v) if k.startswith('ne:') else v
                want = tr['contains'] or (tr['spdp_w'] and tr['spdp_r']) or (tr['stateless_w'] and tr['stateless_r'])
                if 'confirm' in tr:
                    want = want and tr['confirm']
                got = T.eval(assign)
                if got != want:
                    bad.append('%s -> %s' % (', '.join('%s=%s' % (k, 'T' if v else 'F') for k, v in sorted(tr.items())), got))
        fn = b.key[len(MR):]
        rep.check(not bad, rid, '%s%s/selection' % (pre, fn), 'selected <=> contains_writer OR SPDP pair OR stateless pair%s' % (' (AND confirmed handle)' if 'confirm' in names else ''),
                  'the Reader selection for a writer submessage with reader id UNKNOWN in %s is not `contains_writer(sender) || (SPDP writer && SPDP reader) || (stateless writer && '
                  'stateless reader)` (%s): matched readers are passed over (nothing RustDDS multicasts is delivered) or unrelated readers are fed' % (fn, '; '.join(bad[:3])), b.where())
    rep.floor(rid, n, floor, 'reader-selecting closures in MessageReceiver (%s features)' % cfg)
    # the atom the selection rests on: Reader::contains_writer(e) = stateful AND some matched writer has entity id e
    cw = fx.find('rtps::reader::Reader::contains_writer')
    rep.analysed(cw)
    ogc = Origins(cw, summaries=False)
    Pc = Pos(cw)
    bad = []
    anys = [(bb, t) for bb, t in cw.calls() if callee_res(t).endswith('::any') and term_has(ogc.of_operand(t['args'][0], bb, 'term'), lambda x: x[0] == 'field' and x[1] == 'matched_writers')]
    if len(anys) != 1:
        bad.append('no any(..) over matched_writers')
    else:
        ab, at = anys[0]
        cls = [c for c in fx.closures_of(cw) if c.key in str(ogc.of_operand(at['args'][1], ab, 'term'))]
        from rdv.core import resolve_captures
        okc = False
        for c in cls:
            oc = Origins(c, summaries=False)
            r0 = resolve_captures(fx, c, oc.of_local(0, c.return_blocks()[0], 'term'), summaries=False)
            okc = r0[0] == 'call' and r0[1].endswith('::eq') and any(term_has(a, lambda x: x[0] == 'field' and x[1] == 'entity_id') and term_has(a, lambda x: x[0] == 'param' and x[1] == 2) for a in r0[2]) and \
                any(term_has(a, lambda x: x[0] == 'captured' and term_has(x, lambda y: y == ('param', 2))) or a == ('param', 2) for a in r0[2])
        if not okc:
            bad.append('the predicate of any(..) is not `writer guid.entity_id == the entity id asked for`')
        # result: the any on the stateful path, false on the stateless one
        for s_, t_, cond, lab in switch_edges(cw, fx, ogc):
            stateless = (cond == ('field', 'like_stateless', ('param', 1)) and lab is True) or (cond[0] == 'un' and cond[1] == 'Not' and cond[2] == ('field', 'like_stateless', ('param', 1)) and lab is False)
            stateful = (cond == ('field', 'like_stateless', ('param', 1)) and lab is False) or (cond[0] == 'un' and cond[1] == 'Not' and cond[2] == ('field', 'like_stateless', ('param', 1)) and lab is True)
            if stateless and Pc.can_reach((t_, 0), (ab, 'term')):
                bad.append('a stateless-like Reader consults its (empty) writer list')
            if stateless:
                consts = [st for bb in cw.live_blocks() if Pc.can_reach((t_, 0), (bb, 0)) or bb == t_ for st in cw.blocks[bb]['st']
                          if st['s'] == 'assign' and st['lhs']['l'] == 0 and st['rv']['r'] == 'use' and st['rv']['x'].get('o') == 'const']
                if any(str(st['rv']['x']['k'].get('v')) not in ('0', 'false', 'False') for st in consts):
                    bad.append('a stateless-like Reader claims to contain the writer')
            if stateful and not Pc.every_path_passes((t_, 0), (cw.return_blocks()[0], 'term'), via_pos=[(ab, 'term')]):
                bad.append('a stateful Reader can answer without looking at its writers')
        r0 = ogc.of_local(0, cw.return_blocks()[0], 'term')
        if not term_has(r0, lambda x: x[0] == 'call' and x[1].endswith('::any')):
            bad.append('the answer is not the any(..)')
        if term_has(r0, lambda x: x[0] == 'un' and x[1] == 'Not'):
            bad.append('the answer is negated')
    rep.check(not bad, rid, '%scontains_writer' % pre, 'stateful AND any(matched_writers, guid.entity_id == e)',
              'Reader::contains_writer is not "some matched writer has this entity id" (%s): the selection of Readers for a submessage with reader id UNKNOWN rests on it' % '; '.join(bad[:2]), cw.where())
    # the dispatch around it (no security plugins: the only arm the default build has)
    h = fx.find(MR + 'handle_submessage')
    rep.analysed(h)
    og = Origins(h, summaries=False)
    P = Pos(h)
    edges = list(switch_edges(h, fx, og))

    def unknown_test(cond):
        return cond[0] == 'call' and cond[1].endswith(('::eq', '::ne')) and term_has(cond, lambda x: x[0] == 'const' and str(x[2]).endswith('EntityId::UNKNOWN')) and \
            term_has(cond, lambda x: x[0] == 'call' and x[1].endswith('receiver_entity_id')) and term_has(cond, lambda x: x[0] == 'variant' and x[1] == 'Writer')
    unk = [(s_, t_) for s_, t_, cond, lab in edges if unknown_test(cond) and lab is cond[1].endswith('::eq')]
    named = [(s_, t_) for s_, t_, cond, lab in edges if unknown_test(cond) and lab is not cond[1].endswith('::eq')]
    noplug = [(s_, t_) for s_, t_, cond, lab in edges if lab == 'None' and cond[0] == 'discr' and term_has(cond, lambda x: x[0] == 'field' and x[1] == 'security_plugins')]
    hand = []
    for bb, t in h.calls():
        if call_matches(t, 'MessageReceiver::handle_writer_submessage'):
            hand.append((bb, og.of_operand(t['args'][1], bb, 'term')))
    ok = len(unk) == 1 and len(named) == 1 and bool(hand)
    why = 'no test of the reader id against UNKNOWN'
    if ok:
        # named reader: every path without plugins hands it to receiver_entity_id
        direct = [(bb, 'term') for bb, a in hand if a[0] == 'call' and a[1].endswith('receiver_entity_id')]
        stops = [(r, 'term') for r in h.return_blocks()] + [(bb, 'term') for bb, t in h.calls() if callee_res(t).endswith('::next')]
        for s_, t_ in noplug:
            if P.can_reach((named[0][1], 0), (s_, 'term'), avoid_pos=[(unk[0][0], 'term')]) or not noplug:
                if not direct or any(P.can_reach((t_, 0), x, avoid_pos=direct) for x in stops if P.can_reach((named[0][1], 0), x)):
                    pass
        if not direct:
            ok = False
            why = 'a submessage naming its reader is not handed to that reader id'
        for s_, t_ in noplug:
            from_named = P.can_reach((named[0][1], 0), (s_, 'term'), avoid_edges=unk)
            from_unk = P.can_reach((unk[0][1], 0), (s_, 'term'), avoid_edges=named)
            if from_named and not from_unk:
                for r in h.return_blocks():
                    if P.can_reach((t_, 0), (r, 'term'), avoid_pos=direct + [(unk[0][0], 'term')]):
                        ok = False
                        why = 'without security plugins a submessage naming its reader can be dropped'
            if from_unk and not from_named:
                # the loop over the selected ids
                good = False
                for lp in natural_loops(h):
                    blocks = lp[1]
                    nxt = [(nb, nt) for nb, nt in h.calls() if nb in blocks and callee_res(nt).endswith('::next') and P.can_reach((t_, 0), (nb, 'term'), avoid_pos=[(unk[0][0], 'term')])]
                    if not nxt:
                        continue
                    nb = nxt[0][0]
                    it = og.of_operand(nxt[0][1]['args'][0], nb, 'term')
                    if not term_has(it, lambda x: x[0] == 'call' and x[1].endswith('::collect')) or not term_has(it, lambda x: x[0] == 'call' and x[1].endswith('::filter')):
                        continue
                    some = [(a, b_) for a, b_, cond, lab in edges if lab == 'Some' and a in blocks and cond[0] == 'discr' and cond[1][0] == 'call' and cond[1][1].endswith('::next') and len(cond[1]) > 3 and cond[1][3] == nb]
                    snd = [(bb, 'term') for bb, a in hand if bb in blocks and term_has(a, lambda x: x[0] == 'variant' and x[1] == 'Some')]
                    if some and snd and not any(P.can_reach((b_, 0), (nb, 'term'), avoid_pos=snd) for a, b_ in some) and \
                            not any(P.can_reach((t_, 0), (r, 'term'), avoid_pos=[(nb, 'term'), (unk[0][0], 'term')]) for r in h.return_blocks()):
                        good = True
                if not good:
                    ok = False
                    why = 'without security plugins the selected reader ids are not each handed the submessage'
    rep.check(ok, rid, '%shandle_submessage/dispatch' % pre, 'UNKNOWN => every selected reader id; named => that reader id (no-plugins arm)',
              'handle_submessage does not hand a writer submessage to the readers it is for (%s)' % why, h.where(unk[0][0]) if unk else h.where())


def run_secure_dispatch(rep, fx, rid):
    """The same two questions on the secured path (security build only): a decoded writer submessage that names its reader goes to that reader, one with reader id UNKNOWN to
    the reader the selecting closure found; a decoded interpreter submessage is interpreted."""
    from rdv.core import primary_edges
    rep.rule(rid, 'secured path dispatch: in handle_secure_submessage a decoded writer submessage naming its reader is handed to handle_writer_submessage(that reader id) behind '
                  'confirm_local_endpoint_guid of that GUID, one with reader id UNKNOWN to the entity id of the Reader the selecting closure found (never the other way round), a '
                  'decoded reader submessage to handle_reader_submessage, a decoded interpreter submessage to handle_interpreter_submessage, on every path of their arms')
    h = fx.find(MR + 'handle_secure_submessage')
    rep.analysed(h)
    og = Origins(h, summaries=False)
    P = Pos(h)
    edges = list(switch_edges(h, fx, og))

    def unknown_test(cond):
        return cond[0] == 'call' and cond[1].endswith(('::eq', '::ne')) and term_has(cond, lambda x: x[0] == 'const' and str(x[2]).endswith('EntityId::UNKNOWN')) and \
            term_has(cond, lambda x: x[0] == 'call' and x[1].endswith('receiver_entity_id'))
    unk = [(s_, t_) for s_, t_, cond, lab in edges if unknown_test(cond) and lab is cond[1].endswith('::eq')]
    named = [(s_, t_) for s_, t_, cond, lab in edges if unknown_test(cond) and lab is not cond[1].endswith('::eq')]
    hand = [(bb, og.of_operand(t['args'][1], bb, 'term')) for bb, t in h.calls() if call_matches(t, 'MessageReceiver::handle_writer_submessage')]
    bad = []
    if len(unk) != 1 or len(named) != 1 or len(hand) < 2:
        bad.append('no test of the decoded reader id against UNKNOWN with a hand-over on both sides')
    else:
        for bb, a in hand:
            from_named = P.can_reach((named[0][1], 0), (bb, 'term'), avoid_edges=unk)
            from_unk = P.can_reach((unk[0][1], 0), (bb, 'term'), avoid_edges=named)
            is_named_id = a[0] == 'call' and a[1].endswith('receiver_entity_id')
            is_found_id = term_has(a, lambda x: x[0] == 'call' and x[1].endswith('::find'))
            if from_named and not from_unk and not is_named_id:
                bad.append('a submessage naming its reader is handed to %s' % term_str(a)[:50])
            if from_unk and not from_named and not is_found_id:
                bad.append('a submessage with reader id UNKNOWN is handed to %s instead of the reader found' % term_str(a)[:50])
        # the named side is gated by the confirmation of that very GUID
        conf = [(s_, t_) for s_, t_, cond, lab in edges if lab is True and cond[0] == 'call' and cond[1].endswith('confirm_local_endpoint_guid') and
                term_has(cond, lambda x: x[0] == 'call' and x[1].endswith('receiver_entity_id'))]
        for bb, a in hand:
            if a[0] == 'call' and a[1].endswith('receiver_entity_id') and (not conf or not P.every_path_passes(None, (bb, 'term'), via_edges=conf, from_entry=True)):
                bad.append('the named reader gets the submessage without its GUID having been confirmed for the crypto handle')
    rep.check(not bad, rid, 'handle_secure_submessage/writer-dispatch', 'named => that reader id (confirmed); UNKNOWN => the reader found',
              'handle_secure_submessage does not hand a decoded writer submessage to the reader it is for (%s)' % '; '.join(bad[:2]), h.where(unk[0][0]) if unk else h.where())
    # Reader / Interpreter arms
    pe = primary_edges(h, edges)
    for kind, callee in (('Reader', 'MessageReceiver::handle_reader_submessage'), ('Interpreter', 'MessageReceiver::handle_interpreter_submessage')):
        arm = [(s_, t_) for s_, t_, cond, lab in pe if lab == kind and cond[0] == 'discr' and 'DecodedSubmessage' in str(cond[2] if len(cond) > 2 else '')]
        sites = [(bb, 'term') for bb, t in h.calls() if call_matches(t, callee) and term_has(og.of_operand(t['args'][1], bb, 'term'), lambda x: x[0] == 'variant' and x[1] == kind)]
        ok = len(arm) >= 1 and bool(sites)
        if ok and kind == 'Interpreter':
            ok = not any(P.can_reach((t_, 0), (r, 'term'), avoid_pos=sites) for s_, t_ in arm for r in h.return_blocks())
        if ok and kind == 'Reader':
            # behind the confirmation; the refusal side only logs
            conf_r = [(s_, t_) for s_, t_, cond, lab in edges if lab is True and cond[0] == 'call' and cond[1].endswith('confirm_local_endpoint_guid')]
            ok = any(P.can_reach((c_t, 0), sites[0]) for _, c_t in conf_r) and all(P.every_path_passes(None, s_, via_edges=conf_r, from_entry=True) for s_ in sites)
            for c_s, c_t in conf_r:
                if P.can_reach((arm[0][1], 0), (c_s, 'term')) and P.can_reach((c_t, 0), sites[0]):
                    if any(P.can_reach((c_t, 0), (r, 'term'), avoid_pos=sites) for r in h.return_blocks()):
                        ok = False
        rep.check(ok, rid, 'handle_secure_submessage/%s' % kind, 'decoded %s submessage => %s on every path of its arm%s' % (kind, callee.rsplit('::', 1)[-1], ' once the handle is confirmed' if kind == 'Reader' else ''),
                  'handle_secure_submessage does not hand a decoded %s submessage to %s: %s' % (kind, callee.rsplit('::', 1)[-1],
                                                                                              'INFO_TS / INFO_DST / INFO_SRC inside a protected message are ignored' if kind == 'Interpreter' else
                                                                                              'no protected ACKNACK reaches a Writer'), h.where())


def run_kinds(rep, fx, rid, cfg='default', prefix=None, declare=None):
    """Each kind of submessage reaches the handler of the entity it was dispatched to."""
    from rdv.core import primary_edges
    pre = prefix if prefix is not None else ('' if cfg == 'default' else cfg + ':')
    if declare if declare is not None else cfg == 'default':
        rep.rule(rid, 'every submessage kind reaches its handler: in handle_writer_submessage the Data / DataFrag / Heartbeat / Gap arms call decode_and_handle_data / '
                      'decode_and_handle_datafrag / Reader::handle_heartbeat_msg / Reader::handle_gap_msg with the content of that arm on the Reader found for the target id, on every '
                      'path; without the security feature decode_and_handle_data is handle_data_msg(reader, data, flags, state) and decode_and_handle_datafrag is '
                      'handle_datafrag_msg(reader, datafrag, flags, state) unless the payload is longer than fragments_in_submessage * fragment_size; a Reader-kind submessage '
                      '(ACKNACK, NACKFRAG) is handed to handle_reader_submessage on every path without security plugins')
    h = fx.find(MR + 'handle_writer_submessage')
    rep.analysed(h)
    og = Origins(h, summaries=False)
    P = Pos(h)
    edges = primary_edges(h, list(switch_edges(h, fx, og)))
    want = {'Data': 'MessageReceiver::decode_and_handle_data', 'DataFrag': 'MessageReceiver::decode_and_handle_datafrag', 'Heartbeat': 'Reader::handle_heartbeat_msg',
            'Gap': 'Reader::handle_gap_msg'}
    n = 0
    for kind, callee in want.items():
        arm = [(s_, t_) for s_, t_, cond, lab in edges if lab == kind and cond[0] == 'discr' and term_has(cond, lambda x: x[0] == 'param')]
        sites = []
        for bb, t in h.calls():
            if call_matches(t, callee):
                args = [og.of_operand(a, bb, 'term') for a in t['args']]
                has_content = any(term_has(a, lambda x: x[0] == 'variant' and x[1] == kind) for a in args)
                has_reader = any(term_has(a, lambda x: x[0] == 'call' and x[1].endswith('reader_mut')) for a in args)
                if has_content and has_reader:
                    sites.append((bb, 'term'))
        ok = len(arm) >= 1 and bool(sites)
        for s_, t_ in arm:
            for r in h.return_blocks():
                if P.can_reach((t_, 0), (r, 'term'), avoid_pos=sites):
                    ok = False
        n += 1
        rep.check(ok, rid, '%shandle_writer_submessage/%s' % (pre, kind), '%s arm => %s(content of the arm, the reader found) on every path' % (kind, callee.rsplit('::', 1)[-1]),
                  'handle_writer_submessage does not hand a %s submessage to %s of the target Reader on every path: that kind of submessage is silently ignored' % (kind, callee.rsplit('::', 1)[-1]), h.where())
    rep.floor(rid, n, 4, 'writer submessage kinds')
    if cfg == 'default':
        for fn, sink, exempt in (('decode_and_handle_data', 'Reader::handle_data_msg', False), ('decode_and_handle_datafrag', 'Reader::handle_datafrag_msg', True)):
            b = fx.find(MR + fn)
            rep.analysed(b)
            og = Origins(b, summaries=False)
            P = Pos(b)
            names = {v: k for k, v in b.local_names().items() if 1 <= k <= b.argc}
            sites = []
            for bb, t in b.calls():
                if call_matches(t, sink):
                    args = [_deref(og.of_operand(a, bb, 'term')) for a in t['args']]
                    if args[0] == ('param', names.get('reader')) and args[1] == ('param', names.get('data' if not exempt else 'datafrag')) and \
                            args[2] == ('param', names.get('data_flags' if not exempt else 'datafrag_flags')) and args[3] == ('param', names.get('mr_state')):
                        sites.append((bb, 'term'))
            edges_b = list(switch_edges(b, fx, og))
            too_long = [(s_, t_) for s_, t_, cond, lab in edges_b if exempt and cond[0] == 'bin' and ((cond[1] == 'Gt' and lab is True) or (cond[1] == 'Le' and lab is False)) and
                        term_has(cond[2], lambda x: (x[0] == 'call' and x[1].endswith('::len')) or x[0] == 'len') and term_has(cond[3], lambda x: x[0] == 'field' and x[1] == 'fragments_in_submessage') and
                        term_has(cond[3], lambda x: x[0] == 'field' and x[1] == 'fragment_size')]
            ok = len(sites) == 1
            for r in b.return_blocks():
                if not P.every_path_passes(None, (r, 'term'), via_pos=sites, via_edges=too_long, from_entry=True):
                    ok = False
            rep.check(ok, rid, '%s/sink' % fn, '%s(reader, content, flags, state) on every path%s' % (sink.rsplit('::', 1)[-1], ' (oversized payload excepted)' if exempt else ''),
                      '%s does not hand the submessage to %s on every path: no %s is ever delivered to a Reader in a build without the security feature' %
                      (fn, sink.rsplit('::', 1)[-1], 'DATA' if not exempt else 'DATAFRAG'), b.where())
    # Reader-kind submessages
    hs = fx.find(MR + 'handle_submessage')
    og = Origins(hs, summaries=False)
    P = Pos(hs)
    edges = primary_edges(hs, list(switch_edges(hs, fx, og)))
    arm = [(s_, t_) for s_, t_, cond, lab in edges if lab == 'Reader' and cond[0] == 'discr' and term_has(cond, lambda x: x[0] == 'field' and x[1] == 'body')]
    sites = [(bb, 'term') for bb, t in hs.calls() if call_matches(t, 'MessageReceiver::handle_reader_submessage') and
             term_has(og.of_operand(t['args'][1], bb, 'term'), lambda x: x[0] == 'variant' and x[1] == 'Reader')]
    ok = len(arm) == 1 and bool(sites)
    if ok:
        starts = [arm[0][1]]
        if cfg != 'default':
            starts = [t_ for s_, t_, cond, lab in edges if lab == 'None' and cond[0] == 'discr' and term_has(cond, lambda x: x[0] == 'field' and x[1] == 'security_plugins') and
                      P.can_reach((arm[0][1], 0), (s_, 'term')) and not any(P.can_reach((t2, 0), (s_, 'term')) for s2, t2, c2, l2 in edges if s2 == arm[0][0] and t2 != arm[0][1])]
            ok = bool(starts)
        for st in starts:
            for r in hs.return_blocks():
                if P.can_reach((st, 0), (r, 'term'), avoid_pos=sites):
                    ok = False
    rep.check(ok, rid, '%shandle_submessage/reader-kind' % pre, 'Reader-kind submessage => handle_reader_submessage (no plugins)',
              'handle_submessage does not hand a Reader-kind submessage (ACKNACK, NACKFRAG) to handle_reader_submessage on every path without security plugins: no ACKNACK ever '
              'reaches a Writer', hs.where(arm[0][0]) if arm else hs.where())


def _deref(t):
    while isinstance(t, tuple) and t and t[0] in ('ref', 'deref', 'copy') and len(t) > 1 and isinstance(t[1], tuple):
        t = t[1]
    return t


def run_fresh_state(rep, fx, rid):
    """The MessageReceiver is one object for all datagrams: what an INFO_* submessage of one message set must not colour the next message."""
    rep.rule(rid, 'each datagram is parsed, processed whole and with fresh interpreter state: handle_received_packet hands the message Message::read_from_buffer returned to '
                  'handle_parsed_message on every path after a successful parse; handle_parsed_message calls reset() before the first submessage is handled and hands every '
                  'submessage of the (decoded) message to handle_submessage; every field of the MessageReceiver that handle_interpreter_submessage assigns (INFO_TS, INFO_SRC, '
                  'INFO_REPLY, INFO_DST: the set is read from the code) is re-initialised by reset() or by handle_parsed_message before the loop')
    hp = fx.find(MR + 'handle_received_packet')
    rep.analysed(hp)
    og = Origins(hp, summaries=False)
    P = Pos(hp)
    edges = list(switch_edges(hp, fx, og))
    parsed = [(s_, t_) for s_, t_, cond, lab in edges if lab == 'Ok' and cond[0] == 'discr' and cond[1][0] == 'call' and cond[1][1].endswith('read_from_buffer')]
    fw = [(bb, 'term') for bb, t in hp.calls() if call_matches(t, 'MessageReceiver::handle_parsed_message') and
          term_has(og.of_operand(t['args'][1], bb, 'term'), lambda x: x[0] == 'call' and x[1].endswith('read_from_buffer'))]
    ok = len(parsed) == 1 and len(fw) == 1 and not any(P.can_reach((parsed[0][1], 0), (r, 'term'), avoid_pos=fw) for r in hp.return_blocks())
    rep.check(ok, rid, 'handle_received_packet/parsed-is-processed', 'Ok(message) => handle_parsed_message(message) on every path',
              'handle_received_packet does not hand every successfully parsed RTPS message to handle_parsed_message: received traffic is silently discarded', hp.where())
    # which datagrams are parsed at all: at least a header long and starting with the magic "RTPS" (the byte-string constants are in the fact file)
    def nm_call(t, og_, bb):
        cr = callee_res(t)
        last = cr.rsplit('::', 1)[-1]
        if last in ('eq', 'ne') and len(t['args']) == 2:
            for a in t['args']:
                v = og_.of_operand(a, bb, 'term')
                for x in _consts(v):
                    if len(x) > 3 and x[1] == 'ptr' and x[3] in (b'RTPS', b'RTPX'):
                        return '%s:%s' % (last, x[3].decode().lower())
        return None

    def nm_discr(cond):
        if cond[0] == 'bin' and cond[1] in ('Ge', 'Lt') and cond[3] == ('const', 'int', 4) and term_has(cond[2], lambda x: x[0] == 'call' and x[1].endswith('::len')):
            return 'ge4' if cond[1] == 'Ge' else '!ge4'
        return None
    short = [(s_, t_, lab) for s_, t_, cond, lab in edges if cond[0] == 'bin' and cond[1] in ('Lt', 'Ge') and term_has(cond[2], lambda x: x[0] == 'call' and x[1].endswith('::len')) and
             term_has(cond[3], lambda x: x[0] == 'const' and str(x[-1]).endswith('RTPS_MESSAGE_HEADER_SIZE'))]
    parse = [bb for bb, t in hp.calls() if callee_res(t).endswith('Message::read_from_buffer')]
    bad = []
    if len(parse) != 1 or len(short) != 2:
        bad.append('no length test against RTPS_MESSAGE_HEADER_SIZE in front of the parser')
    else:
        is_short = [(s_, t_) for s_, t_, lab in short if lab is (True if any(c[1] == 'Lt' for _, _, c, _ in edges if c[0] == 'bin' and term_has(c, lambda x: x[0] == 'const' and str(x[-1]).endswith('RTPS_MESSAGE_HEADER_SIZE'))) else False)]
        long_enough = [(s_, t_) for s_, t_, lab in short if (s_, t_) not in is_short]
        if any(P.can_reach((t_, 0), (parse[0], 'term')) for s_, t_ in is_short):
            bad.append('a datagram shorter than the RTPS header reaches the parser')
        T = boolform.table(hp, fx, nm_call, nm_discr, start=long_enough[0][1], stop_blocks={parse[0]: 'parse'})
        if not any(a.endswith(':rtps') for a in T.atoms):
            bad.append('no comparison with the magic b"RTPS" (tests found: %s)' % T.atoms)
        else:
            for vals in itertools.product((False, True), repeat=len(T.atoms)):
                assign = dict(zip(T.atoms, vals))
                tr = {}
                for k, v in assign.items():
                    if k.startswith('ne:'):
                        tr[k[3:]] = not v
                    elif k.startswith('eq:'):
                        tr[k[3:]] = v
                    elif k.startswith('!'):
                        tr[k[1:]] = not v
                    else:
                        tr[k] = v
                if tr.get('ge4') is False or (tr.get('rtps') and tr.get('rtpx')):
                    continue            # cannot happen for a datagram that is a header long / two different magics at once
                want = 'parse' if tr['rtps'] else None
                got = T.eval(assign)
                if got != want:
                    bad.append('magic is RTPS=%s -> %s' % (tr['rtps'], 'parsed' if got == 'parse' else 'dropped'))
    rep.check(not bad, rid, 'handle_received_packet/admission', 'parsed <=> at least a header long AND magic == b"RTPS"',
              'handle_received_packet does not parse exactly the datagrams that are at least an RTPS header long and start with "RTPS" (%s)' % '; '.join(sorted(set(bad))[:2]), hp.where())
    pm = fx.find(MR + 'handle_parsed_message')
    rep.analysed(pm)
    og = Origins(pm, summaries=False)
    P = Pos(pm)
    resets = [(bb, 'term') for bb, t in pm.calls() if call_matches(t, 'MessageReceiver::reset') and og.of_operand(t['args'][0], bb, 'term') in (('param', 1), ('ref', ('param', 1)), ('deref', ('param', 1)))]
    subs = [(bb, t) for bb, t in pm.calls() if call_matches(t, 'MessageReceiver::handle_submessage')]
    ok = len(resets) >= 1 and len(subs) >= 1 and all(P.every_path_passes(None, (bb, 'term'), via_pos=resets, from_entry=True) for bb, _ in subs)
    rep.check(ok, rid, 'handle_parsed_message/reset-first', 'reset() before any submessage is handled', 'handle_parsed_message handles submessages without having reset the per-message '
              'state: the source timestamp, reply locators or destination of the previous datagram are applied to this one', pm.where())
    # every submessage handled
    okl = False
    edges = list(switch_edges(pm, fx, og))
    for lp in natural_loops(pm):
        blocks = lp[1]
        nxt = [(nb, nt) for nb, nt in pm.calls() if nb in blocks and callee_res(nt).endswith('::next') and
               term_has(og.of_operand(nt['args'][0], nb, 'term'), lambda x: x[0] == 'field' and x[1] == 'submessages')]
        if not nxt:
            continue
        nb = nxt[0][0]
        some = [(a, b_) for a, b_, cond, lab in edges if lab == 'Some' and a in blocks and cond[0] == 'discr' and cond[1][0] == 'call' and cond[1][1].endswith('::next')]
        hs = [(bb, 'term') for bb, t in subs if bb in blocks and term_has(og.of_operand(t['args'][1], bb, 'term'), lambda x: x[0] == 'variant' and x[1] == 'Some')]
        if some and hs and not any(P.can_reach((b_, 0), (nb, 'term'), avoid_pos=hs) for a, b_ in some):
            okl = True
    rep.check(okl, rid, 'handle_parsed_message/every-submessage', 'every item of message.submessages => handle_submessage before the next',
              'handle_parsed_message does not hand every submessage of the message to handle_submessage', pm.where())
    # interpreter state re-initialised
    hi = fx.find(MR + 'handle_interpreter_submessage')
    rs = fx.find(MR + 'reset')
    rep.analysed(hi)
    rep.analysed(rs)

    def self_fields_written(b, before=None):
        out = {}
        Pb = Pos(b) if before else None
        ogb = Origins(b, summaries=False)
        for bb, si, st in b.statements():
            if st['s'] == 'assign' and st['lhs']['l'] == 1 and st['lhs'].get('p') and len(st['lhs']['p']) == 2 and st['lhs']['p'][0] == '*' and isinstance(st['lhs']['p'][1], dict):
                out.setdefault(st['lhs']['p'][1].get('n'), []).append((bb, si))
        for bb, t in b.calls():
            if callee_res(t).rsplit('::', 1)[-1] in ('clear', 'truncate') and t['args']:
                a = _deref(ogb.of_operand(t['args'][0], bb, 'term'))
                if a[0] == 'field' and a[2] == ('param', 1):
                    out.setdefault(a[1], []).append((bb, 'term'))
        return out
    sticky = set(self_fields_written(hi))
    cleared = set(self_fields_written(rs))
    pre = self_fields_written(pm)
    first_sub = [(bb, 'term') for bb, _ in subs]
    early = {f for f, sites in pre.items() if all(P.every_path_passes(None, s_, via_pos=sites, from_entry=True) for s_ in first_sub)}
    missing = sorted(f for f in sticky if f not in cleared and f not in early)
    rep.check(len(sticky) >= 4 and not missing, rid, 'reset/covers-interpreter-state', '%d fields set by INFO_* submessages, all re-initialised per message' % len(sticky),
              'fields an INFO_* submessage sets are not re-initialised for the next datagram: %s (set by handle_interpreter_submessage: %s)' % (', '.join(missing) or '-', ', '.join(sorted(sticky))), rs.where())


def _consts(t):
    out = []

    def rec(x):
        if isinstance(x, tuple):
            if x and x[0] == 'const':
                out.append(x)
                return
            for y in x:
                rec(y)
    rec(t)
    return out
