"""C10  Endpoints match exactly when their QoS is request/offered compatible.

`QosPolicies::compliance_failure_wrt_impl` and the comparators it uses touch policy values
only through comparisons, Option presence and enum discriminants, so its verdict is a
function of finitely many ordering atoms. The MIR of the function (and of every hand-written
comparator it reaches) is interpreted over that finite abstract domain for EVERY valuation
and compared with the DDS 1.4 section 2.2.3 request/offered table.
"""
import itertools

from rdv import absint
from rdv.absint import Cell, Interp, Unsupported, mk_option
from rdv.core import CheckBroken, Origins, Pos, call_matches, callee_res, norm_path, strip_generics, switch_edges, term_has, term_str

CONFIGS = ['default']
LEVEL = 'proof'

SCALAR_ADTS = {'structure::duration::Duration': ['seconds', 'fraction']}
INT_TYS = ('i8', 'i16', 'i32', 'i64', 'u8', 'u16', 'u32', 'u64', 'usize', 'isize')

# DDS 1.4 2.2.3 (strength order of kinds, weakest first)
KIND_ORDER = {
    'durability': ['Volatile', 'TransientLocal', 'Transient', 'Persistent'],
    'liveliness': ['Automatic', 'ManualByParticipant', 'ManualByTopic'],
    'reliability': ['BestEffort', 'Reliable'],
    'destination_order': ['ByReceptionTimestamp', 'BySourceTimeStamp'],
    'access_scope': ['Instance', 'Topic', 'Group'],
}
POLICY_ID = {'durability': 'Durability', 'presentation': 'Presentation', 'deadline': 'Deadline',
             'latency_budget': 'LatencyBudget', 'ownership': 'Ownership', 'liveliness': 'Liveliness',
             'reliability': 'Reliability', 'destination_order': 'DestinationOrder'}
RXO_FREE = ['time_based_filter', 'history', 'resource_limits', 'lifespan', 'property']


class NeedRank(Exception):
    def __init__(self, sym, sort):
        self.sym, self.sort = sym, sort


class Valuation:
    """Weak ordering of symbols per sort, extended lazily."""

    def __init__(self, ranks=None):
        self.ranks = dict(ranks or {})   # sym -> (sort, rank number as fraction)
        self.sorts = {}

    def order(self, a, b):
        for s in (a, b):
            if s not in self.ranks:
                raise NeedRank(s, self.sorts.get(s))
        ra, rb = self.ranks[a], self.ranks[b]
        return (ra > rb) - (ra < rb)

    def extensions(self, sym):
        """All ways to place `sym` relative to already ranked symbols of its sort."""
        sort = self.sorts.get(sym)
        same = sorted(set(r for s, r in self.ranks.items() if self.sorts.get(s) == sort))
        opts = []
        if not same:
            opts = [0.0]
        else:
            opts.append(same[0] - 1.0)
            for i, r in enumerate(same):
                opts.append(r)
                nxt = same[i + 1] if i + 1 < len(same) else r + 2.0
                opts.append((r + nxt) / 2.0)
        out = []
        for o in opts:
            v = Valuation(self.ranks)
            v.sorts = self.sorts
            v.ranks[sym] = o
            out.append(v)
        return out

    def describe(self):
        by = {}
        for s, r in self.ranks.items():
            by.setdefault(self.sorts.get(s), []).append((r, s))
        parts = []
        for sort, lst in by.items():
            lst.sort()
            txt = ''
            prev = None
            for r, s in lst:
                if prev is None:
                    txt = s
                else:
                    txt += (' = ' if r == prev else ' < ') + s
                prev = r
            parts.append(txt)
        return '; '.join(parts)


def enum_values(fx, ty, name, sorts):
    """All abstract values of type `ty` (symbols for ordered scalars)."""
    base = strip_generics(ty)
    if base == 'bool':
        return [('int', 0), ('int', 1)]
    if base in INT_TYS:
        sorts[name] = base
        return [('sym', name, base)]
    if base in SCALAR_ADTS:
        sorts[name] = base
        return [('sym', name, base)]
    adt = fx.adts.get(base)
    if adt is None:
        raise CheckBroken('policy field type %s is not analysable' % ty)
    out = []
    for v in adt['variants']:
        fvals = [enum_values(fx, f['ty'], '%s.%s' % (name, f['name']), sorts) for f in v['fields']]
        for combo in itertools.product(*fvals):
            out.append(('adt', base, v['name'] if adt['kind'] == 'enum' else None,
                        {f['name']: c for f, c in zip(v['fields'], combo)}))
    return out


def option_inner(ty):
    # std::option::Option<dds::qos::policy::Durability>
    i = ty.index('<')
    return ty[i + 1:-1]


def kind_of(v):
    return v[2]


def field(v, n):
    return v[3][n]


def reference_failing(policy, off, req, cmp_):
    """DDS 1.4 2.2.3: True iff the (offered, requested) pair of this policy is incompatible."""
    def k(order, v):
        return order.index(kind_of(v))
    if policy == 'durability':
        o = KIND_ORDER['durability']
        return k(o, off) < k(o, req)
    if policy == 'presentation':
        o = KIND_ORDER['access_scope']
        return (field(req, 'coherent_access')[1] and not field(off, 'coherent_access')[1]) or \
               (field(req, 'ordered_access')[1] and not field(off, 'ordered_access')[1]) or \
               k(o, field(req, 'access_scope')) > k(o, field(off, 'access_scope'))
    if policy == 'deadline':
        return cmp_(field(off, '0'), field(req, '0')) > 0
    if policy == 'latency_budget':
        return cmp_(field(off, 'duration'), field(req, 'duration')) > 0
    if policy == 'ownership':
        return kind_of(off) != kind_of(req)
    if policy == 'liveliness':
        o = KIND_ORDER['liveliness']
        return k(o, off) < k(o, req) or cmp_(field(off, 'lease_duration'), field(req, 'lease_duration')) > 0
    if policy == 'reliability':
        o = KIND_ORDER['reliability']
        return k(o, off) < k(o, req)
    if policy == 'destination_order':
        o = KIND_ORDER['destination_order']
        return k(o, off) < k(o, req)
    return False


def show(v):
    if v is None:
        return 'absent'
    if v[0] == 'adt':
        inner = ', '.join('%s: %s' % (n, show(x)) for n, x in v[3].items())
        head = (v[1].rsplit('::', 1)[-1] + ('::' + v[2] if v[2] else ''))
        return head + ('{' + inner + '}' if inner else '')
    if v[0] == 'sym':
        return v[1]
    if v[0] == 'int':
        return str(v[1])
    return str(v)


def run(rep, facts, tier):
    fx = facts['default']
    rep.explanation = ('Abstract interpretation of the MIR of QosPolicies::compliance_failure_wrt_impl and of every comparator it reaches '
                       '(derived ones by their derive semantics from the ADT table, hand-written ones by interpreting their MIR) over the finite '
                       'domain {presence} x {enum variants, bools} x {weak orderings of the scalar fields}; exhaustive comparison with the '
                       'DDS 1.4 2.2.3 request/offered table. Call-site roles and comparator hygiene are separate rules.')
    rep.rule('R10.1', 'for every policy and every valuation of its atoms: verdict(code) == RxO table; the policy reported is the failing one; '
                      'policies without an RxO rule never fail; absent on either side never fails')
    rep.rule('R10.2', 'comparator hygiene: in every hand-written Ord/PartialOrd/PartialEq of dds::qos each comparison has one operand rooted in self and one in other')
    rep.rule('R10.3', 'roles: at both call sites the receiver of compliance_failure_wrt is the offered (writer) QoS and the argument the requested (reader) QoS')
    rep.rule('R10.4', 'ordered-scalar assumption: Duration derives Ord/PartialOrd/PartialEq with fields (seconds, fraction) in that order')
    rep.trusted_base = ['rustc front end + MIR construction', 'engine/mirfacts', 'rdv.absint interpreter (std comparator semantics: PartialOrd/Ord/'
                        'PartialEq methods, Ordering::then_with/reverse, derive(PartialOrd) = lexicographic by declaration order)',
                        'the DDS 1.4 2.2.3 table as transcribed in rules/C10.py']
    rep.assume('Durations are normalised (lexicographic (seconds, fraction) order is the numeric order)',
               'the match decision is exactly compliance_failure_wrt(..) == None at the two call sites checked by R10.3')
    body = fx.find('dds::qos::QosPolicies::compliance_failure_wrt_impl')
    wrapper = fx.find('dds::qos::QosPolicies::compliance_failure_wrt')
    rep.analysed(body, wrapper)
    # the public wrapper returns the impl's result
    og = Origins(wrapper)
    rets = wrapper.return_blocks()
    t0 = og.of_local(0, rets[0], 'term')
    rep.check(term_has(t0, lambda x: x[0] == 'call' and x[1].endswith('compliance_failure_wrt_impl') and x[2][0] == ('param', 1) and x[2][1] == ('param', 2)),
              'R10.1', 'compliance_failure_wrt/wrapper', 'returns compliance_failure_wrt_impl(self, other)',
              'compliance_failure_wrt does not return compliance_failure_wrt_impl(self, other) unchanged', wrapper.where())

    # R10.4
    for path, fields in SCALAR_ADTS.items():
        adt = fx.adts.get(path)
        ok = adt is not None and [f['name'] for f in adt['variants'][0]['fields']] == fields
        for tr in ('std::cmp::PartialOrd', 'std::cmp::Ord', 'std::cmp::PartialEq'):
            im = [i for i in fx.impls if strip_generics(i['self_ty']) == path and i.get('trait_def') and strip_generics(i['trait_def']) == tr]
            ok = ok and bool(im) and all(i['derived'] for i in im)
        rep.check(ok, 'R10.4', path, 'derived order on (%s)' % ', '.join(fields),
                  '%s no longer derives its order on fields (%s): it cannot be treated as an ordered scalar' % (path, ', '.join(fields)))

    qos = fx.adts.get('dds::qos::QosPolicies')
    if not qos:
        raise CheckBroken('QosPolicies ADT not found')
    qfields = qos['variants'][0]['fields']
    fnames = [f['name'] for f in qfields]
    for p in POLICY_ID:
        if p not in fnames:
            raise CheckBroken('QosPolicies has no field %s' % p)

    def mk_qos(present):
        d = {}
        for f in qfields:
            d[f['name']] = mk_option(present.get(f['name']))
        return ('adt', 'dds::qos::QosPolicies', None, d)

    stats = {'evals': 0, 'distinct': 0, 'unsupported': 0}

    def evaluate(off_present, req_present, sorts):
        """Yields (valuation, verdict variant name or None) for every valuation of the atoms the code or the reference looks at."""
        work = [Valuation()]
        work[0].sorts = sorts
        while work:
            val = work.pop()
            it = Interp(fx, val.order, SCALAR_ADTS)
            try:
                r = it.run(body, [('ref', Cell(mk_qos(off_present))), ('ref', Cell(mk_qos(req_present)))])
            except NeedRank as nr:
                work.extend(val.extensions(nr.sym))
                continue
            stats['evals'] += 1
            r = it.deref(r)
            verdict = None
            if r[2] == 'Some':
                verdict = it.deref(r[3]['0'])[2]
            yield val, verdict, it

    samples = []
    for fld in fnames:
        f = [x for x in qfields if x['name'] == fld][0]
        inner = option_inner(f['ty'])
        sorts_o, sorts_r = {}, {}
        try:
            offs = enum_values(fx, inner, 'off', sorts_o)
            reqs = enum_values(fx, inner, 'req', sorts_r)
        except CheckBroken:
            if fld in POLICY_ID:
                raise
            # a policy without RxO rule whose type is not enumerable (e.g. Property): presence only
            offs, reqs = [None], [None]
            sorts_o, sorts_r = {}, {}
            rep.ok('R10.1', '%s/not-enumerated' % fld, 'policy has no RxO rule and is not read by the verdict function (checked by field-read scan)', '')
            reads = [st for _bb, _si, st in body.statements() if st['s'] == 'assign' and fld in str(st['rv'])]
            rep.check(not reads, 'R10.1', '%s/unread' % fld, 'field is not read', 'policy %s has no RxO rule but is read by the verdict function' % fld, body.where())
            continue
        sorts = dict(sorts_o)
        sorts.update(sorts_r)
        n_bad = 0
        n_cases = 0
        first_bad = None
        # presence combinations
        for po, pr in ((True, True), (True, False), (False, True), (False, False)):
            for off in (offs if po else [None]):
                for req in (reqs if pr else [None]):
                    offp = {fld: off} if off is not None else {}
                    reqp = {fld: req} if req is not None else {}
                    try:
                        for val, verdict, it in evaluate(offp, reqp, sorts):
                            # the reference may need atoms the code never asked for
                            pending = [val]
                            while pending:
                                v2 = pending.pop()
                                try:
                                    if po and pr:
                                        def cmp_(a, b, v2=v2):
                                            return v2.order(a[1], b[1])
                                        failing = reference_failing(fld, off, req, cmp_)
                                    else:
                                        failing = False
                                except NeedRank as nr:
                                    pending.extend(v2.extensions(nr.sym))
                                    continue
                                n_cases += 1
                                expected = POLICY_ID.get(fld) if failing else None
                                if verdict != expected:
                                    n_bad += 1
                                    if first_bad is None:
                                        first_bad = 'offered %s, requested %s, with %s: code says %s, DDS 1.4 2.2.3 says %s' % (
                                            show(off), show(req), v2.describe() or 'no scalar atoms', verdict, expected)
                                elif len(samples) < 40 and (failing or len(samples) % 3 == 0):
                                    samples.append({'policy': fld, 'offered': show(off), 'requested': show(req), 'order': v2.describe(),
                                                    'verdict': verdict})
                    except Unsupported as e:
                        stats['unsupported'] += 1
                        raise CheckBroken('abstract interpretation of the %s conjunct failed: %s' % (fld, e))
        stats['distinct'] += n_cases
        key = POLICY_ID.get(fld, fld)
        rep.check(n_bad == 0, 'R10.1', key, '%d valuations agree with the RxO table' % n_cases,
                  '%d of %d valuations disagree with DDS 1.4 2.2.3, e.g. %s' % (n_bad, n_cases, first_bad), body.where())

    # pairs of policies (thorough): the reported policy is a failing one
    if tier == 'thorough':
        pol = list(POLICY_ID)
        for a, b in itertools.combinations(pol, 2):
            fa = [x for x in qfields if x['name'] == a][0]
            fb = [x for x in qfields if x['name'] == b][0]
            sorts = {}
            oa = enum_values(fx, option_inner(fa['ty']), 'offA', sorts)
            ra = enum_values(fx, option_inner(fa['ty']), 'reqA', sorts)
            ob = enum_values(fx, option_inner(fb['ty']), 'offB', sorts)
            rb = enum_values(fx, option_inner(fb['ty']), 'reqB', sorts)
            n_bad = 0
            n = 0
            first_bad = None
            for va, wa, vb, wb in itertools.product(oa, ra, ob, rb):
                for val, verdict, it in evaluate({a: va, b: vb}, {a: wa, b: wb}, sorts):
                    pending = [val]
                    while pending:
                        v2 = pending.pop()
                        try:
                            def cmp_(x, y, v2=v2):
                                return v2.order(x[1], y[1])
                            failing = set()
                            if reference_failing(a, va, wa, cmp_):
                                failing.add(POLICY_ID[a])
                            if reference_failing(b, vb, wb, cmp_):
                                failing.add(POLICY_ID[b])
                        except NeedRank as nr:
                            pending.extend(v2.extensions(nr.sym))
                            continue
                        n += 1
                        good = (verdict is None and not failing) or (verdict in failing)
                        if not good:
                            n_bad += 1
                            if first_bad is None:
                                first_bad = '%s: %s/%s, %s: %s/%s (%s): code says %s, incompatible policies are %s' % (
                                    a, show(va), show(wa), b, show(vb), show(wb), v2.describe(), verdict, sorted(failing))
            stats['distinct'] += n
            rep.check(n_bad == 0, 'R10.1', 'pair:%s+%s' % (POLICY_ID[a], POLICY_ID[b]), '%d valuations: reported policy is an incompatible one' % n,
                      '%d of %d valuations: the reported cause is not an incompatible policy (or a failure is missed), e.g. %s' % (n_bad, n, first_bad), body.where())

    # R10.2 comparator hygiene
    n_h = 0
    for im in fx.impls:
        td = strip_generics(im.get('trait_def') or '')
        if td not in ('std::cmp::Ord', 'std::cmp::PartialOrd', 'std::cmp::PartialEq') or im['derived']:
            continue
        if not strip_generics(im['self_ty']).startswith('dds::qos'):
            continue
        for it_ in im['items']:
            k = norm_path(it_['def'])
            for b in fx.by_key.get(k, []):
                for cb in [b] + fx.closures_of(b):
                    rep.analysed(cb)
                    og = Origins(cb, summaries=False)
                    for bb, t in cb.calls():
                        d = strip_generics(t['f'].get('def') or '')
                        if d.rsplit('::', 1)[-1] in ('cmp', 'partial_cmp', 'eq', 'ne', 'lt', 'le', 'gt', 'ge') and len(t['args']) == 2 and \
                                d.startswith('std::cmp::'):
                            n_h += 1
                            ta = og.of_operand(t['args'][0], bb, 'term')
                            tb = og.of_operand(t['args'][1], bb, 'term')

                            def roots(tm):
                                rs = set()
                                for x in __import__('rdv.core', fromlist=['term_leaves']).term_leaves(tm):
                                    if x[0] == 'param':
                                        rs.add(('param', x[1]))
                                    if x[0] == 'field' and x[1] in ('self', 'other') and x[2][0] == 'param':
                                        rs.add(('cap', x[1]))
                                return rs
                            ra_, rb_ = roots(ta), roots(tb)
                            # closure captures named self/other count as the roots
                            ca = set(r for r in ra_ if r[0] == 'cap') or ra_
                            cbs = set(r for r in rb_ if r[0] == 'cap') or rb_
                            ok = bool(ca) and bool(cbs) and ca != cbs and len(ca) == 1 and len(cbs) == 1
                            if not ca and not cbs:
                                ok = True  # comparison of constants / nested results
                            rep.check(ok, 'R10.2', '%s/cmp@%d' % (cb.key, n_h), '%s vs %s' % (term_str(ta), term_str(tb)),
                                      'comparison %s(%s, %s) does not compare a value of `self` with a value of `other`' % (
                                          d.rsplit('::', 1)[-1], term_str(ta), term_str(tb)), cb.where(bb))
    # R10.3 roles
    sites = [('rtps::reader::Reader::update_writer_proxy', 'reader'), ('rtps::writer::Writer::update_reader_proxy', 'writer')]
    n_sites = 0
    for key, side in sites:
        b = fx.find(key)
        rep.analysed(b)
        og = Origins(b)
        pn = {d_.get('arg'): d_['name'] for d_ in b.j.get('dbg', []) if d_.get('arg')}
        for bb, t in b.calls():
            if not call_matches(t, 'QosPolicies::compliance_failure_wrt'):
                continue
            n_sites += 1
            recv = og.of_operand(t['args'][0], bb, 'term')
            arg = og.of_operand(t['args'][1], bb, 'term')
            if side == 'reader':
                # receiver: the discovered writer's (offered) QoS parameter; argument: Reader.qos_policy
                ok = recv[0] == 'param' and 'offer' in (pn.get(recv[1]) or '') and arg[0] == 'field' and arg[1] == 'qos_policy' and arg[2] == ('param', 1)
            else:
                ok = recv[0] == 'field' and recv[1] == 'qos_policies' and recv[2] == ('param', 1) and arg[0] == 'param' and 'request' in (pn.get(arg[1]) or '')
            rep.check(ok, 'R10.3', '%s/roles' % key, 'offered=%s requested=%s' % (term_str(recv), term_str(arg)),
                      'offered/requested roles are not (writer QoS).compliance_failure_wrt(reader QoS): receiver %s, argument %s' % (term_str(recv), term_str(arg)), b.where(bb))
    rep.floor('R10.3', n_sites, 2, 'call sites of compliance_failure_wrt in rtps')
    # other callers must not exist with swapped roles (discovery uses it for topics?) -- list them in the evidence
    others = [b.key for b, _bb, _t in fx.callers_of('QosPolicies::compliance_failure_wrt') if b.key not in [s[0] for s in sites]]
    rep.coverage_extra.update({
        'exhaustive': True,
        'evaluations': stats['evals'],
        'distinct_nontrivial': stats['distinct'],
        'other_callers_of_compliance_failure_wrt': others,
        'samples': samples[:24],
        'domain': 'presence(2x2) x variants/bools x weak orderings of ordered scalars (Duration, i32), per policy' + (
            '; plus all pairs of RxO policies' if tier == 'thorough' else ''),
    })

    # ------------------------------------------------------------ R10.5 both sides decide on the same QoS
    rule_10_5(rep, fx)

    rule_10_7(rep, fx)
    rule_10_8(rep, fx)
    rule_10_9(rep, fx)
    rule_10_10(rep, fx)

    # ------------------------------------------------------------ R10.6 crossed roles (shared lint, rdv/swaplint.py)
    from rdv import swaplint
    swaplint.run_rule(rep, facts['default'], 'R10.6', ['dds::qos', 'rtps::reader::Reader::update_writer_proxy', 'rtps::writer::Writer::update_reader_proxy', 'rtps::dp_event_loop'])


RXO_PIDS = ('PID_DURABILITY', 'PID_DEADLINE', 'PID_LATENCY_BUDGET', 'PID_LIVELINESS', 'PID_RELIABILITY', 'PID_OWNERSHIP', 'PID_DESTINATION_ORDER', 'PID_PRESENTATION')


def rule_10_5(rep, fx):
    """The remote side decides on the QoS as announced through SEDP, the local side on its own QosPolicies. The two verdicts agree only if every policy with a
    request/offered rule travels unchanged: it is written whenever the field is present (never depending on its value) and read back into the same field."""
    from rdv import pltables
    from rules.C15 import bodies_named
    rep.rule('R10.5', 'same verdict on both sides: each of the eight request/offered policies is announced by QosPolicies::to_parameter_list whenever it is present (emission never depends '
                      'on the value, e.g. "infinite" or "default") and read back by from_parameter_list with the same wire type')
    ser = bodies_named(fx, 'dds::qos::QosPolicies', ('to_parameter_list',))
    des = bodies_named(fx, 'dds::qos::QosPolicies', ('from_parameter_list',))
    if not ser or not des:
        raise CheckBroken('QosPolicies::to_parameter_list / from_parameter_list not found')
    rep.analysed(ser[0], des[0])
    S = pltables.emissions(fx, ser[0])
    D = pltables.consumptions(fx, des[0])
    for pid in RXO_PIDS:
        es = [e for e in S if e['pid'] == pid]
        ds = [d for d in D if d['pid'] == pid]
        ok = bool(es) and bool(ds) and all(not e['value_conds'] for e in es) and all(e['ty'] == ds[0]['ty'] for e in es)
        why = 'not written' if not es else 'not read' if not ds else '; '.join(sum((e['value_conds'] for e in es), [])) or 'written as %s, read as %s' % (es[0]['ty'], ds[0]['ty'])
        rep.check(ok, 'R10.5', 'QosPolicies/%s' % pid, 'announced on presence, read back as %s' % (ds[0]['ty'] if ds else '?'),
                  '%s does not travel unchanged through the SEDP announcement (%s): the remote side evaluates the request/offered rule on a different value than the local side, '
                  'the two verdicts differ and an incompatible pair is matched on one side' % (pid, why), (es[0]['where'] if es else ser[0].where()))


def rule_10_7(rep, fx):
    """What is compared (and announced) is the endpoint's effective QoS: defaults, overridden by the topic's QoS, overridden by the explicit QoS."""
    rep.rule('R10.7', 'effective QoS: QosPolicies::modify_by(self, other) takes every field from `other` when present, else from `self` (field f from field f on both sides); both endpoint '
                      'constructors compute default.modify_by(topic QoS).modify_by(explicit QoS or none), and that one value goes to the RTPS endpoint (which does the comparison) and to the '
                      'DataWriter/DataReader (whose QoS discovery announces)')
    b = fx.find('dds::qos::QosPolicies::modify_by')
    rep.analysed(b)
    og = Origins(b)
    bad = []
    n_f = 0
    for bb, si, st in b.statements():
        if st['s'] == 'assign' and st['rv']['r'] == 'agg' and strip_generics(str(st['rv'].get('adt'))).endswith('QosPolicies'):
            for f, o in zip(st['rv']['fields'], st['rv']['ops']):
                n_f += 1
                t = og.of_operand(o, bb, si)
                ok = t[0] == 'call' and t[1].endswith('Option::or') and len(t[2]) == 2 and \
                    term_has(t[2][0], lambda x: x == ('field', f, ('param', 2))) and term_has(t[2][1], lambda x: x == ('field', f, ('param', 1))) and \
                    not term_has(t[2][0], lambda x: x[0] == 'field' and x[2] == ('param', 1)) and not term_has(t[2][1], lambda x: x[0] == 'field' and x[2] == ('param', 2))
                if not ok:
                    bad.append('%s = %s' % (f, term_str(t)[:70]))
    rep.check(not bad and n_f >= 12, 'R10.7', 'modify_by/fields', '%d fields: other.f.or(self.f)' % n_f,
              'QosPolicies::modify_by does not take every policy from `other` when set and from `self` otherwise (%s): the endpoint\'s effective QoS differs from what the application '
              'configured, so the match decision is taken on other values' % '; '.join(bad[:3]), b.where())
    for nm, base in (('dds::pubsub::InnerPublisher::create_datawriter', 'default_datawriter_qos'), ('dds::pubsub::InnerSubscriber::create_simple_datareader_internal', 'qos')):
        c = fx.find(nm)
        rep.analysed(c)
        ogc = Origins(c)
        chain = None
        for bb, t in c.calls():
            if callee_res(t).endswith('QosPolicies::modify_by'):
                v = ogc._call(t, bb, 0)
                if v[2][0][0] == 'call' and v[2][0][1].endswith('QosPolicies::modify_by'):
                    chain = v
        okc = False
        why = 'no default.modify_by(..).modify_by(..) chain'
        if chain is not None:
            inner = chain[2][0]
            okc = term_has(inner[2][0], lambda x: x[0] == 'field' and x[1] == base and x[2] == ('param', 1)) and \
                term_has(inner[2][1], lambda x: x[0] == 'call' and x[1].endswith('::qos')) and \
                term_has(chain[2][1], lambda x: x[0] == 'call' and x[1].endswith('unwrap_or_else'))
            why = term_str(chain)[:120]
        short = nm.rsplit('::', 1)[-1]
        rep.check(okc, 'R10.7', '%s/precedence' % short, 'self.%s.modify_by(topic.qos()).modify_by(explicit or none)' % base,
                  '%s does not assemble the effective QoS as defaults < topic < explicit (%s)' % (short, why), c.where())
        # the same value reaches the RTPS endpoint ingredients and the DataWriter / DataReader object
        uses = 0
        for bb, si, st in c.statements():
            if st['s'] == 'assign' and st['rv']['r'] == 'agg' and st['rv'].get('kind') == 'adt' and st['rv'].get('fields'):
                for f, o in zip(st['rv']['fields'], st['rv']['ops']):
                    if 'qos' in str(f):
                        t = ogc.of_operand(o, bb, si)
                        if term_has(t, lambda x: x[0] == 'call' and x[1].endswith('QosPolicies::modify_by')):
                            uses += 1
        for bb, t in c.calls():
            r = callee_res(t)
            if r.endswith(('DataWriter::<D, SA>::new', 'SimpleDataReader::<D, DA>::new', 'DataWriter::new', 'SimpleDataReader::new')):
                if any(term_has(ogc.of_operand(a, bb, 'term'), lambda x: x[0] == 'call' and x[1].endswith('QosPolicies::modify_by')) for a in t['args']):
                    uses += 1
        rep.check(uses >= 2, 'R10.7', '%s/one-value' % short, 'the effective QoS reaches the RTPS endpoint and the DDS object (%d uses)' % uses,
                  '%s does not hand the same effective QoS to the RTPS endpoint (comparison) and to the DDS object (announcement): the two sides can reach different verdicts' % short, c.where())


RXO_FIELDS = ('durability', 'presentation', 'deadline', 'latency_budget', 'ownership', 'liveliness', 'reliability', 'destination_order')


def rule_10_8(rep, fx):
    """Both sides reach the same verdict only if what an endpoint announces is what it compares with itself."""
    rep.rule('R10.8', 'announcement = own QoS: the QosPolicies handed to SubscriptionBuiltinTopicData::new for a local reader is the reader\'s own qos_policy (the value its RTPS Reader '
                      'compares offers with), the one handed to PublicationBuiltinTopicData::new_with_qos for a local writer is writer.qos(); both as plain views with no further '
                      'call (no modify_by, no defaults merged in); and the two constructors copy each request/offered policy from the same-named field of that argument')
    sites = (('discovery::discovery_db::DiscoveryDB::update_local_topic_reader', 'SubscriptionBuiltinTopicData::new', 'reader',
              lambda t: t[0] == 'field' and t[1] == 'qos_policy' and t[2] == ('param', 4)),
             ('discovery::sedp_messages::DiscoveredWriterData::new', 'PublicationBuiltinTopicData::new_with_qos', 'writer',
              lambda t: t[0] == 'call' and t[1].endswith('::qos') and len(t[2]) == 1 and _plain(t[2][0]) == ('param', 1)))
    for fn, ctor, what, pred in sites:
        b = fx.find(fn)
        rep.analysed(b)
        og = Origins(b, transparent=False, summaries=False)
        calls = [(bb, t) for bb, t in b.calls() if callee_res(t).endswith(ctor)]
        ok = len(calls) == 1
        shown = ''
        if ok:
            bb, t = calls[0]
            qargs = []
            for i, a in enumerate(t['args']):
                if a.get('o') in ('copy', 'move') and 'QosPolicies' in str(b.locals[a['pl']['l']]):
                    qargs.append(og.of_operand(a, bb, 'term'))
            ok = len(qargs) == 1 and pred(_plain(qargs[0]))
            shown = term_str(qargs[0])[:100] if qargs else 'no QosPolicies argument'
        rep.check(ok, 'R10.8', '%s/announces-own-qos' % fn.rsplit('::', 1)[-1] if what == 'reader' else 'DiscoveredWriterData::new/announces-own-qos',
                  'the %s\'s own QoS, unchanged' % what,
                  '%s announces a QoS that is not the local %s\'s own QoS unchanged (%s): remote endpoints (and same-participant matching) judge compatibility on other values than '
                  'the local %s does, so the two sides reach different verdicts' % (fn.rsplit('::', 1)[-1], what, shown, what), b.where(calls[0][0]) if calls else b.where())
    for ty, cn in (('SubscriptionBuiltinTopicData', 'new'), ('PublicationBuiltinTopicData', 'new_with_qos')):
        c = fx.find('discovery::sedp_messages::%s::%s' % (ty, cn))
        sq = fx.find('discovery::sedp_messages::%s::set_qos' % ty)
        rep.analysed(c, sq)
        ogc = Origins(c, summaries=False)
        qp = [i + 1 for i in range(c.j.get('argc', 0)) if 'QosPolicies' in str(c.locals[i + 1])]
        calls = [(bb, t) for bb, t in c.calls() if callee_res(t).endswith('%s::set_qos' % ty)]
        okc = len(qp) == 1 and len(calls) == 1 and _plain(ogc.of_operand(calls[0][1]['args'][1], calls[0][0], 'term')) == ('param', qp[0]) and \
            all(Pos(c).every_path_passes(None, (r, 'term'), via_pos=[(calls[0][0], 'term')], from_entry=True) for r in c.return_blocks())
        ogs = Origins(sq, summaries=False)
        got = {}
        for bb, si, st in sq.statements():
            if st['s'] == 'assign':
                names = [e.get('n') for e in (st['lhs'].get('p') or []) if isinstance(e, dict)]
                if names and names[-1] in RXO_FIELDS and st['lhs']['l'] == 1:
                    got.setdefault(names[-1], []).append(_plain(ogs._rvalue(st['rv'], bb, si, 0)))
        bad = [f for f in RXO_FIELDS if got.get(f) != [('field', f, ('param', 2))]]
        rep.check(okc and not bad, 'R10.8', '%s/copies-rxo-fields' % ty, 'new() applies set_qos(qos) on every path; set_qos stores each of the 8 RxO policies from qos.<same field>',
                  '%s::new / set_qos do not copy every request/offered policy from the same-named field of the QoS argument (set_qos called with the argument on every path: %s; '
                  'fields not copied one-to-one: %s)' % (ty, okc, bad), sq.where())


def _plain(t):
    while isinstance(t, tuple) and t and t[0] in ('ref', 'deref', 'copy', 'move') and len(t) > 1 and isinstance(t[1], tuple):
        t = t[1]
    if isinstance(t, tuple) and t and t[0] == 'field' and len(t) > 2:
        return ('field', t[1], _plain(t[2]))
    return t


def rule_10_9(rep, fx):
    """Ownership travels in two parameters (kind, strength). R10.5 decides that both are written and read with the same wire types; this rule decides how the reader of
    the two puts them together (raised F24; seed C10f)."""
    from rdv.core import CheckBroken, Origins, Pos, switch_edges, term_str
    rep.rule('R10.9', 'the Ownership kind decoded is the kind announced: in QosPolicies::from_parameter_list, for every combination of (PID_OWNERSHIP absent | Shared | Exclusive) x '
                      '(PID_OWNERSHIP_STRENGTH absent | present) the assembled policy is None for an absent kind, Some(Shared) for Shared and Some(Exclusive{..}) for Exclusive - the '
                      'strength parameter never decides the kind, and a strength that is present with Exclusive is the one stored (6 leaves of the match, found by the edges that '
                      'dominate each assignment)')
    b = fx.find('dds::qos::QosPolicies::from_parameter_list')
    rep.analysed(b)
    og = Origins(b, summaries=False)
    P = Pos(b)
    edges = list(switch_edges(b, fx, og))
    own = [l for l in b.local_by_name('ownership')]
    if not own:
        raise CheckBroken('from_parameter_list: no local named ownership')
    sites = []
    for bb, si, st in b.statements():
        if st['s'] == 'assign' and st['lhs']['l'] in own and not st['lhs'].get('p'):
            v = og._rvalue(st['rv'], bb, si, 0)
            sites.append((bb, si, v))

    def kind_of(cond):
        """which of the three questions a switch asks (by the type inspected and the parameter id it came from)"""
        if cond[0] != 'discr' or len(cond) < 3:
            return None
        ty = strip_generics(str(cond[2]))
        txt = term_str(cond[1])
        if 'ControlFlow' in str(cond[2]):
            return None
        if str(cond[2]).endswith('OwnershipKind') and 'PID_OWNERSHIP,' in txt.replace('PID_OWNERSHIP_STRENGTH', 'X'):
            return 'kind'
        if 'Option<' in str(cond[2]) and 'OwnershipKind' in str(cond[2]):
            return 'kind_present'
        if 'Option<i32>' in str(cond[2]) and 'PID_OWNERSHIP_STRENGTH' in txt:
            return 'strength'
        return None
    rows = []
    for bb, si, v in sites:
        facts_ = {}
        for s_, t_, cond, lab in edges:
            k = kind_of(cond)
            if k and isinstance(lab, str) and P.can_reach((t_, 0), (bb, si)) and not any(P.can_reach((t2, 0), (bb, si)) for s2, t2, c2, l2 in edges if s2 == s_ and t2 != t_):
                facts_.setdefault(k, set()).add(lab)
        rows.append((facts_, v, bb, si))
    bad = []
    seen_kinds = set()
    for facts_, v, bb, si in rows:
        kp = facts_.get('kind_present', set())
        kd = facts_.get('kind', set())
        st_ = facts_.get('strength', set())
        if v[0] == 'agg' and str(v[1]).endswith('Option::None'):
            res = 'None'
        elif v[0] == 'agg' and str(v[1]).endswith('Option::Some') and v[2] and v[2][0][0] == 'agg':
            res = str(v[2][0][1]).rsplit('::', 1)[-1]
        elif v[0] == 'call' or v[0] == 'phi':
            res = '?'
        else:
            res = '?'
        ann = 'absent' if kp == {'None'} else ('Shared' if kd == {'Shared'} else ('Exclusive' if kd == {'Exclusive'} else '?'))
        seen_kinds.add(ann)
        want = {'absent': 'None', 'Shared': 'Shared', 'Exclusive': 'Exclusive'}.get(ann)
        if want is None or res != want:
            bad.append('announced kind %s, strength %s -> %s' % (ann, '/'.join(sorted(st_)) or 'any', res))
        if ann == 'Exclusive' and st_ == {'Some'} and res == 'Exclusive':
            sv = v[2][0][2][0] if v[2][0][2] else None
            if sv is None or 'PID_OWNERSHIP_STRENGTH' not in term_str(sv):
                bad.append('Exclusive with a strength present stores %s instead of the announced strength' % (term_str(sv)[:40] if sv else '-'))
    ok = not bad and seen_kinds >= {'absent', 'Shared', 'Exclusive'} and len(rows) >= 3
    rep.check(ok, 'R10.9', 'from_parameter_list/ownership-kind', '%d leaves: absent -> None, Shared -> Shared, Exclusive -> Exclusive' % len(rows),
              'QosPolicies::from_parameter_list does not decode the Ownership kind as announced (%s): a remote endpoint is matched or refused on a kind it did not announce' %
              ('; '.join(bad[:3]) or 'leaves found for %s only' % sorted(seen_kinds)), b.where(rows[0][2], rows[0][3]) if rows else b.where())


def rule_10_10(rep, fx):
    """Incompatible means not matched, also for an endpoint that was matched before and announces itself again with a changed QoS (raised F34: the incompatible arm sent its status
    and left the proxy in the match map)."""
    rep.rule('R10.10', 'incompatible => not matched: in Writer::update_reader_proxy / Reader::update_writer_proxy every path of the Some(policy) arm of compliance_failure_wrt passes '
                       'the removal of exactly that endpoint (reader_lost / remove_writer_proxy with the GUID of the proxy handed in), so an endpoint that re-announces itself with a '
                       'QoS that became incompatible does not stay matched')
    for key, remover, gfield in (('rtps::writer::Writer::update_reader_proxy', 'Writer::reader_lost', 'remote_reader_guid'),
                                 ('rtps::reader::Reader::update_writer_proxy', 'Reader::remove_writer_proxy', 'remote_writer_guid')):
        b = fx.find(key)
        rep.analysed(b)
        og = Origins(b, summaries=True)
        P = Pos(b)
        some = [(s_, t_) for s_, t_, c, lab in switch_edges(b, fx, og) if lab == 'Some' and c[0] == 'discr' and term_has(c, lambda x: x[0] == 'call' and x[1].endswith('compliance_failure_wrt'))
                and c[1][0] == 'call']
        rem = [(bb, 'term') for bb, t in b.calls() if call_matches(t, remover) and
               term_has(og.of_operand(t['args'][1], bb, 'term'), lambda x: x[0] == 'field' and x[1] == gfield and term_has(x, lambda y: y == ('param', 2)))]
        ok = bool(some) and bool(rem)
        for s_, t_ in some:
            for r in b.return_blocks():
                if not P.every_path_passes((t_, 0), (r, 'term'), via_pos=rem) and (t_, 'term') not in rem:
                    ok = False
        rep.check(ok, 'R10.10', '%s/incompatible-is-unmatched' % key.rsplit('::', 1)[-1], 'Some(policy) => %s(guid of the proxy) on every path' % remover,
                  '%s: on an incompatible verdict the endpoint is not taken out of the match map on every path: one that was matched and re-announces itself with a QoS that became '
                  'incompatible stays matched (data keeps flowing) while the incompatible-QoS status is sent' % key, b.where())
