"""C08  read/take honour DDS sample, view and instance semantics and History depth.

The instance-state machine, generation counters and KeepLast eviction depend on the whole
access history and are NOT decided. Decided are the effect table of read/take, the
per-writer ordering step and the monotonicity of the per-access generation marker.
"""
from rdv.core import (CheckBroken, Origins, Pos, call_matches, callee_res, natural_loops, norm_path, primary_edges,
                      resolve_captures, strip_generics, switch_edges, term_has, term_leaves, term_str)

CONFIGS = ['default']
LEVEL = 'other'

DSC = 'dds::with_key::datasample_cache::DataSampleCache::'
REMOVERS = ('remove', 'retain', 'split_off', 'pop_first', 'pop_last', 'clear', 'remove_entry', 'extract_if', 'drain', 'append')


def has_field(t, name):
    return term_has(t, lambda x: x[0] == 'field' and x[1] == name)


def has_call(t, suffix):
    return term_has(t, lambda x: x[0] == 'call' and x[1].endswith(suffix))


def run(rep, facts, tier):
    fx = facts['default']
    rep.explanation = ('Effect and must-call rules on the generic MIR of DataSampleCache<D>: read_* / select_* never remove from the sample store; take_* return exactly what they '
                       'remove; read_* mark every reported sample as read; both select functions sort by sequence number; within one access the recorded generation per instance '
                       'only moves forward; the instance marker is written from that record.')
    rep.assume('instance state, generation counts and KeepLast eviction over arbitrary histories are not decided')
    rep.rule('R08.1', 'read never removes: read_by_keys, read_bare_by_keys, select_keys_for_access, select_instance_keys_for_access contain no removing call on `datasamples`; '
                      'removal sites are exactly take_by_keys, take_bare_by_keys and add_sample (eviction)')
    rep.rule('R08.2', 'take returns what it removes: every element pushed to the result of take_* originates from datasamples.remove(ts) of the same iteration')
    rep.rule('R08.3', 'read marks: every iteration of read_* stores true into sample_has_been_read of the sample it reports')
    rep.rule('R08.4', 'order: both select_* functions call sort_by_sequence_number on the vector they return; the sort key is the stored sequence_number')
    rep.rule('R08.5', 'generation marker: record_instance_generation_viewed overwrites an entry only with a greater total(); mark_instances_viewed writes last_generation_accessed from that record')

    bodies = [b for b in fx.bodies if b.key.startswith(DSC[:-2])]
    removers = {}
    for b in bodies:
        og = None
        for bb, t in b.calls():
            last = callee_res(t).rsplit('::', 1)[-1]
            if last in REMOVERS and t['args']:
                og = og or Origins(b, summaries=False)
                r = og.of_operand(t['args'][0], bb, 'term')
                if r[0] == 'field' and r[1] == 'datasamples':
                    key = b.key if b.kind != 'closure' else b.encl
                    removers.setdefault(key, []).append((b, bb, last))
    allowed = {DSC + 'take_by_keys', DSC + 'take_bare_by_keys', DSC + 'add_sample'}
    for fn in ('read_by_keys', 'read_bare_by_keys', 'select_keys_for_access', 'select_instance_keys_for_access'):
        b = fx.find(DSC + fn)
        rep.analysed(b)
        bad = removers.get(b.key, [])
        rep.check(not bad, 'R08.1', '%s/no-removal' % fn, 'no removing call on datasamples', '%s removes samples from the cache (%s)' % (fn, [x[2] for x in bad]), b.where())
    for key in sorted(removers):
        b, bb, last = removers[key][0]
        rep.check(key in allowed, 'R08.1', '%s/removes' % key.rsplit('::', 1)[-1], 'one of take_by_keys / take_bare_by_keys / add_sample',
                  '%s removes samples from the cache although it is not a take or the eviction' % key, b.where(bb))
    rep.floor('R08.1', len(removers), 3, 'functions removing from datasamples')

    # R08.2
    for fn in ('take_by_keys', 'take_bare_by_keys'):
        b = fx.find(DSC + fn)
        rep.analysed(b)
        og = Origins(b, summaries=False)
        pushes = [(bb, t) for bb, t in b.calls() if callee_res(t).endswith('::push')]
        ok = bool(pushes)
        for bb, t in pushes:
            v = og.of_operand(t['args'][1], bb, 'term')
            rm = [x for x in term_leaves(v) if x[0] == 'call' and x[1].endswith('::remove') and has_field(x, 'datasamples')]
            ok = ok and bool(rm) and all(term_has(x[2][1], lambda y: y[0] == 'call' and y[1].endswith('::next')) for x in rm)
            # no sample taken from elsewhere (e.g. get)
            ok = ok and not term_has(v, lambda x: x[0] == 'call' and x[1].rsplit('::', 1)[-1] in ('get', 'get_mut') and has_field(x, 'datasamples'))
        rep.check(ok, 'R08.2', '%s/returns-removed' % fn, 'pushes the value returned by datasamples.remove(ts) of this iteration',
                  '%s returns a sample that is not the one it removed from the cache in that iteration' % fn, b.where())
        # each iteration removes: on the Some edge of the key iterator a remove happens before the next
        P = Pos(b)
        nxt = [(nb, 'term') for nb, t in b.calls() if callee_res(t).endswith('::next')]
        rms = [(rb, 'term') for rb, t in b.calls() if callee_res(t).endswith('::remove') and has_field(og.of_operand(t['args'][0], rb, 'term'), 'datasamples')]
        some = [(s_, t_) for s_, t_, cond, lab in switch_edges(b, fx, og) if lab == 'Some' and term_has(cond, lambda x: x[0] == 'call' and x[1].endswith('::next')) and not has_field(cond, 'datasamples')]
        ok2 = bool(some) and bool(rms)
        for s_, t_ in some:
            for nx in nxt:
                if P.can_reach((t_, 0), nx, avoid_pos=rms):
                    ok2 = False
        rep.check(ok2, 'R08.2', '%s/removes-each' % fn, 'every selected key is removed', '%s can skip removing a selected sample: it would be returned again by a later take' % fn, b.where())

    # R08.3
    for fn in ('read_by_keys', 'read_bare_by_keys'):
        b = fx.find(DSC + fn)
        og = Origins(b, summaries=False)
        P = Pos(b)
        stores = []
        for bb, si, st in b.statements():
            if st['s'] == 'assign':
                pr = st['lhs'].get('p') or []
                if pr and isinstance(pr[-1], dict) and pr[-1].get('n') == 'sample_has_been_read':
                    x = st['rv'].get('x') or {}
                    if st['rv']['r'] == 'use' and x.get('o') == 'const' and x['k'].get('v') == 1:
                        base = og.of_local(st['lhs']['l'], bb, si)
                        if term_has(base, lambda y: y[0] == 'call' and y[1].endswith('::get_mut') and has_field(y, 'datasamples')):
                            stores.append((bb, si))
        nxt = [(nb, 'term') for nb, t in b.calls() if callee_res(t).endswith('::next')]
        some = [(s_, t_) for s_, t_, cond, lab in primary_edges(b, list(switch_edges(b, fx, og))) if lab == 'Some' and cond[0] == 'discr' and cond[1][0] == 'call' and cond[1][1].endswith('::next')]
        # only the first loop (the marking pass) is required to mark: take the Some edges from which a get_mut on datasamples is reachable before next
        ok = bool(stores)
        marked_loops = 0
        for s_, t_ in some:
            reaches_getmut = any(P.can_reach((t_, 0), (gb, 'term'), avoid_pos=nxt) for gb, t in b.calls() if callee_res(t).endswith('::get_mut') and has_field(og.of_operand(t['args'][0], gb, 'term'), 'datasamples'))
            if not reaches_getmut:
                continue
            marked_loops += 1
            for nx in nxt:
                if P.can_reach((t_, 0), nx, avoid_pos=stores):
                    ok = False
        rep.check(ok and marked_loops >= 1, 'R08.3', '%s/marks-read' % fn, 'sample_has_been_read := true for every reported sample',
                  '%s does not mark every sample it reports as read' % fn, b.where())

    # R08.4
    for fn in ('select_keys_for_access', 'select_instance_keys_for_access'):
        b = fx.find(DSC + fn)
        og = Origins(b, summaries=False)
        P = Pos(b)
        sorts = [(bb, t) for bb, t in b.calls() if call_matches(t, 'DataSampleCache::sort_by_sequence_number')]
        ok = bool(sorts)
        # every returned non-empty vector: _0 defined from a local that was passed (by &mut) to sort
        rets = b.return_blocks()
        t0 = og.of_local(0, rets[0], 'term')
        alts = t0[1] if t0[0] == 'phi' else (t0,)
        for a in alts:
            if a[0] == 'call' and a[1].endswith('Vec::new'):
                continue   # the empty result of an unknown instance
            if not (a[0] == 'mutated' and has_call(a, '::collect')):
                ok = False
        for bb, t in sorts:
            arg = og.of_operand(t['args'][1], bb, 'term')
            ok = ok and has_call(arg, '::collect')
        rep.check(ok, 'R08.4', '%s/sorted' % fn, 'the collected keys are passed to sort_by_sequence_number before being returned',
                  '%s returns keys that were not sorted by sequence number: samples of one writer can appear out of order' % fn, b.where())
    sb = fx.find(DSC + 'sort_by_sequence_number')
    rep.analysed(sb)
    okk = False
    for c in fx.closures_of(sb):
        cog = Origins(c, summaries=False)
        rets = c.return_blocks()
        if rets:
            tv = cog.of_local(0, rets[0], 'term')
            if tv[0] == 'field' and tv[1] == 'sequence_number' and has_call(tv, '::get'):
                okk = True
    srt = any(callee_res(t).rsplit('::', 1)[-1] in ('sort_by_cached_key', 'sort_by_key', 'sort_unstable_by_key') for _, t in sb.calls())
    rep.check(okk and srt, 'R08.4', 'sort_by_sequence_number/key', 'sorts by datasamples[ts].sequence_number', 'sort_by_sequence_number does not sort by the stored sequence number', sb.where())

    # R08.5
    rg = fx.find(DSC + 'record_instance_generation_viewed')
    rep.analysed(rg)
    ok = False
    why = 'no guarded overwrite found'
    for c in [rg] + fx.closures_of(rg):
        cog = Origins(c, summaries=False)
        cP = Pos(c)
        stores = []
        for bb, si, st in c.statements():
            if st['s'] == 'assign' and st['lhs'].get('p') and st['lhs']['p'][0] == '*' and len(st['lhs']['p']) == 1:
                ty = c.locals[st['lhs']['l']]
                if 'NotAliveGenerationCounts' in ty:
                    stores.append((bb, si))
        if not stores:
            continue
        guards = []
        for s_, t_, cond, lab in switch_edges(c, fx, cog):
            cc = resolve_captures(fx, c, cond)
            if cc[0] == 'bin' and cc[1] in ('Gt', 'Lt', 'Ge', 'Le') and has_call(cc, 'NotAliveGenerationCounts::total'):
                a, b_ = cc[2], cc[3]
                new_a = term_has(a, lambda x: x[0] == 'captured')
                new_b = term_has(b_, lambda x: x[0] == 'captured')
                rel = cc[1]
                if not lab:
                    rel = {'Gt': 'Le', 'Lt': 'Ge', 'Ge': 'Lt', 'Le': 'Gt'}[rel]
                if (new_a and not new_b and rel == 'Gt') or (new_b and not new_a and rel == 'Lt'):
                    guards.append((s_, t_))
        ok = bool(guards) and all(cP.every_path_passes(None, s_, via_edges=guards, from_entry=True) for s_ in stores)
        why = 'the overwrite is not guarded by new.total() > old.total()'
    # no plain insert that overwrites
    plain = [t for bb, t in rg.calls() if callee_res(t).endswith('HashMap::<K, V, S>::insert') or (callee_res(t).endswith('::insert') and 'HashMap' in callee_res(t))]
    rep.check(ok and not plain, 'R08.5', 'record_instance_generation_viewed/monotone', 'an existing entry is overwritten only by a greater total()',
              'within one read/take the recorded generation of an instance can move backwards (%s): with samples of several writers sorted by sequence number the last one '
              'visited can be of an older generation, and the view state is then reported wrongly' % (why if not plain else 'plain insert overwrites'), rg.where())
    mv = fx.find(DSC + 'mark_instances_viewed')
    rep.analysed(mv)
    ogm = Origins(mv, summaries=False)
    okm = False
    for bb, si, st in mv.statements():
        if st['s'] == 'assign':
            pr = st['lhs'].get('p') or []
            if pr and isinstance(pr[-1], dict) and pr[-1].get('n') == 'last_generation_accessed':
                v = ogm._rvalue(st['rv'], bb, si, 0)
                base = ogm.of_local(st['lhs']['l'], bb, si)
                okm = term_has(v, lambda x: x[0] == 'call' and x[1].endswith('::next')) and has_call(base, '::get_mut') and has_field(base, 'instance_map')
    rep.check(okm, 'R08.5', 'mark_instances_viewed/writes-marker', 'instance_map[inst].last_generation_accessed := recorded generation',
              'mark_instances_viewed does not store the recorded generation into the instance\'s last_generation_accessed', mv.where())
    for fn in ('read_by_keys', 'take_by_keys', 'read_bare_by_keys', 'take_bare_by_keys'):
        b = fx.find(DSC + fn)
        P = Pos(b)
        mk = [(bb, 'term') for bb, t in b.calls() if call_matches(t, 'DataSampleCache::mark_instances_viewed')]
        rec = [(bb, 'term') for bb, t in b.calls() if call_matches(t, 'DataSampleCache::record_instance_generation_viewed')]
        ok = bool(mk) and bool(rec)
        # every non-empty access ends with mark_instances_viewed after the recording loop
        for r in rec:
            for rt in b.return_blocks():
                if P.can_reach(r, (rt, 'term'), avoid_pos=mk):
                    ok = False
        rep.check(ok, 'R08.5', '%s/viewed' % fn, 'records each accessed generation and marks the instances viewed', '%s does not record and mark the accessed generations on every path' % fn, b.where())
