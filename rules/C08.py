"""C08  read/take honour DDS sample, view and instance semantics and History depth.

The instance-state machine, generation counters and KeepLast eviction depend on the whole
access history and are NOT decided. Decided are the effect table of read/take, the
per-writer ordering step and the monotonicity of the per-access generation marker.
"""
from rdv.core import (CheckBroken, Origins, Pos, call_matches, callee_res, natural_loops, norm_path, primary_edges,
                      resolve_captures, strip_generics, switch_edges, term_has, term_leaves, term_str)

CONFIGS = ['default']
LEVEL = 'other'

DSC = 'dds::with_key::datasample_cache::DataSampleCache::'
REMOVERS = ('remove', 'retain', 'split_off', 'pop_first', 'pop_last', 'clear', 'remove_entry', 'extract_if', 'drain', 'append')


def has_field(t, name):
    return term_has(t, lambda x: x[0] == 'field' and x[1] == name)


def has_call(t, suffix):
    return term_has(t, lambda x: x[0] == 'call' and x[1].endswith(suffix))


def run(rep, facts, tier):
    fx = facts['default']
    rep.explanation = ('Effect and must-call rules on the generic MIR of DataSampleCache<D>: read_* / select_* never remove from the sample store; take_* return exactly what they '
                       'remove; read_* mark every reported sample as read; both select functions sort by sequence number; within one access the recorded generation per instance '
                       'only moves forward; the instance marker is written from that record.')
    rep.assume('the per-step mechanisms are decided; their composition over arbitrary access histories is argued, not computed')
    rep.rule('R08.1', 'read never removes: read_by_keys, read_bare_by_keys, select_keys_for_access, select_instance_keys_for_access contain no removing call on `datasamples`; '
                      'removal sites are exactly take_by_keys, take_bare_by_keys and add_sample (eviction)')
    rep.rule('R08.2', 'take returns what it removes: every element pushed to the result of take_* originates from datasamples.remove(ts) of the same iteration')
    rep.rule('R08.3', 'read marks: every iteration of read_* stores true into sample_has_been_read of the sample it reports')
    rep.rule('R08.4', 'order: both select_* functions call sort_by_sequence_number on the vector they return; the sort key is the stored sequence_number')
    rep.rule('R08.5', 'generation marker: record_instance_generation_viewed overwrites an entry only with a greater total(); mark_instances_viewed writes last_generation_accessed from that record')

    bodies = [b for b in fx.bodies if b.key.startswith(DSC[:-2])]
    removers = {}
    for b in bodies:
        og = None
        for bb, t in b.calls():
            last = callee_res(t).rsplit('::', 1)[-1]
            if last in REMOVERS and t['args']:
                og = og or Origins(b, summaries=False)
                r = og.of_operand(t['args'][0], bb, 'term')
                if r[0] == 'field' and r[1] == 'datasamples':
                    key = b.key if b.kind != 'closure' else b.encl
                    removers.setdefault(key, []).append((b, bb, last))
    allowed = {DSC + 'take_by_keys', DSC + 'take_bare_by_keys', DSC + 'add_sample'}
    for fn in ('read_by_keys', 'read_bare_by_keys', 'select_keys_for_access', 'select_instance_keys_for_access'):
        b = fx.find(DSC + fn)
        rep.analysed(b)
        bad = removers.get(b.key, [])
        rep.check(not bad, 'R08.1', '%s/no-removal' % fn, 'no removing call on datasamples', '%s removes samples from the cache (%s)' % (fn, [x[2] for x in bad]), b.where())
    for key in sorted(removers):
        b, bb, last = removers[key][0]
        rep.check(key in allowed, 'R08.1', '%s/removes' % key.rsplit('::', 1)[-1], 'one of take_by_keys / take_bare_by_keys / add_sample',
                  '%s removes samples from the cache although it is not a take or the eviction' % key, b.where(bb))
    rep.floor('R08.1', len(removers), 3, 'functions removing from datasamples')

    # R08.2
    for fn in ('take_by_keys', 'take_bare_by_keys'):
        b = fx.find(DSC + fn)
        rep.analysed(b)
        og = Origins(b, summaries=False)
        pushes = [(bb, t) for bb, t in b.calls() if callee_res(t).endswith('::push')]
        ok = bool(pushes)
        for bb, t in pushes:
            v = og.of_operand(t['args'][1], bb, 'term')
            rm = [x for x in term_leaves(v) if x[0] == 'call' and x[1].endswith('::remove') and has_field(x, 'datasamples')]
            ok = ok and bool(rm) and all(term_has(x[2][1], lambda y: y[0] == 'call' and y[1].endswith('::next')) for x in rm)
            # no sample taken from elsewhere (e.g. get)
            ok = ok and not term_has(v, lambda x: x[0] == 'call' and x[1].rsplit('::', 1)[-1] in ('get', 'get_mut') and has_field(x, 'datasamples'))
        rep.check(ok, 'R08.2', '%s/returns-removed' % fn, 'pushes the value returned by datasamples.remove(ts) of this iteration',
                  '%s returns a sample that is not the one it removed from the cache in that iteration' % fn, b.where())
        # each iteration removes: on the Some edge of the key iterator a remove happens before the next
        P = Pos(b)
        nxt = [(nb, 'term') for nb, t in b.calls() if callee_res(t).endswith('::next')]
        rms = [(rb, 'term') for rb, t in b.calls() if callee_res(t).endswith('::remove') and has_field(og.of_operand(t['args'][0], rb, 'term'), 'datasamples')]
        # the Some edge of the key iterator's own next() (not of a lookup that merely uses the iterated key)
        some = [(s_, t_) for s_, t_, cond, lab in switch_edges(b, fx, og) if lab == 'Some' and cond[0] == 'discr' and cond[1][0] == 'call' and cond[1][1].endswith('::next')
                and not has_field(cond, 'datasamples')]
        ok2 = bool(some) and bool(rms)
        for s_, t_ in some:
            for nx in nxt:
                if P.can_reach((t_, 0), nx, avoid_pos=rms):
                    ok2 = False
        rep.check(ok2, 'R08.2', '%s/removes-each' % fn, 'every selected key is removed', '%s can skip removing a selected sample: it would be returned again by a later take' % fn, b.where())

    # R08.3
    for fn in ('read_by_keys', 'read_bare_by_keys'):
        b = fx.find(DSC + fn)
        og = Origins(b, summaries=False)
        P = Pos(b)
        stores = []
        for bb, si, st in b.statements():
            if st['s'] == 'assign':
                pr = st['lhs'].get('p') or []
                if pr and isinstance(pr[-1], dict) and pr[-1].get('n') == 'sample_has_been_read':
                    x = st['rv'].get('x') or {}
                    if st['rv']['r'] == 'use' and x.get('o') == 'const' and x['k'].get('v') == 1:
                        base = og.of_local(st['lhs']['l'], bb, si)
                        if term_has(base, lambda y: y[0] == 'call' and y[1].endswith('::get_mut') and has_field(y, 'datasamples')):
                            stores.append((bb, si))
        nxt = [(nb, 'term') for nb, t in b.calls() if callee_res(t).endswith('::next')]
        some = [(s_, t_) for s_, t_, cond, lab in primary_edges(b, list(switch_edges(b, fx, og))) if lab == 'Some' and cond[0] == 'discr' and cond[1][0] == 'call' and cond[1][1].endswith('::next')]
        # only the first loop (the marking pass) is required to mark: take the Some edges from which a get_mut on datasamples is reachable before next
        ok = bool(stores)
        marked_loops = 0
        for s_, t_ in some:
            reaches_getmut = any(P.can_reach((t_, 0), (gb, 'term'), avoid_pos=nxt) for gb, t in b.calls() if callee_res(t).endswith('::get_mut') and has_field(og.of_operand(t['args'][0], gb, 'term'), 'datasamples'))
            if not reaches_getmut:
                continue
            marked_loops += 1
            for nx in nxt:
                if P.can_reach((t_, 0), nx, avoid_pos=stores):
                    ok = False
        rep.check(ok and marked_loops >= 1, 'R08.3', '%s/marks-read' % fn, 'sample_has_been_read := true for every reported sample',
                  '%s does not mark every sample it reports as read' % fn, b.where())

    # R08.4
    for fn in ('select_keys_for_access', 'select_instance_keys_for_access'):
        b = fx.find(DSC + fn)
        og = Origins(b, summaries=False)
        P = Pos(b)
        sorts = [(bb, t) for bb, t in b.calls() if call_matches(t, 'DataSampleCache::sort_by_sequence_number')]
        ok = bool(sorts)
        # every returned non-empty vector: _0 defined from a local that was passed (by &mut) to sort
        rets = b.return_blocks()
        t0 = og.of_local(0, rets[0], 'term')
        alts = t0[1] if t0[0] == 'phi' else (t0,)
        for a in alts:
            if a[0] == 'call' and a[1].endswith('Vec::new'):
                continue   # the empty result of an unknown instance
            if not (a[0] == 'mutated' and has_call(a, '::collect')):
                ok = False
        for bb, t in sorts:
            arg = og.of_operand(t['args'][1], bb, 'term')
            ok = ok and has_call(arg, '::collect')
        rep.check(ok, 'R08.4', '%s/sorted' % fn, 'the collected keys are passed to sort_by_sequence_number before being returned',
                  '%s returns keys that were not sorted by sequence number: samples of one writer can appear out of order' % fn, b.where())
    sb = fx.find(DSC + 'sort_by_sequence_number')
    rep.analysed(sb)
    okk = False
    for c in fx.closures_of(sb):
        cog = Origins(c, summaries=False)
        rets = c.return_blocks()
        if rets:
            tv = cog.of_local(0, rets[0], 'term')
            if tv[0] == 'field' and tv[1] == 'sequence_number' and has_call(tv, '::get'):
                okk = True
    srt = any(callee_res(t).rsplit('::', 1)[-1] in ('sort_by_cached_key', 'sort_by_key', 'sort_unstable_by_key') for _, t in sb.calls())
    rep.check(okk and srt, 'R08.4', 'sort_by_sequence_number/key', 'sorts by datasamples[ts].sequence_number', 'sort_by_sequence_number does not sort by the stored sequence number', sb.where())

    # R08.5
    rg = fx.find(DSC + 'record_instance_generation_viewed')
    rep.analysed(rg)
    ok = False
    why = 'no guarded overwrite found'
    for c in [rg] + fx.closures_of(rg):
        cog = Origins(c, summaries=False)
        cP = Pos(c)
        stores = []
        for bb, si, st in c.statements():
            if st['s'] == 'assign' and st['lhs'].get('p') and st['lhs']['p'][0] == '*' and len(st['lhs']['p']) == 1:
                ty = c.locals[st['lhs']['l']]
                if 'NotAliveGenerationCounts' in ty:
                    stores.append((bb, si))
        if not stores:
            continue
        guards = []
        for s_, t_, cond, lab in switch_edges(c, fx, cog):
            cc = resolve_captures(fx, c, cond)
            if cc[0] == 'bin' and cc[1] in ('Gt', 'Lt', 'Ge', 'Le') and has_call(cc, 'NotAliveGenerationCounts::total'):
                a, b_ = cc[2], cc[3]
                new_a = term_has(a, lambda x: x[0] == 'captured')
                new_b = term_has(b_, lambda x: x[0] == 'captured')
                rel = cc[1]
                if not lab:
                    rel = {'Gt': 'Le', 'Lt': 'Ge', 'Ge': 'Lt', 'Le': 'Gt'}[rel]
                if (new_a and not new_b and rel == 'Gt') or (new_b and not new_a and rel == 'Lt'):
                    guards.append((s_, t_))
        ok = bool(guards) and all(cP.every_path_passes(None, s_, via_edges=guards, from_entry=True) for s_ in stores)
        why = 'the overwrite is not guarded by new.total() > old.total()'
    # no plain insert that overwrites
    plain = [t for bb, t in rg.calls() if callee_res(t).endswith('HashMap::<K, V, S>::insert') or (callee_res(t).endswith('::insert') and 'HashMap' in callee_res(t))]
    rep.check(ok and not plain, 'R08.5', 'record_instance_generation_viewed/monotone', 'an existing entry is overwritten only by a greater total()',
              'within one read/take the recorded generation of an instance can move backwards (%s): with samples of several writers sorted by sequence number the last one '
              'visited can be of an older generation, and the view state is then reported wrongly' % (why if not plain else 'plain insert overwrites'), rg.where())
    mv = fx.find(DSC + 'mark_instances_viewed')
    rep.analysed(mv)
    ogm = Origins(mv, summaries=False)
    okm = False
    for bb, si, st in mv.statements():
        if st['s'] == 'assign':
            pr = st['lhs'].get('p') or []
            if pr and isinstance(pr[-1], dict) and pr[-1].get('n') == 'last_generation_accessed':
                v = ogm._rvalue(st['rv'], bb, si, 0)
                base = ogm.of_local(st['lhs']['l'], bb, si)
                okm = term_has(v, lambda x: x[0] == 'call' and x[1].endswith('::next')) and has_call(base, '::get_mut') and has_field(base, 'instance_map')
    rep.check(okm, 'R08.5', 'mark_instances_viewed/writes-marker', 'instance_map[inst].last_generation_accessed := recorded generation',
              'mark_instances_viewed does not store the recorded generation into the instance\'s last_generation_accessed', mv.where())
    # ... and only forward (raised F26): the store lies behind `recorded.total() > last_generation_accessed.total()` (or the value stored is a max of the two)
    Pm = Pos(mv)
    em = list(switch_edges(mv, fx, ogm))

    def _fwd(cond, lab):
        if cond[0] != 'bin' and cond[0] != 'call':
            return False
        op = cond[1] if cond[0] == 'bin' else cond[1].rsplit('::', 1)[-1].capitalize()
        a, b_ = (cond[2], cond[3]) if cond[0] == 'bin' else (cond[2][0], cond[2][1])
        new_a = term_has(a, lambda x: x[0] == 'call' and x[1].endswith('::next')) and not term_has(a, lambda x: x[0] == 'field' and x[1] == 'last_generation_accessed')
        old_a = term_has(a, lambda x: x[0] == 'field' and x[1] == 'last_generation_accessed')
        new_b = term_has(b_, lambda x: x[0] == 'call' and x[1].endswith('::next')) and not term_has(b_, lambda x: x[0] == 'field' and x[1] == 'last_generation_accessed')
        old_b = term_has(b_, lambda x: x[0] == 'field' and x[1] == 'last_generation_accessed')
        if new_a and old_b:
            return (op in ('Gt', 'Ge') and lab is True) or (op in ('Le', 'Lt') and lab is False)
        if old_a and new_b:
            return (op in ('Lt', 'Le') and lab is True) or (op in ('Ge', 'Gt') and lab is False)
        return False
    fwd = [(s_, t_) for s_, t_, cond, lab in em if isinstance(lab, bool) and _fwd(cond, lab)]
    okf = False
    for bb, si, st in mv.statements():
        if st['s'] == 'assign':
            pr = st['lhs'].get('p') or []
            if pr and isinstance(pr[-1], dict) and pr[-1].get('n') == 'last_generation_accessed':
                v = ogm._rvalue(st['rv'], bb, si, 0)
                okf = (bool(fwd) and Pm.every_path_passes(None, (bb, si), via_edges=fwd, from_entry=True)) or \
                    term_has(v, lambda x: x[0] == 'call' and x[1].rsplit('::', 1)[-1] == 'max' and term_has(x, lambda y: y[0] == 'field' and y[1] == 'last_generation_accessed'))
    rep.check(okf, 'R08.5', 'mark_instances_viewed/only-forward', 'last_generation_accessed is overwritten only by a greater generation',
              'mark_instances_viewed overwrites last_generation_accessed with whatever the current access touched: a read or take of only older samples of the instance moves it back '
              'and the most recent sample is reported with ViewState::New again', mv.where())
    for fn in ('read_by_keys', 'take_by_keys', 'read_bare_by_keys', 'take_bare_by_keys'):
        b = fx.find(DSC + fn)
        P = Pos(b)
        mk = [(bb, 'term') for bb, t in b.calls() if call_matches(t, 'DataSampleCache::mark_instances_viewed')]
        rec = [(bb, 'term') for bb, t in b.calls() if call_matches(t, 'DataSampleCache::record_instance_generation_viewed')]
        ok = bool(mk) and bool(rec)
        # every non-empty access ends with mark_instances_viewed after the recording loop
        for r in rec:
            for rt in b.return_blocks():
                if P.can_reach(r, (rt, 'term'), avoid_pos=mk):
                    ok = False
        rep.check(ok, 'R08.5', '%s/viewed' % fn, 'records each accessed generation and marks the instances viewed', '%s does not record and mark the accessed generations on every path' % fn, b.where())

    rule_08_6(rep, fx)

    # ------------------------------------------------------------ R08.10 crossed roles (shared lint, rdv/swaplint.py)
    from rdv import swaplint
    swaplint.run_rule(rep, facts['default'], 'R08.10', ['dds::with_key::datasample_cache', 'dds::with_key::datareader', 'dds::no_key::datareader', 'dds::sampleinfo'])


def rule_08_6(rep, fx):
    """Instance state machine of DDS 1.4 2.2.2.5.1 as implemented in add_sample, decided exhaustively over (old state, new state) by
    store-aware evaluation of every path of the `match (old, new)`."""
    from rdv.sympath import SymPath, lin
    rep.rule('R08.6', 'instance state machine: in add_sample, for every (old instance state, new state) the generation counters change exactly as DDS 1.4 2.2.2.5.1 says '
                      '(NotAliveDisposed -> Alive: disposed_generation_count + 1; NotAliveNoWriters -> Alive: no_writers_generation_count + 1; nothing else), the state becomes the new '
                      'state on every path, Value maps to Alive and Dispose to NotAliveDisposed, a new instance starts at zero counts, and the stored sample carries the counts after the update')
    b = fx.find('dds::with_key::datasample_cache::DataSampleCache::add_sample')
    rep.analysed(b)
    names = b.local_names()
    inv = {v: k for k, v in names.items()}
    if 'new_instance_state' not in inv:
        raise CheckBroken('add_sample: local new_instance_state not found')
    nis = inv['new_instance_state']
    STATE = 'dds::sampleinfo::InstanceState'
    # the switch on the old state and the tuple it inspects
    sw = []
    for bb, si, st in b.statements():
        if st['s'] == 'assign' and st['rv']['r'] == 'discr' and strip_generics(st['rv'].get('ty') or '') == STATE:
            sw.append((bb, st['rv']['pl']['l']))
    if not sw:
        raise CheckBroken('add_sample: no match on InstanceState')
    first_sw, base_local = sorted(sw)[0]
    defs = [bb for bb, si, st in b.statements() if st['s'] == 'assign' and st['lhs']['l'] == base_local and not st['lhs'].get('p')]
    stores = [(bb, si) for bb, si, st in b.statements() if st['s'] == 'assign' and (st['lhs'].get('p') or []) and isinstance(st['lhs']['p'][-1], dict)
              and st['lhs']['p'][-1].get('n') == 'instance_state' and bb > first_sw]
    if len(defs) != 1 or len(stores) != 1:
        raise CheckBroken('add_sample: match operand definition (%d) / instance_state store (%d) not unique' % (len(defs), len(stores)))
    sp = SymPath(b, fx)
    tb, tsi = stores[0]
    table = {}
    n_paths = 0
    bad = []
    for path in sp.paths(defs[0], tb, through_heads=False):
        n_paths += 1
        st = sp.run(path, tsi + 1)
        old = new = None
        for val, vnames, positive in st.variants:
            is_new = val == ('init', (('L', nis),))
            if positive:
                if is_new:
                    new = vnames[0] if vnames else None
                else:
                    old = vnames[0] if vnames else None
            elif is_new:
                new = 'not ' + '/'.join(vnames)
        incs = []
        state_store = None
        for key, o, nw, sbb, ssi in st.stores:
            f = key[-1][1] if key and key[-1][0] == 'f' else None
            if f in ('disposed_generation_count', 'no_writers_generation_count'):
                bo, ko = lin(o)
                bn, kn = lin(nw)
                incs.append((f, kn - ko if bo == bn else None))
            if f == 'instance_state':
                state_store = nw
        table.setdefault((old, new), set()).add(tuple(sorted(incs)))
        if state_store != ('init', (('L', nis),)):
            bad.append('on the path %s -> %s the state is not set to the new state' % (old, new))
    want = {}
    for (old, new), v in table.items():
        exp = ()
        if old == 'NotAliveDisposed' and new == 'Alive':
            exp = (('disposed_generation_count', 1),)
        if old == 'NotAliveNoWriters' and new == 'Alive':
            exp = (('no_writers_generation_count', 1),)
        want[(old, new)] = {exp}
        if v != {exp}:
            bad.append('%s -> %s changes the counters by %s, expected %s' % (old, new, sorted(v), list(exp)))
    # the state store is on every path from the match to the insertion of the sample
    aggs = [(bb, si) for bb, si, st in b.statements() if st['s'] == 'assign' and st['rv']['r'] == 'agg' and strip_generics(str(st['rv'].get('adt'))).endswith('SampleWithMetaData')]
    P0 = Pos(b)
    for a in aggs:
        if not P0.every_path_passes((defs[0], 0), a, via_pos=[(tb, tsi)]):
            bad.append('a path from the state match to the insertion of the sample skips `instance_state = new state`')
    olds = set(o for o, _n in table)
    if not {'Alive', 'NotAliveDisposed', 'NotAliveNoWriters'} <= olds:
        bad.append('not every old state is covered: %s' % sorted(str(x) for x in olds))
    rep.check(not bad and n_paths >= 5, 'R08.6', 'add_sample/transitions', '%d path(s), %d (old, new) cases match DDS 1.4 2.2.2.5.1' % (n_paths, len(table)),
              'add_sample does not follow the DDS instance state machine: %s' % '; '.join(bad[:3]), b.where(first_sw))
    # Value -> Alive, Dispose -> NotAliveDisposed
    og = Origins(b, summaries=False)
    pair = {}
    edges = list(switch_edges(b, fx, og))
    P = Pos(b)
    for bb, si, st in b.statements():
        if st['s'] == 'assign' and st['lhs']['l'] == nis and not st['lhs'].get('p') and st['rv']['r'] == 'agg':
            v = st['rv'].get('variant')
            for s_, t_, cond, lab in edges:
                if cond[0] == 'discr' and lab in ('Value', 'Dispose') and (t_ == bb or P.every_path_passes(None, (bb, si), via_edges=[(s_, t_)], from_entry=True)) and \
                        term_has(cond, lambda x: x == ('param', 2)):
                    pair[lab] = v
    rep.check(pair == {'Value': 'Alive', 'Dispose': 'NotAliveDisposed'}, 'R08.6', 'add_sample/new-state', 'Value -> Alive, Dispose -> NotAliveDisposed',
              'add_sample maps the sample kind to the wrong instance state (%s)' % pair, b.where())
    # new instance record and stored sample
    for bb, si, st in b.statements():
        if st['s'] == 'assign' and st['rv']['r'] == 'agg' and strip_generics(str(st['rv'].get('adt'))).endswith('InstanceMetaData'):
            f = dict(zip(st['rv']['fields'], [og.of_operand(o, bb, si) for o in st['rv']['ops']]))
            ok = term_has(f['latest_generation_available'], lambda x: x[0] == 'call' and x[1].endswith('NotAliveGenerationCounts::zero')) and \
                term_has(f['last_generation_accessed'], lambda x: x[0] == 'call' and x[1].endswith('NotAliveGenerationCounts::sub_zero')) and \
                term_has(f['instance_state'], lambda x: x[0] == 'agg' and str(x[1]).startswith(STATE))
            rep.check(ok, 'R08.6', 'add_sample/new-instance', 'new instance: counts zero, never accessed, state = new state',
                      'a new instance does not start with zero generation counts / never-accessed marker / the new state', b.where(bb, si))
        if st['s'] == 'assign' and st['rv']['r'] == 'agg' and strip_generics(str(st['rv'].get('adt'))).endswith('SampleWithMetaData'):
            # evaluated store-aware: generation_counts must be the counters after the update of this path
            okp = True
            np_ = 0
            for path in sp.paths(defs[0], bb, through_heads=False):
                np_ += 1
                s2 = sp.run(path, si)
                v = sp.rvalue(s2, st['rv'], bb)
                fields = v[4]
                gc = v[3][fields.index('generation_counts')]
                read_flag = v[3][fields.index('sample_has_been_read')]
                # the value read is the record's latest_generation_available with this path's increments applied
                stored_inc = [(k, nw) for k, o, nw, _b, _s in s2.stores if k and k[-1][0] == 'f' and k[-1][1] in ('disposed_generation_count', 'no_writers_generation_count')]
                if stored_inc:
                    okp = okp and gc[0] == 'upd' and all(any(sub[-1] == k[-1] and v == nw for sub, v in gc[2]) for k, nw in stored_inc)
                else:
                    okp = okp and gc[0] == 'init'
                okp = okp and 'latest_generation_available' in str(gc) and read_flag == ('c', 0)
            rep.check(okp and np_ > 0, 'R08.6', 'add_sample/sample-counts', 'stored sample: generation counts after the update (%d paths), not yet read' % np_,
                      'the stored sample does not carry the instance\'s generation counts after this sample\'s update, or is stored as already read', b.where(bb, si))

    rule_08_7(rep, fx)


def rule_08_7(rep, fx):
    """KeepLast(depth): after add_sample at most `depth` samples of the instance remain, and the ones dropped are the oldest."""
    from rdv.poly import poly, freeze, atom
    rep.rule('R08.7', 'History depth: add_sample keeps KeepLast{depth} -> depth, no History policy -> 1, KeepAll -> no limit (then max_samples_per_instance); when the instance holds more it '
                      'removes exactly len - keep samples, taken from the front of the instance\'s ascending timestamp set (the oldest), from both the instance index and the sample store, '
                      'and only under len - keep > 0')
    b = fx.find('dds::with_key::datasample_cache::DataSampleCache::add_sample')
    og = Origins(b, summaries=False)
    P = Pos(b)
    edges = list(switch_edges(b, fx, og))
    # (a) the limit
    ors = [(bb, t) for bb, t in b.calls() if strip_generics(callee_res(t)).endswith('Option::or')]
    ok_lim = False
    why = 'no `history limit .or(resource limit)` found'
    if len(ors) == 1:
        bb, t = ors[0]
        h, r = og.of_operand(t['args'][0], bb, 'term'), og.of_operand(t['args'][1], bb, 'term')
        alts = set()
        if h[0] == 'phi':
            for a in h[1]:
                if a[0] == 'agg' and str(a[1]).endswith('Option::Some') and a[2]:
                    v = a[2][0]
                    if v == ('const', 'int', 1):
                        alts.add('default-1')
                    elif term_has(v, lambda x: x[0] == 'field' and x[1] == 'depth' and term_has(x, lambda y: y[0] == 'variant' and y[1] == 'KeepLast')):
                        alts.add('depth')
                    else:
                        alts.add('other:' + term_str(v)[:40])
                elif a[0] == 'agg' and str(a[1]).endswith('Option::None'):
                    alts.add('none')
        # which arm produces which alternative: KeepLast edge -> Some(depth), KeepAll edge -> None, None edge -> Some(1)
        arm = {}
        for bb2, si2, st2 in b.statements():
            if st2['s'] == 'assign' and st2['rv']['r'] == 'agg' and str(st2['rv'].get('adt', '')).endswith('option::Option') and b.locals[st2['lhs']['l']].replace(' ', '') in ('std::option::Option<i32>',):
                for s_, t_, cond, lab in edges:
                    if cond[0] == 'discr' and term_has(cond, lambda x: x[0] == 'call' and x[1].endswith('::history')) and lab in ('KeepLast', 'KeepAll', 'None') and \
                            (t_ == bb2 or P.every_path_passes(None, (bb2, si2), via_edges=[(s_, t_)], from_entry=True)):
                        v = st2['rv'].get('variant')
                        o = og.of_operand(st2['rv']['ops'][0], bb2, si2) if st2['rv']['ops'] else None
                        arm[lab] = 'none' if v == 'None' else ('default-1' if o == ('const', 'int', 1) else 'depth' if o and term_has(o, lambda x: x[0] == 'field' and x[1] == 'depth') else 'other')
        ok_lim = alts == {'default-1', 'depth', 'none'} and arm == {'KeepLast': 'depth', 'KeepAll': 'none', 'None': 'default-1'} and \
            term_has(r, lambda x: x[0] == 'field' and x[1] == 'max_samples_per_instance')
        why = 'alternatives %s, arms %s' % (sorted(alts), arm)
    rep.check(ok_lim, 'R08.7', 'add_sample/limit', 'KeepLast -> depth, none -> 1, KeepAll -> none; then max_samples_per_instance',
              'the number of samples kept per instance is not History depth (default 1, KeepAll unlimited) falling back to max_samples_per_instance: %s' % why, b.where())
    # (b) how many and which
    takes = [(bb, t) for bb, t in b.calls() if strip_generics(callee_res(t)).endswith('Iterator::take')]
    ok_take = False
    why = 'no take()'
    if len(takes) == 1 and ors:
        bb, t = takes[0]
        src, cnt = og.of_operand(t['args'][0], bb, 'term'), og.of_operand(t['args'][1], bb, 'term')
        from_front = src[0] == 'call' and src[1].endswith('BTreeSet::iter') and term_has(src, lambda x: x[0] == 'field' and x[1] == 'instance_samples')
        pc = poly(cnt)
        # len(instance_samples) - keep, keep = payload of the Some edge of the or()
        lens = [a for m in pc for a in m if a[0] == 'call' and a[1].endswith('::len')]
        # the number of timestamps of the instance whose sample is (still) in the main table is the same number as long as the two stores are in step (R08.13, decided
        # in this same run): count(filter(instance_samples.iter(), |ts| datasamples.contains_key(ts))) is read as len(instance_samples)
        if not lens:
            for m in [tuple(_calls_in(cnt))]:
                for a in m:
                    if a[0] == 'call' and a[1].endswith('::count') and term_has(a, lambda x: x[0] == 'call' and x[1].endswith('::filter')) and \
                            term_has(a, lambda x: x[0] == 'field' and x[1] == 'instance_samples') and not term_has(a, lambda x: x[0] == 'call' and x[1].rsplit('::', 1)[-1] in ('take', 'skip', 'take_while', 'skip_while', 'step_by')):
                        cls = [c for c in fx.closures_of(b) if c.key in str(a)]
                        if len(cls) == 1:
                            oc = Origins(cls[0], summaries=False)
                            r0 = resolve_captures(fx, cls[0], oc.of_local(0, cls[0].return_blocks()[0], 'term'), summaries=False)
                            if r0[0] == 'call' and r0[1].endswith('::contains_key') and term_has(r0[2][0], lambda x: x[0] == 'field' and x[1] == 'datasamples') and \
                                    term_has(r0[2][1], lambda x: x[0] == 'param' and x[1] == 2):
                                lens = [a]
        keep = [a for m, c in pc.items() if c == -1 for a in m]
        ok_cnt = len(pc) == 2 and len(lens) == 1 and 'instance_samples' in str(lens[0]) and len(keep) == 1 and 'Option::or' in str(keep[0]) and sorted(pc.values()) == [-1, 1]
        guard = [(s_, t_) for s_, t_, cond, lab in edges if lab is True and cond[0] == 'bin' and cond[1] == 'Gt' and cond[3] == ('const', 'int', 0) and freeze(poly(cond[2])) == freeze(pc)]
        ok_guard = bool(guard) and P.every_path_passes(None, (bb, 'term'), via_edges=guard, from_entry=True)
        ok_take = from_front and ok_cnt and ok_guard
        why = 'from the front of instance_samples: %s; count = len - keep: %s; under count > 0: %s' % (from_front, ok_cnt, ok_guard)
    rep.check(ok_take, 'R08.7', 'add_sample/evict-oldest', 'removes the first len - keep timestamps of the instance, only if positive',
              'eviction does not remove exactly the len - keep oldest samples of the instance (%s)' % why, b.where())
    # (c) both stores
    rm = {}
    for bb, t in b.calls():
        r = strip_generics(callee_res(t))
        if r.endswith(('BTreeSet::remove', 'BTreeMap::remove')):
            tgt = og.of_operand(t['args'][0], bb, 'term')
            k = og.of_operand(t['args'][1], bb, 'term')
            from_take = term_has(k, lambda x: x[0] == 'call' and x[1].endswith('Iterator::take'))
            if term_has(tgt, lambda x: x[0] == 'field' and x[1] == 'instance_samples'):
                rm['instance_samples'] = from_take
            if term_has(tgt, lambda x: x[0] == 'field' and x[1] == 'datasamples'):
                rm['datasamples'] = from_take
    rep.check(rm == {'instance_samples': True, 'datasamples': True}, 'R08.7', 'add_sample/evict-both', 'each evicted timestamp is removed from the instance index and from the sample store',
              'an evicted sample is not removed from both the instance index and the sample store (%s): it stays available, or stays counted' % rm, b.where())

    rule_08_8(rep, fx)
    rule_sort_before_limit(rep, fx, 'R08.9')
    rule_08_11(rep, fx)
    rule_08_12(rep, fx)
    rule_08_13(rep, fx)
    rule_08_14(rep, fx)
    rule_08_15(rep, fx)
    rule_08_16(rep, fx)


def rule_08_8(rep, fx):
    """A read condition selects exactly the matching samples: sample_selector, path by path, against the reference formula; and the states it tests are the
    states make_sample_info reports."""
    from rdv.sympath import SymPath
    rep.rule('R08.8', 'read condition: on every path of sample_selector the result equals (sample mask is any OR contains(Read if the sample was read else NotRead)) AND (view mask is any OR '
                      'contains(New if sample generation total > last accessed total else NotNew)) AND (instance mask is any OR contains(the instance\'s state)); make_sample_info reports '
                      'sample and view state by the same two tests')
    b = fx.find('dds::with_key::datasample_cache::DataSampleCache::sample_selector')
    rep.analysed(b)
    sp = SymPath(b, fx)
    rets = b.return_blocks()
    if len(rets) != 1:
        raise CheckBroken('sample_selector: %d return blocks' % len(rets))

    def has_call(t, suffix):
        return suffix in str(t)

    def which_mask(t):
        s = str(t)
        for k, nm in (('s', 'sample_state_mask'), ('v', 'view_state_mask'), ('i', 'instance_state_mask')):
            if nm in s:
                return k
        return None
    bad = []
    n_paths = 0
    for path in sp.paths(0, rets[0]):
        n_paths += 1
        st = sp.run(path, 'term')
        ret = sp.read_key(st, (('L', 0),))
        A = {}
        r = g = None
        for _tag, bb, x, taken in st.trace:
            truth = not (taken == [0]) if isinstance(taken, list) else True      # bool switch: arm 0 = false, otherwise = true
            if x[0] == 'call' and x[1].endswith('::eq') and len(x[2]) == 2 and 'any' in str(x[2][1]):
                k = which_mask(x[2][0])
                if k:
                    A['e' + k] = truth
            elif x[0] == 'call' and x[1].endswith('::contains') and len(x[2]) == 2:
                k = which_mask(x[2][0])
                arg = x[2][1]
                if k == 's':
                    want = 'Read' if r else 'NotRead'
                    if not (arg[0] == 'agg' and arg[2] == want) or r is None:
                        bad.append('sample-state test uses %s where the sample is %s' % (arg[2] if arg[0] == 'agg' else str(arg)[:40], 'read' if r else 'not read'))
                if k == 'v':
                    want = 'New' if g else 'NotNew'
                    if not (arg[0] == 'agg' and arg[2] == want) or g is None:
                        bad.append('view-state test uses %s where the sample is %s' % (arg[2] if arg[0] == 'agg' else str(arg)[:40], 'new' if g else 'not new'))
                if k:
                    A['c' + k] = truth
            elif x[0] == 'init' and x[1] and x[1][-1] == ('f', 'sample_has_been_read'):
                r = truth
            elif x[0] == 'bin' and x[1] in ('Gt', 'Lt'):
                a_, b_ = (x[2], x[3]) if x[1] == 'Gt' else (x[3], x[2])
                okg = 'total' in str(a_) and 'generation_counts' in str(a_) and 'total' in str(b_) and 'last_generation_accessed' in str(b_)
                if not okg:
                    bad.append('the "new" test does not compare the sample\'s generation total with the instance\'s last accessed total')
                g = truth
        # the returned value
        if ret == ('c', 1):
            rv = True
        elif ret == ('c', 0):
            rv = False
        elif ret[0] == 'call' and ret[1].endswith('::contains') and which_mask(ret[2][0]) == 'i':
            rv = 'ci'
            if 'instance_state' not in str(ret[2][1]):
                bad.append('instance-state test does not use the instance\'s state')
        else:
            rv = 'other'
        conj = []
        for k in ('s', 'v', 'i'):
            e = A.get('e' + k)
            if e is True:
                conj.append(True)
            elif e is False:
                c = A.get('c' + k)
                conj.append(c if c is not None else ('c' + k))
            else:
                conj.append(None)
        if any(c is False for c in conj):
            ref = False
        elif all(c is True for c in conj):
            ref = True
        elif conj[:2] == [True, True] and conj[2] == 'ci':
            ref = 'ci'
        else:
            ref = 'undetermined'
        if ref != rv:
            bad.append('a path returns %s where the formula gives %s (decisions %s)' % (rv, ref, sorted(A.items())))
    rep.check(not bad and n_paths >= 8, 'R08.8', 'sample_selector/formula', '%d paths agree with the reference formula' % n_paths,
              'sample_selector does not select exactly the samples matching the read condition: %s' % '; '.join(sorted(set(bad))[:3]), b.where())
    # make_sample_info reports by the same tests
    m = fx.find('dds::with_key::datasample_cache::DataSampleCache::make_sample_info')
    rep.analysed(m)
    og = Origins(m, summaries=False)
    P = Pos(m)
    edges = list(switch_edges(m, fx, og))
    okm = {}
    for bb, si, st in m.statements():
        if st['s'] == 'assign' and st['rv']['r'] == 'agg' and strip_generics(str(st['rv'].get('adt'))) in ('dds::sampleinfo::SampleState', 'dds::sampleinfo::ViewState'):
            v = st['rv'].get('variant')
            for s_, t_, cond, lab in edges:
                if lab not in (True, False) or not (t_ == bb or P.every_path_passes(None, (bb, si), via_edges=[(s_, t_)], from_entry=True)):
                    continue
                if cond[0] == 'field' and cond[1] == 'sample_has_been_read':
                    okm[v] = (lab, 'read')
                if cond[0] == 'bin' and cond[1] == 'Gt' and 'generation_counts' in term_str(cond[2]) and 'last_generation_accessed' in term_str(cond[3]):
                    okm[v] = (lab, 'new')
    want = {'Read': (True, 'read'), 'NotRead': (False, 'read'), 'New': (True, 'new'), 'NotNew': (False, 'new')}
    rep.check(okm == want, 'R08.8', 'make_sample_info/states', 'Read/NotRead by sample_has_been_read, New/NotNew by generation total > last accessed total',
              'make_sample_info reports sample / view state by other tests than the selector uses (%s)' % okm, m.where())


SELECTING_ADAPTORS = ('iter', 'values', 'keys', 'into_iter', 'filter', 'filter_map', 'map', 'copied', 'cloned', 'collect', 'flat_map', 'flatten', 'chain', 'inspect', 'by_ref')


def rule_sort_before_limit(rep, fx, rid):
    """Shared by C08 (R08.9) and C01 (R01.8): a bounded read returns the lowest sequence numbers, not the earliest arrivals: nothing limits the selection before it is
    sorted, and the callers cut the sorted vector."""
    rep.rule(rid, 'limit after order: in select_keys_for_access / select_instance_keys_for_access the vector handed to sort_by_sequence_number is collected from an iterator chain of '
                  'selecting adaptors only (no take / skip / take_while / rev / step_by before the sort), and the DataReader applies max_samples to the sorted vector')
    for nm in ('select_keys_for_access', 'select_instance_keys_for_access'):
        b = fx.find('dds::with_key::datasample_cache::DataSampleCache::' + nm)
        rep.analysed(b)
        og = Origins(b, summaries=False)
        n = 0
        for bb, t in b.calls():
            if not callee_res(t).endswith('sort_by_sequence_number'):
                continue
            n += 1
            v = og.of_operand(t['args'][1], bb, 'term')
            bad = []

            def walk(x, d=0):
                if d > 30 or not isinstance(x, tuple):
                    return
                if x and x[0] == 'call' and ('iter::' in x[1] or 'Iterator' in x[1] or 'BTreeMap::' in x[1] or 'BTreeSet::' in x[1] or 'Vec' in x[1]):
                    last = x[1].rsplit('::', 1)[-1]
                    if last not in SELECTING_ADAPTORS and last not in ('get', 'new', 'deref', 'deref_mut', 'as_mut', 'as_ref'):
                        bad.append(last)
                    for a in x[2][:1]:
                        walk(a, d + 1)
                elif x and x[0] in ('mutated', 'field', 'variant', 'phi'):
                    for y in x[1:]:
                        if isinstance(y, tuple):
                            walk(y, d + 1)
            walk(v)
            rep.check(not bad, rid, '%s/unlimited-before-sort' % nm, 'sorted vector = collect of a purely selecting iterator chain',
                      '%s limits or reorders the selection (%s) before sorting by sequence number: a bounded read (take_next_sample, take(n), the async streams) returns the earliest '
                      "received samples instead of the lowest sequence numbers, so a writer's samples come out of order" % (nm, ', '.join(sorted(set(bad)))), b.where(bb))
        if n == 0:
            rep.violation(rid, '%s/unlimited-before-sort' % nm, '%s does not sort its selection' % nm, b.where())
    # callers: max_samples is applied by truncate on the returned (sorted) vector
    n_tr = 0
    for b in fx.bodies:
        if not b.key.startswith('dds::with_key::datareader::DataReader::') or b.kind not in ('fn', 'assoc_fn'):
            continue
        og = None
        for bb, t in b.calls():
            if strip_generics(callee_res(t)).endswith('Vec::truncate'):
                og = og or Origins(b, summaries=True)
                v = og.of_operand(t['args'][0], bb, 'term')
                if term_has(v, lambda x: x[0] == 'call' and x[1].endswith(('select_keys_for_access', 'select_instance_keys_for_access'))):
                    n_tr += 1
    rep.check(n_tr >= 6, rid, 'DataReader/truncate-after-select', '%d bounded accesses truncate the sorted selection' % n_tr,
              'only %d of the bounded DataReader accesses cut the selection after it was sorted (6 on the reference tree)' % n_tr, '')


def rule_08_11(rep, fx):
    """read* must not consume, take* must: the DataReader entry points and the no_key wrappers call the access primitive of their own kind."""
    rep.rule('R08.11', 'read/take pairing at the DataReader layer: every with_key DataReader method named read* reaches the cache only through read_*_by_keys (never take_*), every take* only '
                       'through take_*_by_keys; *_instance use the instance selection; *_next_sample ask for one NotRead sample of their own kind; each no_key method forwards to the '
                       'with_key method of the same name')
    n = 0
    for b in fx.bodies:
        if b.kind not in ('fn', 'assoc_fn'):
            continue
        wk = b.key.startswith('dds::with_key::datareader::DataReader::')
        nk = b.key.startswith('dds::no_key::datareader::DataReader::')
        if not (wk or nk):
            continue
        name = b.name
        kind = 'read' if name.startswith('read') else 'take' if name.startswith('take') else None
        if kind is None or name.endswith('_by_keys') or 'notification' in name:
            continue
        other = 'take' if kind == 'read' else 'read'
        callees = [strip_generics(callee_res(t)) for _bb, t in b.calls()]
        acc = [c for c in callees if c.rsplit('::', 1)[-1].startswith(('read', 'take')) and ('DataReader' in c or 'DataSampleCache' in c or c.startswith('dds::'))]
        acc_names = [c.rsplit('::', 1)[-1] for c in acc]
        n += 1
        rep.analysed(b)
        same = [a for a in acc_names if a.startswith(kind)]
        wrong = [a for a in acc_names if a.startswith(other)]
        ok = bool(same) and not wrong
        detail = 'calls %s' % sorted(set(acc_names))
        if wk and name.endswith('_instance'):
            ok = ok and any(c.endswith('select_instance_keys_for_access') for c in callees)
        elif wk and not name.endswith('_next_sample'):
            ok = ok and any(c.endswith('select_keys_for_access') for c in callees)
        if name.endswith('_next_sample'):
            ok = ok and any(c.endswith('ReadCondition::not_read') for c in callees) and same == [kind]
            og = Origins(b)
            for bb, t in b.calls():
                if strip_generics(callee_res(t)).rsplit('::', 1)[-1] == kind and len(t['args']) >= 2:
                    ok = ok and og.of_operand(t['args'][1], bb, 'term') == ('const', 'int', 1)
        if nk and not name.endswith('_next_sample'):
            # forwards to the keyed method of the same name
            ok = ok and any(c.startswith('dds::with_key::datareader::DataReader') and c.rsplit('::', 1)[-1] == name for c in callees)
        rep.check(ok, 'R08.11', '%s::%s' % ('with_key' if wk else 'no_key', name), detail,
                  '%s reaches the sample cache through %s: a read that removes samples, a take that leaves them, or the wrong selection' % (b.key, sorted(set(acc_names)) or 'nothing'), b.where())
    rep.floor('R08.11', n, 12, 'read*/take* entry points of the with_key and no_key DataReader')


def rule_08_12(rep, fx):
    rep.rule('R08.12', 'next instance: DataSampleCache::next_key(key) is the first element of instance_map.range((Excluded(key), Unbounded)) - the smallest instance strictly greater '
                       'than the key whether or not the key itself is an instance (no positional skipping)')
    b = fx.find('dds::with_key::datasample_cache::DataSampleCache::next_key')
    rep.analysed(b)
    og = Origins(b)
    t = og.of_local(0, b.return_blocks()[0], 'term')
    rng = []
    term_has(t, lambda x: x[0] == 'call' and x[1].endswith('BTreeMap::range') and rng.append(x))
    ok = t[0] == 'call' and t[1].endswith('::next') and len(rng) == 1
    why = term_str(t)[:100]
    if ok:
        r = rng[0]
        bounds = r[2][1]
        ok = has_field(r[2][0], 'instance_map') and bounds[0] == 'agg' and bounds[1] == 'tuple' and len(bounds[2]) == 2 and \
            bounds[2][0][0] == 'agg' and str(bounds[2][0][1]).endswith('Bound::Excluded') and bounds[2][0][2][0] == ('param', 2) and \
            bounds[2][1][0] == 'agg' and str(bounds[2][1][1]).endswith('Bound::Unbounded')
        skips = []
        term_has(t, lambda x: x[0] == 'call' and x[1].rsplit('::', 1)[-1] in ('nth', 'skip', 'last', 'next_back', 'rev', 'step_by', 'skip_while') and skips.append(x[1]))
        ok = ok and not skips
    rep.check(ok, 'R08.12', 'next_key/strictly-greater', 'range((Excluded(key), Unbounded)).next()',
              'next_key does not return the smallest instance strictly greater than the given key (%s): a next-instance sweep skips an instance, or repeats one' % why, b.where())


def _key_term(t):
    while isinstance(t, tuple) and t and t[0] in ('ref', 'deref', 'copy', 'move') and len(t) > 1 and isinstance(t[1], tuple):
        t = t[1]
    return t


def rule_08_13(rep, fx):
    """The cache keeps each sample twice: the sample itself in `datasamples`, its timestamp in the `instance_samples` set of its instance. History depth is enforced on
    the size of the set, so the two must describe the same samples."""
    rep.rule('R08.13', 'the two stores stay in step: in DataSampleCache every datasamples.remove(ts) is paired with instance_samples.remove(ts) of the same timestamp on every path '
                       '(the instance being absent is the only excuse), and add_sample inserts the timestamp into both; otherwise taken samples keep counting against the history '
                       'depth and an untaken sample is evicted although the depth is not exceeded')
    n = 0
    for b in fx.bodies:
        if not b.key.startswith(DSC) and not (b.kind == 'closure' and DSC.rstrip(':') in b.key):
            continue
        og = Origins(b, summaries=False)
        rm_d = [(bb, _key_term(resolve_captures(fx, b, og.of_operand(t['args'][1], bb, 'term'), summaries=False))) for bb, t in b.calls()
                if callee_res(t).endswith('::remove') and has_field(resolve_captures(fx, b, og.of_operand(t['args'][0], bb, 'term'), summaries=False), 'datasamples')]
        if not rm_d:
            continue
        rep.analysed(b)
        rm_i = [(bb, _key_term(resolve_captures(fx, b, og.of_operand(t['args'][1], bb, 'term'), summaries=False))) for bb, t in b.calls()
                if callee_res(t).endswith('::remove') and has_field(resolve_captures(fx, b, og.of_operand(t['args'][0], bb, 'term'), summaries=False), 'instance_samples')]
        P = Pos(b)
        edges = list(switch_edges(b, fx, og))
        none_edges = [(s_, t_) for s_, t_, cond, lab in edges if lab == 'None' and term_has(cond, lambda x: x[0] == 'call' and x[1].rsplit('::', 1)[-1] in ('get', 'get_mut')) and
                      has_field(cond, 'instance_map')]
        nxt = [(nb, 'term') for nb, t in b.calls() if callee_res(t).endswith('::next')]
        ends = [(r, 'term') for r in b.return_blocks()] + nxt
        for bb, k in rm_d:
            n += 1
            partners = [(ib, 'term') for ib, ik in rm_i if ik == k]
            after = bool(partners) and all(P.every_path_passes((bb, 'term'), e, via_pos=partners, via_edges=none_edges) for e in ends if P.can_reach((bb, 'term'), e))
            # or the partner comes first in the same iteration: every path from the start of the iteration (entry / after next) to the removal passes it
            starts = [(0, 0)] + [(nb, 'term') for nb, _k in nxt]
            before = bool(partners) and all(P.every_path_passes(None, (bb, 'term'), via_pos=partners, via_edges=none_edges, from_entry=True) for _ in [0]) and \
                all(not P.can_reach(st_, (bb, 'term'), avoid_pos=partners, avoid_edges=none_edges) for st_ in starts[1:])
            rep.check(after or before, 'R08.13', '%s/remove#%d' % (b.key.split('DataSampleCache::')[-1], n), 'paired with instance_samples.remove(same timestamp)',
                      '%s removes a sample from `datasamples` without removing its timestamp from the instance\'s `instance_samples` on every path: the stale entry keeps counting '
                      'against the history depth (and is never freed with KeepAll)' % b.key.split('DataSampleCache::')[-1], b.where(bb))
    rep.floor('R08.13', n, 3, 'removals from DataSampleCache.datasamples (two takes and the eviction)')
    ad = fx.find(DSC + 'add_sample')
    oga = Origins(ad, summaries=False)
    ins_d = [_key_term(oga.of_operand(t['args'][1], bb, 'term')) for bb, t in ad.calls() if callee_res(t).endswith('::insert') and has_field(oga.of_operand(t['args'][0], bb, 'term'), 'datasamples')]
    ins_i = [_key_term(oga.of_operand(t['args'][1], bb, 'term')) for bb, t in ad.calls() if callee_res(t).endswith('::insert') and has_field(oga.of_operand(t['args'][0], bb, 'term'), 'instance_samples')]
    rep.check(len(ins_d) == 1 and ins_d == ins_i, 'R08.13', 'add_sample/inserts-both', 'the receive timestamp goes into datasamples and into instance_samples',
              'add_sample does not insert the same timestamp into datasamples and into the instance\'s instance_samples (%s vs %s)' % ([term_str(x)[:40] for x in ins_d], [term_str(x)[:40] for x in ins_i]), ad.where())


def rule_08_14(rep, fx):
    """select_* decides which samples an access returns; the four *_by_keys functions must return one result per selected key."""
    rep.rule('R08.14', 'every selected sample is reported: in read_by_keys / take_by_keys / read_bare_by_keys / take_bare_by_keys a return that does not lie behind the loops over '
                       '`keys` is taken only for an empty selection (keys.len() == 0 / is_empty()); every loop over `keys` accumulates (push / push_back) on each iteration before '
                       'the next key is fetched; and a new instance met by add_sample is entered into instance_map before it is looked up again')
    n = 0
    for fn in ('read_by_keys', 'take_by_keys', 'read_bare_by_keys', 'take_bare_by_keys'):
        b = fx.find(DSC + fn)
        rep.analysed(b)
        og = Origins(b, summaries=False)
        P = Pos(b)
        edges = list(switch_edges(b, fx, og))
        loops = []
        for lp in natural_loops(b):
            blocks = lp[1]
            nxt = [(bb, t) for bb, t in b.calls() if bb in blocks and callee_res(t).endswith('::next') and
                   term_has(og.of_operand(t['args'][0], bb, 'term'), lambda x: x == ('param', 2))]
            if nxt:
                loops.append((nxt[0][0], blocks))
        bad = []
        if not loops:
            bad.append('no loop over keys')
        for nb, blocks in loops:
            some = [(s_, t_) for s_, t_, cond, lab in edges if lab == 'Some' and s_ in blocks and cond[0] == 'discr' and cond[1][0] == 'call' and cond[1][1].endswith('::next') and len(cond[1]) > 3 and cond[1][3] == nb]
            acc = [(bb, 'term') for bb, t in b.calls() if bb in blocks and callee_res(t).rsplit('::', 1)[-1] in ('push', 'push_back')]
            is_result_loop = nb == max(x for x, _ in loops)
            if not some or (is_result_loop and not acc):
                bad.append('the loop that builds the result pushes nothing')
            elif acc and any(P.can_reach((t_, 0), (nb, 'term'), avoid_pos=acc) for s_, t_ in some):
                bad.append('an iteration over keys can end without push / push_back')
            # what the result loop pops per key, an earlier loop over keys must have queued per key
            from rules.builtsent import _alloc_sites
            for bb, t in b.calls():
                if bb in blocks and callee_res(t).rsplit('::', 1)[-1] in ('pop_front', 'pop_back', 'pop'):
                    src_ = _alloc_sites(og.of_operand(t['args'][0], bb, 'term'))
                    fed = False
                    for nb2, blocks2 in loops:
                        if nb2 >= nb:
                            continue
                        some2 = [(s_, t_) for s_, t_, cond, lab in edges if lab == 'Some' and s_ in blocks2 and cond[0] == 'discr' and cond[1][0] == 'call' and cond[1][1].endswith('::next') and len(cond[1]) > 3 and cond[1][3] == nb2]
                        feed = [(fb, 'term') for fb, ft in b.calls() if fb in blocks2 and callee_res(ft).rsplit('::', 1)[-1] in ('push', 'push_back') and
                                (_alloc_sites(og.of_operand(ft['args'][0], fb, 'term')) & src_)]
                        if feed and some2 and not any(P.can_reach((t_, 0), (nb2, 'term'), avoid_pos=feed) for s_, t_ in some2):
                            fed = True
                    if not fed:
                        bad.append('the result loop pops from a queue that no earlier loop over keys fills once per key')
        # returns outside the loops: only for the empty selection
        empty = [(s_, t_) for s_, t_, cond, lab in edges if
                 (cond[0] == 'bin' and cond[1] == 'Eq' and lab is True and term_has(cond, lambda x: x[0] in ('len', 'call') and (x[0] == 'len' or x[1].endswith('::len'))) and
                  term_has(cond, lambda x: x[0] == 'const' and str(x[2]) == '0') and term_has(cond, lambda x: x == ('param', 2))) or
                 (cond[0] == 'bin' and cond[1] == 'Ne' and lab is False and term_has(cond, lambda x: x == ('param', 2)) and term_has(cond, lambda x: x[0] == 'const' and str(x[2]) == '0')) or
                 (cond[0] == 'call' and cond[1].endswith('is_empty') and lab is True and term_has(cond, lambda x: x == ('param', 2)))]
        last = loops[-1][0] if loops else None
        if last is not None:
            # the last loop over keys in program order is the one every non-empty access must run through
            lastnb = max(nb for nb, _ in loops)
            for r in b.return_blocks():
                if not P.every_path_passes(None, (r, 'term'), via_pos=[(lastnb, 'term')], via_edges=empty, from_entry=True):
                    bad.append('a return is reachable for a non-empty selection without going through the loops over keys')
        n += 1
        rep.check(not bad, 'R08.14', '%s/every-key-reported' % fn, 'one result per selected key; early return only for an empty selection',
                  '%s does not report every selected sample (%s): samples that select_* chose are silently missing from the result (and, for take, may already be removed)' %
                  (fn, '; '.join(sorted(set(bad))[:2])), b.where())
    rep.floor('R08.14', n, 4, '*_by_keys functions')
    # new instance entered before it is looked up again
    a = fx.find(DSC + 'add_sample')
    og = Origins(a, summaries=False)
    P = Pos(a)
    edges = list(switch_edges(a, fx, og))
    none = [(s_, t_) for s_, t_, cond, lab in edges if lab == 'None' and cond[0] == 'discr' and cond[1][0] == 'call' and cond[1][1].rsplit('::', 1)[-1] in ('get_mut', 'get') and has_field(cond[1], 'instance_map')]
    ins = [(bb, 'term') for bb, t in a.calls() if callee_res(t).endswith('::insert') and has_field(og.of_operand(t['args'][0], bb, 'term'), 'instance_map')]
    look = [(bb, 'term') for bb, t in a.calls() if callee_res(t).rsplit('::', 1)[-1] in ('get_mut', 'get') and has_field(og.of_operand(t['args'][0], bb, 'term'), 'instance_map')]
    ok = bool(none) and bool(ins)
    for s_, t_ in none:
        for l in look + [(r, 'term') for r in a.return_blocks()]:
            if P.can_reach((t_, 0), l, avoid_pos=ins):
                ok = False
    rep.check(ok, 'R08.14', 'add_sample/new-instance-entered', 'instance unknown => instance_map.insert(key, ..) before the next lookup / the return',
              'add_sample does not enter a new instance into instance_map on every path before looking it up again: the first sample of every instance panics the reader (or is lost)', a.where())


def rule_08_15(rep, fx):
    """A dispose may name its instance by key hash only (DATA without payload). The reader can turn that back into a key only if it has learned the hash from an
    earlier sample of the instance."""
    SD = 'dds::with_key::simpledatareader::SimpleDataReader::'
    rep.rule('R08.15', 'key hashes are learned and used: in deserialize_with every Ok(..) built from a decoded value or a decoded key lies behind update_hash_to_key_map(the map '
                       'handed in, that sample); update_hash_to_key_map inserts (key.hash_key(false), key) with key = Value(d).key() | Dispose(k) on every path (the hash form the '
                       'RTPS key-hash parameter uses: MD5 only when the type requires it); the DisposeByKeyHash arm returns Ok(Dispose(map.get(key_hash).clone())) when the hash is '
                       'known and an UnknownKey error otherwise')
    d = fx.find(SD + 'deserialize_with')
    rep.analysed(d)
    og = Origins(d, summaries=False)
    P = Pos(d)
    edges = list(switch_edges(d, fx, og))
    ups = [(bb, t) for bb, t in d.calls() if call_matches(t, 'SimpleDataReader::update_hash_to_key_map')]
    news = [(bb, t) for bb, t in d.calls() if call_matches(t, 'DeserializedCacheChange::new')]
    n = 0
    for bb, t in news:
        smp = og.of_operand(t['args'][2], bb, 'term')
        from_map = term_has(smp, lambda x: x[0] == 'call' and x[1].endswith('::get') and term_has(x, lambda y: y == ('param', 4)))
        n += 1
        if from_map:
            # the by-hash arm: key = clone of what the map returned for this change's key_hash, behind the Some edge
            some = [(s_, t_) for s_, t_, cond, lab in edges if lab == 'Some' and cond[0] == 'discr' and cond[1][0] == 'call' and cond[1][1].endswith('::get') and
                    term_has(cond[1], lambda y: y == ('param', 4)) and term_has(cond[1], lambda y: y[0] == 'field' and y[1] == 'key_hash')]
            ok = bool(some) and P.every_path_passes(None, (bb, 'term'), via_edges=some, from_entry=True) and \
                term_has(smp, lambda x: x[0] == 'agg' and str(x[1]).endswith('Sample::Dispose')) and term_has(smp, lambda x: x[0] == 'field' and x[1] == 'key_hash')
            rep.check(ok, 'R08.15', 'deserialize_with/by-hash', 'Ok(Dispose(map[key_hash of this change])) only when the hash is known',
                      'a dispose by key hash is not resolved through the hash-to-key map of this change\'s own key_hash: the wrong instance is disposed, or none', d.where(bb))
        else:
            pre = [(ub, 'term') for ub, ut in ups if og.of_operand(ut['args'][0], ub, 'term') == ('param', 4) and
                   _same_sample(og.of_operand(ut['args'][1], ub, 'term'), smp)]
            ok = bool(pre) and P.every_path_passes(None, (bb, 'term'), via_pos=pre, from_entry=True)
            rep.check(ok, 'R08.15', 'deserialize_with/learned#%d' % n, 'update_hash_to_key_map(map, this sample) before the Ok',
                      'deserialize_with returns a decoded %s without recording its key hash: a later dispose of that instance by key hash cannot be resolved and is dropped' %
                      ('value' if 'Value' in str(smp) else 'key'), d.where(bb))
    rep.floor('R08.15', n, 3, 'DeserializedCacheChange::new sites in deserialize_with')
    # the decoder is handed the bytes and the representation of this very payload
    ok = False
    why = 'no find over supported_encodings() / no from_bytes_with'
    for bb, t in d.calls():
        if callee_res(t).endswith('from_bytes_with') and not callee_res(t).endswith('key_from_bytes_with'):
            val, rid_ = og.of_operand(t['args'][0], bb, 'term'), og.of_operand(t['args'][1], bb, 'term')
            finds = [x for x in _calls_in(rid_) if x[1].endswith('::find')]
            cl = [c for c in fx.closures_of(d) if any(c.key in str(x) for x in finds)]
            okv = term_has(val, lambda x: x[0] == 'field' and x[1] == 'value') and term_has(val, lambda x: x[0] == 'variant' and x[1] == 'Data')
            okc = False
            for c in cl:
                ogc = Origins(c, summaries=False)
                r0 = resolve_captures(fx, c, ogc.of_local(0, c.return_blocks()[0], 'term'), summaries=False)
                okc = r0[0] == 'call' and r0[1].endswith('::eq') and any(_strip_refs(a) == ('param', 2) for a in r0[2]) and \
                    any(term_has(a, lambda x: x[0] == 'field' and x[1] == 'representation_identifier') and term_has(a, lambda x: x[0] == 'variant' and x[1] == 'Data') for a in r0[2])
            ok = okv and okc and bool(finds) and term_has(rid_, lambda x: x[0] == 'call' and x[1].endswith('supported_encodings'))
            why = 'value bytes of this payload: %s; encoding found by equality with its representation_identifier: %s' % (okv, okc)
    rep.check(ok, 'R08.15', 'deserialize_with/decoder-input', 'from_bytes_with(payload.value, the supported encoding equal to payload.representation_identifier)',
              'deserialize_with does not decode the payload\'s own bytes under the supported encoding that equals its representation identifier (%s): valid samples are reported as '
              'undecodable or decoded under the wrong encoding' % why, d.where())
    u = fx.find(SD + 'update_hash_to_key_map')
    rep.analysed(u)
    og = Origins(u, summaries=False)
    P = Pos(u)
    ins = [(bb, t) for bb, t in u.calls() if callee_res(t).endswith('::insert')]
    ok = len(ins) == 1
    why = 'no single insert'
    if ok:
        bb, t = ins[0]
        m, h, k = (og.of_operand(a, bb, 'term') for a in t['args'])
        ok = m == ('param', 1) and h[0] == 'call' and h[1].endswith('hash_key') and h[2][1][0] == 'const' and str(h[2][1][2]) in ('0', 'false', 'False')
        why = 'the hash is %s' % term_str(h)[:80]
        key_ok = term_has(k, lambda x: x[0] == 'call' and x[1].endswith('Keyed::key') and term_has(x, lambda y: y[0] == 'variant' and y[1] == 'Value')) and \
            term_has(k, lambda x: x[0] == 'variant' and x[1] == 'Dispose')
        same = _strip_refs(h[2][0]) == _strip_refs(k) if ok else False
        if ok and not (key_ok and same):
            ok = False
            why = 'the key stored is %s, the key hashed is %s' % (term_str(k)[:60], term_str(h[2][0])[:60])
        if ok and not all(P.every_path_passes(None, (r, 'term'), via_pos=[(bb, 'term')], from_entry=True) for r in u.return_blocks()):
            ok = False
            why = 'a path skips the insert'
    rep.check(ok, 'R08.15', 'update_hash_to_key_map/inserts', 'map.insert(key.hash_key(false), key) on every path, key from Value(d).key() | Dispose(k)',
              'update_hash_to_key_map does not record (key hash as on the wire, key) for the sample (%s): disposes by key hash are not resolved' % why, u.where())


def _strip_refs(t):
    while isinstance(t, tuple) and t and t[0] in ('ref', 'deref') and len(t) > 1 and isinstance(t[1], tuple):
        t = t[1]
    if isinstance(t, tuple) and t and t[0] == 'mutated':
        return _strip_refs(t[1])
    return t


def _same_sample(a, b):
    """the Sample handed to update_hash_to_key_map is the one put into the result: same aggregate (variant and operand)"""
    a, b = _strip_refs(a), _strip_refs(b)
    if a == b:
        return True
    ka = [x for x in _aggs(a) if 'Sample::' in str(x[1])]
    kb = [x for x in _aggs(b) if 'Sample::' in str(x[1])]
    return bool(ka) and bool(kb) and ka[0] == kb[0]


def _aggs(t):
    out = []

    def rec(x):
        if isinstance(x, tuple):
            if x and x[0] == 'agg':
                out.append(x)
            for y in x:
                rec(y)
    rec(t)
    return out


def _calls_in(t):
    out = []

    def rec(x):
        if isinstance(x, tuple):
            if x and x[0] == 'call':
                out.append(x)
            for y in x:
                rec(y)
    rec(t)
    return out


def rule_08_16(rep, fx):
    """LENGTH_UNLIMITED (-1) is not a bound (raised F36: with KeepAll the keep count fell back to max_samples_per_instance = -1, `len - (-1)` samples were evicted on every
    arrival, i.e. all of them: the lose-nothing configuration delivered nothing)."""
    rep.rule('R08.16', 'an unlimited resource limit evicts nothing: in DataSampleCache::add_sample the keep count that the eviction subtracts from the number of samples of the '
                       'instance takes max_samples_per_instance only through a test that it is not negative (Option::filter(|l| l >= 0) and equivalent forms, or a dominating edge)')
    b = [x for x in fx.bodies if x.name == 'add_sample' and x.key.startswith('dds::with_key::datasample_cache::DataSampleCache') and x.kind in ('fn', 'assoc_fn')]
    if len(b) != 1:
        raise CheckBroken('R08.16: DataSampleCache::add_sample not found')
    b = b[0]
    rep.analysed(b)
    og = Origins(b, summaries=False)
    P = Pos(b)
    subs = []
    for bb, si, st in b.statements():
        if st['s'] == 'assign' and st['rv'].get('r') in ('bin', 'checked_bin') and st['rv'].get('op') in ('Sub', 'SubWithOverflow'):
            t = og._rvalue(st['rv'], bb, si, 0)
            if term_has(t, lambda x: x[0] == 'call' and x[1].rsplit('::', 1)[-1] == 'len') and term_has(t, lambda x: x[0] == 'field' and x[1] == 'instance_samples'):
                subs.append((bb, si, t))
    if not subs:
        raise CheckBroken('R08.16: the eviction count (len(instance_samples) - keep) not found in add_sample')
    nonneg = {('Ge', 0), ('Gt', -1), ('Ne', -1), ('ge', 0), ('gt', -1), ('ne', -1)}
    good_closures = set()
    for c in fx.closures_of(b):
        oc = Origins(c, summaries=False)
        for r in c.return_blocks():
            v = oc.of_local(0, r, 'term')
            if v[0] == 'bin' and len(v) > 3 and v[3][0] == 'const' and (v[1], v[3][-1]) in nonneg:
                good_closures.add(c.key)
            if v[0] == 'call' and len(v[2]) == 2 and v[2][1][0] == 'const' and (v[1].rsplit('::', 1)[-1], v[2][1][-1]) in nonneg:
                good_closures.add(c.key)
    guard = []
    for s_, t_, c, lab in switch_edges(b, fx, og):
        if term_has(c, lambda x: x[0] == 'field' and x[1] == 'max_samples_per_instance'):
            op = c[1] if c[0] == 'bin' else (c[1].rsplit('::', 1)[-1] if c[0] == 'call' else None)
            k = [x[-1] for x in (c[2:] if c[0] == 'bin' else c[2]) if isinstance(x, tuple) and x[0] == 'const']
            if op and k:
                pos = (op, k[0]) in nonneg
                neg = (op, k[0]) in {('Lt', 0), ('Le', -1), ('Eq', -1), ('lt', 0), ('le', -1), ('eq', -1)}
                if (pos and lab is True) or (neg and lab is False):
                    guard.append((s_, t_))
    ok = True
    shown = ''
    for bb, si, t in subs:
        keep = t[3] if t[0] == 'bin' and len(t) > 3 else t
        shown = term_str(keep)[:200]

        def unguarded(x, inside=False):
            # a mention of max_samples_per_instance outside a filter(.., <non-negativity closure>)
            if x[0] == 'field' and x[1] == 'max_samples_per_instance':
                return not inside
            if x[0] == 'call' and x[1].rsplit('::', 1)[-1] in ('filter', 'take_if') and any(isinstance(a, tuple) and a[0] == 'agg' and str(a[1]) in good_closures for a in x[2]):
                inside = True
            kids = []
            for y in x[1:]:
                if isinstance(y, tuple):
                    if y and isinstance(y[0], str):
                        kids.append(y)
                    else:
                        kids.extend(z for z in y if isinstance(z, tuple))
            return any(unguarded(k, inside) for k in kids)
        if unguarded(keep) and not (guard and P.every_path_passes(None, (bb, si), via_edges=guard, from_entry=True)):
            # the if-form: every place where the limit is wrapped into the candidate keep count lies behind the non-negativity edge
            wraps = [(wb, wi) for wb, wi, wst in b.statements() if wst['s'] == 'assign' and wst['rv'].get('r') == 'agg' and wst['rv'].get('variant') == 'Some' and
                     any(term_has(og.of_operand(o, wb, wi), lambda x: x[0] == 'field' and x[1] == 'max_samples_per_instance') for o in wst['rv'].get('ops', []))]
            if not (wraps and guard and all(P.every_path_passes(None, w, via_edges=guard, from_entry=True) for w in wraps)):
                ok = False
    rep.check(ok, 'R08.16', 'add_sample/unlimited-is-no-bound', 'max_samples_per_instance bounds the instance only when it is not negative',
              'DataSampleCache::add_sample uses max_samples_per_instance as the number of samples to keep without testing that it is not LENGTH_UNLIMITED (-1): with History KeepAll '
              'and the default (unlimited) resource limits len + 1 samples are evicted on every arrival, the DataReader never returns anything (keep count: %s)' % shown, b.where())
