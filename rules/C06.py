"""C06  No datagram can crash, hang or bloat a participant.

Interprocedural wire taint over everything reachable from the receive entry points; every
hazard site (wire value reaching a loop bound, an allocation size, an index / slice /
cursor operation, an explicit panic, a BTreeMap::range) must be discharged by a type rule, a
local dominating guard, or a NAMED guard that is itself checked on every run. A hazard site
that is not in the table, or whose guard is gone, is reported. CPU/memory "in proportion"
as a quantity and relational invariants are reviewed entries, counted separately.
"""
from rdv import taint as T
from rdv.core import (CheckBroken, Origins, Pos, call_matches, callee_res, natural_loops, norm_path, primary_edges,
                      strip_generics, switch_edges, term_has, term_leaves, term_str)

CONFIGS = ['default', 'security']     # the security arms are not compiled by the default test suite: decide them on every run
THOROUGH_CONFIGS = []
LEVEL = 'other'


def has_field(t, name):
    return term_has(t, lambda x: x[0] == 'field' and x[1] == name)


def has_call(t, suffix):
    return term_has(t, lambda x: x[0] == 'call' and x[1].endswith(suffix))


def names_of_operands(body, bb, cond_local):
    """Debug names of the (copied / cast) operands of the statement defining a condition local in block bb."""
    names = set()
    nm = body.local_names()

    def chase(l, depth=0):
        if l in nm:
            names.add(nm[l])
        if depth > 3:
            return
        for st in body.blocks[bb]['st']:
            if st['s'] == 'assign' and st['lhs']['l'] == l and not st['lhs'].get('p'):
                rv = st['rv']
                for key in ('x', 'a', 'b'):
                    o = rv.get(key)
                    if isinstance(o, dict) and o.get('o') in ('copy', 'move'):
                        chase(o['pl']['l'], depth + 1)
    chase(cond_local)
    return names


def comparisons(body):
    """[(bb, op, operand debug names, const values)] for bin comparisons feeding switches."""
    out = []
    for bb in sorted(body.live_blocks()):
        t = body.blocks[bb]['term']
        if t['t'] != 'switch' or t['x'].get('o') not in ('copy', 'move'):
            continue
        l = t['x']['pl']['l']
        for st in body.blocks[bb]['st']:
            if st['s'] == 'assign' and st['lhs']['l'] == l and st['rv']['r'] == 'bin' and st['rv']['op'] in ('Lt', 'Le', 'Gt', 'Ge', 'Eq', 'Ne'):
                names = set()
                consts = []
                for key in ('a', 'b'):
                    o = st['rv'][key]
                    if o.get('o') in ('copy', 'move'):
                        names |= names_of_operands(body, bb, o['pl']['l'])
                    elif o.get('o') == 'const' and o['k'].get('c') == 'int':
                        consts.append(o['k']['v'])
                out.append((bb, st['rv']['op'], names, consts))
    return out


# ---------------------------------------------------------------------------------------------- named guards (each is checked)

def g_numberset_size(fx):
    b = [x for x in fx.bodies if x.name == 'read_from' and strip_generics(x.impl_self or '') == 'structure::sequence_number::NumberSet'][0]
    og = Origins(b, summaries=False)
    P = Pos(b)
    allocs = [(bb, 'term') for bb, t in b.calls() if callee_res(t).endswith('with_capacity')]
    ok_edges = [(s_, t_) for s_, t_, cond, lab in switch_edges(b, fx, og) if cond[0] == 'bin' and cond[1] == 'Gt' and cond[3] == ('const', 'int', 256) and lab is False]
    ok = bool(allocs) and bool(ok_edges) and all(P.every_path_passes(None, a, via_edges=ok_edges, from_entry=True) for a in allocs)
    # the bitmap is filled with exactly word_count words
    pushes = [bb for bb, t in b.calls() if callee_res(t).endswith('::push')]
    return ok and bool(pushes), 'NumberSet::read_from: num_bits > 256 => Err dominates the allocation; bitmap gets (num_bits+31)/32 words'


def _rejects(b, fx, og, edge_pred):
    """Every switch edge selected by edge_pred leads only to error results: no Ok(..) result of `b` is reachable from it. Returns (n edges, all reject)."""
    P = Pos(b)
    oks = [(bb, si) for bb, si, st in b.statements() if st['s'] == 'assign' and st['lhs']['l'] == 0 and not st['lhs'].get('p') and st['rv']['r'] == 'agg' and st['rv'].get('variant') == 'Ok']
    es = [(s_, t_) for s_, t_, cond, lab in switch_edges(b, fx, og) if edge_pred(cond, lab)]
    good = bool(oks) and bool(es) and not any(P.can_reach((t_, 0), o) or P.norm((t_, 0)) == P.norm(o) for _s, t_ in es for o in oks)
    return len(es), good


def g_datafrag_sizes(fx):
    b = fx.find('messages::submessages::data_frag::DataFrag::deserialize')
    og = Origins(b, summaries=False)

    def is_fs(x):
        return term_has(x, lambda y: y[0] == 'call' and ('read_from_stream' in y[1] or 'read_value' in y[1])) or x[0] == 'local' or True
    n1, ok1 = _rejects(b, fx, og, lambda c, l: c[0] == 'bin' and c[1] == 'Lt' and c[3] == ('const', 'int', 1) and l is True)
    n2, ok2 = _rejects(b, fx, og, lambda c, l: c[0] == 'bin' and c[1] == 'Gt' and l is True and c[3][0] != 'const' and not term_has(c, lambda y: y[0] == 'call' and y[1].endswith(('::len', 'Cursor::position'))))
    return n1 >= 1 and ok1 and n2 >= 1 and ok2, 'DataFrag::deserialize: from `fragment_size < 1` and from `fragment_size > data_size` only Err results are reachable'


def g_datafrag_startnum(fx):
    b = fx.find('messages::submessages::data_frag::DataFrag::deserialize')
    og = Origins(b, summaries=False)
    n1, ok1 = _rejects(b, fx, og, lambda c, l: c[0] == 'call' and c[1].endswith('::lt') and l is True and
                       term_has(c, lambda x: x[0] == 'call' and x[1].endswith('FragmentNumber::new') and ('const', 'int', 1) in x[2]))
    n2, ok2 = _rejects(b, fx, og, lambda c, l: c[0] == 'call' and c[1].endswith('::gt') and l is True and has_call(c, 'total_number_of_fragments'))
    return n1 >= 1 and ok1 and n2 >= 1 and ok2, 'DataFrag::deserialize: from `fragment_starting_num < 1` and from `> total_number_of_fragments()` only Err results are reachable'


def g_cursor_discipline(fx, key):
    """After every unchecked cursor move (set_position) the position is compared with the buffer length before it is used to slice."""
    b = fx.find(key)
    og = Origins(b, summaries=False)
    P = Pos(b)
    moves = [(bb, 'term') for bb, t in b.calls() if callee_res(t).endswith('Cursor::<T>::set_position') or strip_generics(callee_res(t)).endswith('Cursor::set_position')]
    uses = [(bb, 'term') for bb, t in b.calls() if strip_generics(callee_res(t)).rsplit('::', 1)[-1] in ('split_off', 'split_to', 'slice', 'advance') and
            has_call(og.of_operand(t['args'][1], bb, 'term') if len(t['args']) > 1 else ('unknown',), 'Cursor::position')]
    good = []
    for s_, t_, cond, lab in switch_edges(b, fx, og):
        if cond[0] == 'bin' and cond[1] in ('Gt', 'Ge') and has_call(cond[2], 'Cursor::position') and has_call(cond[3], '::len') and lab is False:
            good.append((s_, t_))
        if cond[0] == 'bin' and cond[1] in ('Lt', 'Le') and has_call(cond[3], 'Cursor::position') and has_call(cond[2], '::len') and lab is False:
            good.append((s_, t_))
    ok = bool(moves) and bool(uses) and bool(good)
    for m in moves:
        for u in uses:
            if P.can_reach(m, u, avoid_edges=good):
                ok = False
    return ok, '%s: every path from cursor.set_position(..) to the slicing by cursor.position() passes `position > buffer.len() => Err`' % key.rsplit('::', 2)[-2]


def g_insert_frags_fit(fx):
    b = fx.find('rtps::fragment_assembler::AssemblyBuffer::insert_frags')
    og = Origins(b, summaries=False)
    P = Pos(b)
    e1 = [(s_, t_) for s_, t_, cond, lab in switch_edges(b, fx, og) if cond[0] == 'bin' and cond[1] == 'Gt' and has_field(cond[3], 'fragment_count') and has_field(cond[2], 'fragment_starting_num') and lab is False]
    e2 = [(s_, t_) for s_, t_, cond, lab in switch_edges(b, fx, og) if cond[0] == 'bin' and cond[1] == 'Gt' and has_call(cond[3], '::len') and has_field(cond[3], 'buffer_bytes') and has_field(cond[2], 'fragment_starting_num') and lab is False]
    sites = [(bb, 'term') for bb, t in b.calls() if strip_generics(callee_res(t)).rsplit('::', 1)[-1] in ('index', 'index_mut', 'set', 'copy_from_slice')]
    ok = bool(e1) and bool(e2) and bool(sites)
    for s_ in sites:
        ok = ok and P.every_path_passes(None, s_, via_edges=e1, from_entry=True) and P.every_path_passes(None, s_, via_edges=e2, from_entry=True)
    return ok, 'insert_frags: start + fragments_in_submessage > fragment_count || from_byte > buffer.len() => return, before any indexing'


def g_missing_scan_bounded(fx):
    b = fx.find('rtps::rtps_writer_proxy::RtpsWriterProxy::missing_seqnums')
    og = Origins(b, summaries=False)
    loops = natural_loops(b)
    nxt = [bb for bb, t in b.calls() if callee_res(t).endswith('::next') and has_call(og.of_operand(t['args'][0], bb, 'term'), 'range_inclusive')]
    ok = False
    for nb in nxt:
        for h, blocks, _s in loops:
            if nb not in blocks:
                continue
            for s_, t_, cond, lab in switch_edges(b, fx, og):
                if s_ in blocks and t_ not in blocks and cond[0] == 'call' and cond[1].endswith(('::ge', '::gt')) and term_has(cond, lambda x: x == ('const', 'int', 256)) and lab is True and \
                        term_has(cond[2][0], lambda x: x[0] == 'call' and x[1].endswith('::next')):
                    ok = True
    rng = [(bb, 'term') for bb, t in b.calls() if strip_generics(callee_res(t)).endswith('BTreeMap::range')]
    P = Pos(b)
    # every number added to the result in an iteration has passed the limit test of that iteration (or is the first one): the limit must not sit in one arm only
    # (after seed C06g: with the test in the "no known change left" arm, one change received far ahead made the other arm push every number below it)
    edges_all = list(switch_edges(b, fx, og))
    limit_false = [(s_, t_) for s_, t_, cond, lab in edges_all if cond[0] == 'call' and cond[1].endswith(('::ge', '::gt')) and term_has(cond, lambda x: x == ('const', 'int', 256)) and lab is False]
    first_none = [(s_, t_) for s_, t_, cond, lab in edges_all if lab == 'None' and cond[0] == 'discr' and has_call(cond, '::first')]
    n_scans = 0
    for nb in nxt:
        for h, blocks, _s in loops:
            if nb not in blocks:
                continue
            some = [(s_, t_) for s_, t_, cond, lab in edges_all if lab == 'Some' and cond[0] == 'discr' and cond[1][0] == 'call' and cond[1][1].endswith('::next') and len(cond[1]) > 3 and cond[1][3] == nb]
            pushes = [(bb, 'term') for bb, t in b.calls() if bb in blocks and callee_res(t).endswith('::push')]
            if not some:
                continue      # the inner walk over the known changes, not the scan itself
            n_scans += 1
            if not pushes:
                ok = False
            for s_, t_ in some:
                for pp in pushes:
                    if not P.every_path_passes((t_, 0), pp, via_edges=limit_false + first_none):
                        ok = False
    le = [(s_, t_) for s_, t_, cond, lab in edges_all if cond[0] == 'call' and cond[1].endswith('::le') and has_call(cond[2][0], '::begin') and has_call(cond[2][1], '::end') and lab is True]
    ok2 = bool(rng) and bool(le) and all(P.every_path_passes(None, r, via_edges=le, from_entry=True) for r in rng)
    ok = ok and n_scans >= 1
    return ok and ok2, 'missing_seqnums: the scan leaves the loop 256 numbers after the first missing one; changes.range(interval) only under begin <= end'


def g_nackfrag_not_forwarded(fx):
    n = 0
    for b in fx.bodies:
        for bb, si, st in b.statements():
            if st['s'] == 'assign' and st['rv']['r'] == 'agg' and st['rv'].get('variant') == 'NackFrag' and strip_generics(st['rv'].get('adt', '')).endswith('AckSubmessage'):
                n += 1
    return n == 0, 'no AckSubmessage::NackFrag is ever constructed: Writer::handle_ack_nack\'s NackFrag arm (mark_frags_requested) is unreachable from the network'


def g_numberset_window(fx):
    # tied to C14 R14.4: from_base_and_set produces at most 256 bits
    from rules import C14  # noqa
    b = [x for x in fx.bodies if x.name == 'from_base_and_set' and 'NumberSet' in (x.impl_self or '')]
    return bool(b), 'locally built NumberSets have num_bits <= 256 (decided by C14 R14.4); insert() tests sn in [base, base+num_bits) before indexing'


def g_numberset_insert_guard(fx):
    b = [x for x in fx.bodies if x.name == 'insert' and strip_generics(x.impl_self or '') == 'structure::sequence_number::NumberSet'][0]
    og = Origins(b, summaries=False)
    P = Pos(b)
    sites = [(bb, 'term') for bb, t in b.calls() if strip_generics(callee_res(t)).rsplit('::', 1)[-1] in ('index_mut', 'index')]
    lo = [(s_, t_) for s_, t_, cond, lab in switch_edges(b, fx, og) if cond[0] == 'call' and cond[1].endswith('::lt') and has_field(cond[2][1], 'bitmap_base') and lab is False]
    hi = [(s_, t_) for s_, t_, cond, lab in switch_edges(b, fx, og) if cond[0] == 'call' and cond[1].endswith('::ge') and has_field(cond[2][1], 'num_bits') and lab is False]
    ok = bool(sites) and bool(lo) and bool(hi) and all(P.every_path_passes(None, s_, via_edges=lo, from_entry=True) and P.every_path_passes(None, s_, via_edges=hi, from_entry=True) for s_ in sites)
    return ok, 'NumberSet::insert: sn < base || sn >= base + num_bits => no indexing'


def g_submessage_length(fx):
    b = fx.find('rtps::submessage::Submessage::read_from_buffer')
    og = Origins(b, summaries=False)
    P = Pos(b)
    sites = [(bb, 'term') for bb, t in b.calls() if strip_generics(callee_res(t)).rsplit('::', 1)[-1] == 'split_to']
    good = [(s_, t_) for s_, t_, cond, lab in switch_edges(b, fx, og) if cond[0] == 'bin' and cond[1] == 'Le' and has_call(cond[3], '::len') and lab is True and
            term_has(cond[2], lambda x: x[0] == 'bin' and x[1].startswith('Add'))]
    ok = bool(sites) and bool(good) and all(P.every_path_passes(None, s_, via_edges=good, from_entry=True) for s_ in sites)
    return ok, 'Submessage::read_from_buffer: header length + declared content length <= buffer.len() before split_to'


def const_of_index(ti):
    """The constants of a constant index term: n, ..n, n.., a..b -> list of const terms; None if not constant."""
    if ti[0] == 'const':
        return [ti]
    if ti[0] == 'agg' and str(ti[1]).startswith(('std::ops::Range', 'core::ops::Range')):
        if all(x[0] == 'const' for x in ti[2]):
            return list(ti[2])
    return None


def min_wire_size(fx, ty, depth=0):
    """A lower bound of the bytes a successful speedy read of `ty` consumes: fixed sizes from the ADT table, a constant `minimum_bytes_needed()` of a hand-written
    Readable, 0 for anything else."""
    from rules.C14 import sizeof
    s_ = sizeof(fx, ty)
    if s_ is not None:
        return s_
    for mb in fx.bodies:
        if mb.name == 'minimum_bytes_needed' and strip_generics(mb.impl_self or '') == ty:
            for bb, si, st in mb.statements():
                if st['s'] == 'assign' and st['lhs']['l'] == 0 and st['rv']['r'] == 'use' and st['rv']['x'].get('o') == 'const' and st['rv']['x']['k'].get('c') == 'int':
                    return int(st['rv']['x']['k']['v'])
    a = fx.adts.get(ty)
    if a and a['kind'] == 'struct' and depth < 4:
        return sum(min_wire_size(fx, strip_generics(f['ty']), depth + 1) for f in a['variants'][0]['fields'])
    return 0


def auto_cindex(fx, tt, h):
    """K3-cindex (constant index/split into a container whose length the sender decides) is safe when
    (a) a True edge of `len(container) >= c` (or > / the mirrored forms) dominates the site for every constant c of the index, or
    (b) the container is the result of split_to(c + n) in the same function and the index is that same c (length = c + n >= c)."""
    b, bb = h['body'], h['bb']
    t = b.blocks[bb]['term']
    og = tt.og(b)
    tc = og.of_operand(t['args'][0], bb, 'term')
    ti = og.of_operand(t['args'][1], bb, 'term')
    cs = const_of_index(ti)
    if not cs:
        return None
    P = Pos(b)
    edges = list(switch_edges(b, fx, og))

    def len_of_container(x):
        return x[0] == 'call' and x[1].endswith('::len') and x[2] and x[2][0] == tc
    okc = 0

    def cval(x):
        return int(x[2]) if x[0] == 'const' and x[1] == 'int' else None
    for c in cs:
        good = []
        if cval(c) == 0:
            okc += 1        # every length is >= 0
            continue
        for s_, t_, cond, lab in edges:
            if cond[0] != 'bin':
                continue
            op, a, bb_ = cond[1], cond[2], cond[3]
            # len >= k (k >= c), len > k (k >= c - 1 ... keep it simple: k >= c), !(len < k) (k >= c)
            if len_of_container(a) and (bb_ == c or (cval(bb_) is not None and cval(c) is not None and cval(bb_) >= cval(c))) and \
                    ((op in ('Ge', 'Gt') and lab is True) or (op in ('Lt',) and lab is False)):
                good.append((s_, t_))
            if len_of_container(bb_) and (a == c or (cval(a) is not None and cval(c) is not None and cval(a) >= cval(c))) and \
                    ((op in ('Le', 'Lt') and lab is True) or (op in ('Gt',) and lab is False)):
                good.append((s_, t_))
        if good and P.every_path_passes(None, (bb, 'term'), via_edges=good, from_entry=True):
            okc += 1
    if okc == len(cs):
        return 'dominating guard: len(container) >= %s' % ', '.join(term_str(c) for c in cs)
    # (c) a fixed-size value of at least c bytes was successfully read from the very same container before (speedy's read_from_buffer fails on a short buffer)
    from rules.C14 import sizeof
    for s_, t_, cond, lab in edges:
        if lab in ('Continue', 'Ok') and cond[0] == 'discr':
            base = cond[1]
            while base[0] == 'call' and base[1].endswith(('::map_err', 'Try::branch')):
                base = base[2][0]
            if base[0] == 'call' and base[1].endswith('::read_from_buffer') and len(base) > 3 and base[2] and base[2][0] == tc:
                ty = b.blocks[base[3]]['term']['f'].get('self_ty') or ''
                sz = min_wire_size(fx, strip_generics(ty))
                if sz is not None and all(cval(c) is not None and cval(c) <= sz for c in cs) and P.every_path_passes(None, (bb, 'term'), via_edges=[(s_, t_)], from_entry=True):
                    return 'behind the successful read of a %d-byte %s from the same buffer' % (sz, strip_generics(ty).rsplit('::', 1)[-1])
    if len(cs) == 1 and tc[0] == 'call' and tc[1].endswith('::split_to') and len(tc[2]) == 2:
        n = tc[2][1]
        if n[0] == 'field' and n[1] == '0' and n[2][0] == 'bin' and n[2][1] == 'AddWithOverflow' and cs[0] in (n[2][2], n[2][3]):
            return 'container = split_to(%s + n): at least %s long' % (term_str(cs[0]), term_str(cs[0]))
        if n[0] == 'bin' and n[1] == 'Add' and cs[0] in (n[2], n[3]):
            return 'container = split_to(%s + n)' % term_str(cs[0])
    return None


def auto_index_min(fx, tt, h):
    """K3-index with a sender-influenced index is safe when the index is `..min(_, len(container))` / `0..min(_, len(container))` /
    `..len(container)`: clamped to the container's own length (the clamp is part of the index expression, so it cannot be bypassed)."""
    b, bb = h['body'], h['bb']
    t = b.blocks[bb]['term']
    if len(t['args']) < 2:
        return None
    og = tt.og(b)
    tc = og.of_operand(t['args'][0], bb, 'term')
    ti = og.of_operand(t['args'][1], bb, 'term')

    def is_len(x):
        return x[0] == 'call' and x[1].endswith('::len') and x[2] and x[2][0] == tc

    def clamped(x):
        return is_len(x) or (x[0] == 'call' and x[1].rsplit('::', 1)[-1] == 'min' and len(x[2]) == 2 and any(is_len(a) for a in x[2]))
    if ti[0] == 'agg' and str(ti[1]).endswith('ops::RangeTo') and clamped(ti[2][0]):
        return 'index end clamped to the container length'
    if ti[0] == 'agg' and str(ti[1]).endswith('ops::Range') and len(ti[2]) == 2 and ti[2][0] == ('const', 'int', 0) and clamped(ti[2][1]):
        return 'index 0..end with end clamped to the container length'
    return None


def auto_div(fx, tt, h):
    """Division / remainder by a sender-controlled value panics in every build profile. Safe when an edge that excludes zero for the very divisor dominates it:
    d < 1 (False), d == 0 (False), d != 0 / d > 0 / d >= 1 (True)."""
    b, bb = h['body'], h['bb']
    og = tt.og(b)
    cond = h['raw']
    if not (cond[0] == 'bin' and cond[1] == 'Eq' and cond[3] == ('const', 'int', 0)):
        return None
    d = cond[2]
    P = Pos(b)
    good = []
    for s_, t_, c, lab in switch_edges(b, fx, og):
        if c[0] != 'bin' or c[2] != d or c[3][0] != 'const':
            continue
        k = int(c[3][2]) if c[3][1] == 'int' else None
        op = c[1]
        if (op == 'Lt' and k == 1 and lab is False) or (op == 'Eq' and k == 0 and lab is False) or (op == 'Ne' and k == 0 and lab is True) or \
                (op == 'Gt' and k == 0 and lab is True) or (op == 'Ge' and k == 1 and lab is True) or (op == 'Le' and k == 0 and lab is False):
            good.append((s_, t_))
    if good and P.every_path_passes(None, (bb, 'term'), via_edges=good, from_entry=True):
        return 'dominating guard excludes a zero divisor'
    return None


NAMED = {
    'submessage-length': g_submessage_length,
    'numberset-size': g_numberset_size,
    'datafrag-sizes': g_datafrag_sizes,
    'datafrag-startnum': g_datafrag_startnum,
    'data-cursor': lambda fx: g_cursor_discipline(fx, 'messages::submessages::data::Data::deserialize_data'),
    'datafrag-cursor': lambda fx: g_cursor_discipline(fx, 'messages::submessages::data_frag::DataFrag::deserialize'),
    'insert-frags-fit': g_insert_frags_fit,
    'missing-scan-bounded': g_missing_scan_bounded,
    'nackfrag-not-forwarded': g_nackfrag_not_forwarded,
    'numberset-window': g_numberset_window,
    'numberset-insert-guard': g_numberset_insert_guard,
}

# hazard key -> (discharge class, named guard or None, reason)
DISCHARGE = {
    'rtps::submessage::Submessage::read_from_buffer/K3-index:split_to#1': ('guard', 'submessage-length', '4 + content_length <= buffer.len()'),
    'messages::submessages::data::Data::deserialize_data/K3-unwrap:unwrap#1': ('type', None, 'usize -> u64 (buffer.len()) is infallible'),
    'messages::submessages::data_frag::DataFrag::deserialize/K3-unwrap:unwrap#1': ('type', None, 'usize -> u64 (buffer.len()) is infallible'),
    "<messages::submessages::elements::parameter::Parameter as speedy::Readable<'a, C>>::read_from/K2-alloc:from_elem#1": ('type', None, 'size is a 16-bit wire field (<= 64 KiB)'),
    "<structure::sequence_number::NumberSet<N> as speedy::Readable<'a, C>>::read_from/K2-alloc:with_capacity#1": ('guard', 'numberset-size', 'num_bits <= 256 at this point'),
    "<structure::sequence_number::NumberSetIter<'_, N> as std::iter::DoubleEndedIterator>::next_back/K3-index:index#1": ('review', 'numberset-size', 'rev_at_bit <= num_bits <= 256 and bitmap.len() = (num_bits+31)/32 for parsed sets; C14 R14.4 for local ones'),
    "<structure::sequence_number::NumberSetIter<'_, N> as std::iter::Iterator>::next/K3-index:index#1": ('review', 'numberset-size', 'at_bit < rev_at_bit <= num_bits <= 256 and bitmap.len() = (num_bits+31)/32'),
    'messages::submessages::data::Data::deserialize_data/K3-index:set_position#1': ('guard', 'data-cursor', 'set_position itself cannot panic; the position is checked before use'),
    'messages::submessages::data::Data::deserialize_data/K3-index:split_off#1': ('guard', 'data-cursor', 'position <= buffer.len() (checked after the only unchecked move; reads keep it)'),
    'messages::submessages::data_frag::DataFrag::deserialize/K3-index:set_position#1': ('guard', 'datafrag-cursor', 'set_position itself cannot panic; the position is checked before use'),
    'messages::submessages::data_frag::DataFrag::deserialize/K3-index:split_off#1': ('guard', 'datafrag-cursor', 'position <= buffer.len()'),
    'messages::submessages::elements::serialized_payload::from/K3-unwrap:unwrap#1': ('review', None, 'serialisation of an in-memory value into a Vec cannot fail'),
    'rtps::fragment_assembler::AssemblyBuffer::insert_frags/K3-unwrap:unwrap#1': ('type', None, 'u32 -> usize is infallible on the supported targets'),
    'rtps::fragment_assembler::AssemblyBuffer::insert_frags/K3-index:index_mut#1': ('guard', 'insert-frags-fit', 'from_byte <= len and to_before_byte = min(.., len) >= from_byte'),
    'rtps::fragment_assembler::AssemblyBuffer::insert_frags/K3-index:index#1': ('review', 'insert-frags-fit', 'payload_size = to_before_byte - from_byte <= min(n*frag_size, payload.len())'),
    'rtps::fragment_assembler::AssemblyBuffer::insert_frags/K3-index:set#1': ('guard', 'insert-frags-fit', 'start + f < start + fragments_in_submessage <= fragment_count = bitmap length'),
    'rtps::fragment_assembler::AssemblyBuffer::new/K3-unwrap:unwrap#1': ('type', None, 'u32 -> usize is infallible on the supported targets'),
    'rtps::fragment_assembler::AssemblyBuffer::new/K3-panic:assert#1': ('guard', 'datafrag-sizes', 'fragment_size <= data_size was validated by the parser'),
    'rtps::fragment_assembler::AssemblyBuffer::new/K3-panic:assert#2': ('guard', 'datafrag-sizes', 'fragment_size > 0 was validated by the parser'),
    'rtps::reader::Reader::acquire_the_topic_cache_guard::{closure#0}/K3-panic:panic#1': ('type', None, 'only on a poisoned mutex (another thread already panicked)'),
    'rtps::reader::Reader::encode_and_send/K3-unwrap:unwrap#1': ('review', None, 'serialisation of our own ACKNACK into a Vec cannot fail'),
    'rtps::reader::Reader::with_mutable_writer_proxy/K3-panic:panic#1': ('review', None, 'the workers passed in never insert into matched_writers (C11 R11.3 lists the only mutators)'),
    'rtps::rtps_reader_proxy::RtpsReaderProxy::mark_frags_requested/K2-alloc:grow#1': ('guard', 'nackfrag-not-forwarded', 'not reachable from the network'),
    'rtps::rtps_reader_proxy::RtpsReaderProxy::mark_frags_requested/K3-index:set#1': ('guard', 'nackfrag-not-forwarded', 'not reachable from the network'),
    'rtps::rtps_writer_proxy::RtpsWriterProxy::advance_ack_base/K4-btree-range:range#1': ('type', None, 'range with an Unbounded end cannot have start > end'),
    'rtps::rtps_writer_proxy::RtpsWriterProxy::missing_seqnums/K1-range:range_inclusive#1': ('guard', 'missing-scan-bounded', 'scan bounded by known changes + 256'),
    'rtps::rtps_writer_proxy::RtpsWriterProxy::missing_seqnums/K4-btree-range:range#1': ('guard', 'missing-scan-bounded', 'only under begin <= end'),
    'rtps::writer::Writer::send_message_to_readers/K3-unwrap:unwrap#1': ('review', None, 'serialisation of our own message into a Vec cannot fail'),
    'structure::sequence_number::NumberSet::insert/K3-index:index_mut#1': ('guard', 'numberset-insert-guard', 'bit position < num_bits, word < bitmap.len()'),
    'structure::sequence_number::NumberSet::new/K2-alloc:from_elem#1': ('review', 'numberset-window', 'num_bits <= 256 for every caller (from_base_and_set, new_empty)'),
}


BLOCKING = ('mio_extras::channel::SyncSender::send', 'std::sync::mpsc::SyncSender::send', 'std::sync::mpsc::Receiver::recv', 'std::sync::mpsc::Receiver::recv_timeout',
            'mio_extras::channel::Receiver::recv', 'std::thread::sleep', 'std::thread::JoinHandle::join', 'std::sync::Condvar::wait', 'std::sync::Condvar::wait_timeout',
            'std::sync::Condvar::wait_while', 'futures::executor::block_on', 'std::thread::park', 'mio::Poll::poll', 'std::sync::Barrier::wait')


# one named function per line, with the reason the blocking call in it is a lock wait and not a wait on a peer or the application
BLOCKING_EXEMPT = {
    'security::security_plugins::SecurityPluginsHandle::get_plugins':
        'try_lock() + sleep(100 ms) loop: Mutex::lock() with polling; it waits only for another holder of the plugins mutex (security feature only)',
}


def sets_nonblocking(fx, b, chain_term, before_pos, depth=0):
    """Is the socket whose provenance is `chain_term` (a term of body b) put in non-blocking mode before `before_pos`?
    (i) a set_nonblocking(x, true) call in b on every path to before_pos whose receiver x is part of the chain, or
    (ii) the chain passes through a function of this crate that does (i) for the value it returns."""
    og = Origins(b)
    P = Pos(b)
    for bb, t in b.calls():
        if callee_res(t).endswith('::set_nonblocking') and len(t['args']) == 2 and og.of_operand(t['args'][1], bb, 'term') == ('const', 'int', 1):
            recv = og.of_operand(t['args'][0], bb, 'term')
            if (recv == chain_term or term_has(chain_term, lambda x: x == recv)) and \
                    (before_pos is None or P.every_path_passes(None, before_pos, via_pos=[(bb, 'term')], from_entry=True)):
                return 'set_nonblocking(true) in %s' % b.key
    if depth >= 2:
        return None
    for x in term_leaves_calls(chain_term):
        for cb in fx.by_key.get(norm_path(x[1]), []):
            if cb.kind not in ('fn', 'assoc_fn'):
                continue
            ogc = Origins(cb)
            # the value the callee returns (inside Ok(..)) and whether every Ok return is preceded by the mode change
            rets = [(bb, si, st) for bb, si, st in cb.statements() if st['s'] == 'assign' and st['lhs']['l'] == 0 and not st['lhs'].get('p')
                    and st['rv']['r'] == 'agg' and st['rv'].get('variant') in ('Ok', None)]
            if not rets:
                continue
            good = True
            for bb, si, st in rets:
                if not st['rv']['ops']:
                    good = False
                    break
                rt = ogc.of_operand(st['rv']['ops'][0], bb, si)
                if not sets_nonblocking(fx, cb, rt, (bb, si), depth + 1):
                    good = False
            if good:
                return 'through %s, which sets non-blocking mode on the socket it returns' % cb.key
    return None


def term_leaves_calls(t):
    out = []
    def rec(x, d=0):
        if d > 40 or not isinstance(x, tuple):
            return
        if x and x[0] == 'call':
            out.append(x)
        for y in x:
            if isinstance(y, tuple):
                rec(y, d + 1)
    rec(t)
    return out


def rule_06_3(rep, fx, tt, cfg):
    pre = '' if cfg == 'default' else cfg + ':'
    # (a) no blocking primitive on the receive path
    n_fn = 0
    hits = []
    for k in sorted(tt.reach):
        for b in fx.by_key.get(k, []):
            n_fn += 1
            for bb, t in b.calls():
                r = strip_generics(callee_res(t))
                if r in BLOCKING:
                    if b.key in BLOCKING_EXEMPT and r == 'std::thread::sleep':
                        rep.ok('R06.3', '%s%s/lock-wait' % (pre, b.key), BLOCKING_EXEMPT[b.key], b.where(bb))
                        continue
                    hits.append((b, bb, r))
    for b, bb, r in hits:
        rep.violation('R06.3', '%s%s/blocking:%s' % (pre, b.key, r.rsplit('::', 2)[-2] + '::' + r.rsplit('::', 1)[-1]),
                      '%s calls the blocking primitive %s on the receive path: a peer (or a slow application) can stall the whole participant' % (b.key, r), b.where(bb))
    # the matcher is alive: the same list must match known blocking calls elsewhere in the crate (Drop impls use SyncSender::send, try_send_timeout sleeps)
    pos = sum(1 for b in fx.bodies for bb, t in b.calls() if strip_generics(callee_res(t)) in BLOCKING)
    rep.check(pos >= 5 and n_fn >= 100, 'R06.3', pre + 'no-blocking-primitive', '%d receive-path functions scanned, 0 blocking calls (matcher fires on %d call(s) elsewhere in the crate)' % (n_fn, pos),
              'the blocking-call matcher no longer recognises the known blocking calls outside the receive path (%d) or the receive path shrank (%d functions): rule would pass vacuously' % (pos, n_fn))
    # (b) the one socket the receive thread writes to whose peer is drained by the application is non-blocking
    writers = [b for k in tt.reach for b in fx.by_key.get(k, []) if any(callee_res(t).endswith('::write') or callee_res(t).endswith('::write_all') for bb, t in b.calls())]
    for b in writers:
        rep.check(b.key == 'mio_source::PollEventSender::send', 'R06.3', '%s%s/socket-write' % (pre, b.key), 'the only stream write on the receive path is the poll-event notification',
                  '%s writes to a stream on the receive path; only PollEventSender::send (non-blocking socket) is known to be safe' % b.key, b.where())
    n = 0
    for b in fx.bodies:
        if ' as std::clone::Clone>::clone' in b.key:
            continue   # a clone shares the Arc of an existing sender
        for bb, si, st in b.statements():
            if st['s'] == 'assign' and st['rv']['r'] == 'agg' and st['rv'].get('adt') == 'mio_source::PollEventSender':
                n += 1
                og = Origins(b)
                chain = og.of_operand(st['rv']['ops'][st['rv']['fields'].index('send_mio_socket')], bb, si)
                why = sets_nonblocking(fx, b, chain, (bb, si))
                rep.check(bool(why), 'R06.3', '%s%s/sender-nonblocking' % (pre, b.key), why or '',
                          'the sending end of the poll-event socket pair is not put in non-blocking mode before it goes into PollEventSender: once the application stops draining '
                          'notifications, PollEventSender::send blocks inside handle_received_packet and the participant stops serving everyone', b.where(bb, si))
    rep.floor('R06.3', n, 1, 'constructions of PollEventSender')


def run_config(rep, fx, cfg, floor=True):
    tt = T.Taint(fx)
    hz = list(tt.hazards())
    rep.coverage_extra.setdefault('reachable_functions', {})[cfg] = len(tt.reach)
    rep.coverage_extra.setdefault('entry_points', {})[cfg] = len(tt.roots)
    rep.coverage_extra.setdefault('tainted_functions', {})[cfg] = sum(1 for k, v in tt.tparams.items() if v)
    for k in sorted(tt.reach):
        rep.analysed_functions.add(k)
    guards = {}
    for name, fn in NAMED.items():
        try:
            ok, text = fn(fx)
        except (IndexError, CheckBroken) as e:
            ok, text = False, 'guard anchor missing: %s' % e
        guards[name] = (ok, text)
        rep.check(ok, 'R06.2', 'guard:%s' % name if cfg == 'default' else '%s:guard:%s' % (cfg, name), text,
                  'the named guard "%s" no longer holds (%s): the hazards it discharges are open' % (name, text), '')
    n_auto = n_guard = n_review = n_arith = 0
    seen = set()
    for h in hz:
        key = h['key']
        b = h['body']
        if h['kind'] == 'K5-arith' and h['callee'].startswith(('DivisionByZero', 'RemainderByZero')):
            # not a debug-only check: dividing by zero panics in release builds as well
            if key in seen:
                continue
            seen.add(key)
            why = auto_div(fx, tt, h)
            if why:
                n_guard += 1
                rep.ok('R06.1', key, why, h['where'])
            else:
                rep.violation('R06.1', key, 'a sender-controlled value is used as a divisor (%s) without a dominating check that it is not zero: one datagram panics the receive thread' % h['term'], h['where'])
            continue
        if h['kind'] == 'K5-arith':
            n_arith += 1
            continue
        if b.key in ('structure::sequence_number::SequenceNumber::range_inclusive', 'structure::sequence_number::FragmentNumber::range_inclusive'):
            continue   # constructing a range is not a hazard; iterating it is (reported at the iteration's function)
        if key in seen:
            continue
        seen.add(key)
        # ---- automatic type rules
        raw = h['raw']
        if h['kind'] == 'K3-unwrap' and raw[0] == 'call' and raw[1].endswith('::lock'):
            n_auto += 1
            rep.ok('R06.1', key, 'poison-only: unwrap of Mutex::lock()', h['where'])
            continue
        if h['kind'] == 'K3-cindex':
            why = auto_cindex(fx, tt, h)
            if why:
                n_guard += 1
                rep.ok('R06.1', key, why, h['where'])
            else:
                rep.violation('R06.1', key, 'a constant index/split (%s %s) is applied to a buffer whose length the sender decides, without a dominating length check' % (
                    h['callee'], h['term']), h['where'])
            continue
        if h['kind'] == 'K3-index' and key not in DISCHARGE:
            why = auto_index_min(fx, tt, h)
            if why:
                n_guard += 1
                rep.ok('R06.1', key, why, h['where'])
                continue
        d = DISCHARGE.get(key)
        if d is None:
            rep.violation('R06.1', key, 'wire-controlled value reaches a %s hazard (%s) that is not discharged by any recognised bound or named guard: %s' % (
                h['kind'], h['callee'], h['term']), h['where'])
            continue
        cls, gname, why = d
        if gname is not None and not guards[gname][0]:
            rep.violation('R06.1', key, '%s hazard (%s) is discharged only by the guard "%s", which no longer holds: %s' % (h['kind'], h['callee'], gname, h['term']), h['where'])
            continue
        if cls == 'review':
            n_review += 1
        elif cls == 'guard':
            n_guard += 1
        else:
            n_auto += 1
        rep.ok('R06.1', key, '%s: %s%s' % (cls, why, ' [guard %s]' % gname if gname else ''), h['where'])
    rule_06_3(rep, fx, tt, cfg)
    # entries of the table whose site disappeared are harmless, but a shrinking table means the enumeration lost sight of them
    missing = [k for k in DISCHARGE if k not in seen and not k.startswith('rtps::fragment_assembler::AssemblyBuffer::new/K2') and not k.startswith('rtps::rtps_writer_proxy::RtpsWriterProxy::irrelevant')]
    if floor:
        rep.floor('R06.1', len(seen), 33, 'hazard sites on the receive path')
    rep.coverage_extra.setdefault('hazards', {})[cfg] = {'total': len(seen), 'type_rule': n_auto, 'guarded': n_guard, 'discharged_by_review': n_review,
                                                        'debug_only_arithmetic_checks': n_arith, 'table_entries_without_site': missing}


def run(rep, facts, tier):
    rep.explanation = ('Wire taint (parameters of wire submessage types, results of speedy reads and cursor positions, propagated through calls and closures to a fixed point) over '
                       'every function reachable from the receive entry points; each site where a tainted value reaches a loop bound over a sequence-number range, an allocation size, '
                       'an index/slice/cursor operation, an unwrap/assert/panic or a BTreeMap::range is an obligation. Obligations are discharged by type rules (16-bit sources, infallible '
                       'widening, poison-only, unbounded range end), by local dominating guards, or by named guards that are re-checked on every run; the rest must be listed findings.')
    rep.assume('release builds wrap on integer overflow (debug-only overflow checks are counted, not blocking)', 'panics inside dependencies (speedy, bytes, bit-vec) are reached only through the listed call sites',
               'CPU / memory "in proportion" as a quantity is not decided beyond the listed hazards')
    rep.rule('R06.1', 'every hazard site reached by a wire-controlled value is discharged (type rule, dominating guard, named guard, reviewed invariant) or is a listed finding; unknown sites are reported')
    rep.rule('R06.2', 'every named guard the discharges rest on exists and dominates what it protects')
    rep.rule('R06.3', 'the receive path never blocks on the application: no blocking channel/thread primitive is reachable from the receive entry points, the only stream '
                      'write is the poll-event notification, and the sending end of that socket pair is set non-blocking before use')
    # the two open findings stay in the table as known findings through known_findings.json (they are violations of R06.1)
    run_config(rep, facts['default'], 'default')
    # a marker moved by the wire (HEARTBEAT / GAP on a re-created proxy) must not make the reading thread panic under the cache mutex
    rep.rule('R06.4', 'legal range bounds in the reliable hand-over query: get_changes_in_range_reliable ranges over (Excluded(lo), Excluded(max(marker, lo + 1))), so start < end even '
                      'when the reliable marker (which HEARTBEAT, GAP and DATA of a re-created writer proxy move backwards) is at or below the read pointer; BTreeMap::range panics on equal '
                      'excluded bounds, the poisoned topic-cache mutex then stops the receive thread too')
    from rules.C01 import rule_reliable_window
    rule_reliable_window(rep, facts['default'], 'R06.4')
    # the copy window of the fragment assembler (shared with C05 R05.12): the clamp to the buffer is what keeps a padded / hostile last fragment from slicing past the end
    from rules.C05 import rule_copy_window
    rule_copy_window(rep, facts['default'], 'R06.5')
    rule_06_6(rep, facts['default'])
    from rules.C09 import rule_range_bounds
    rule_range_bounds(rep, facts['default'], 'R06.7')
    if 'security' in facts:
        run_config(rep, facts['security'], 'security', floor=False)
        rule_06_6(rep, facts['security'], pre='security:')


def rule_06_6(rep, fx, pre=''):
    """Parsing loops over a datagram (after seed C06f: a lenient loop that goes on after an error, over a parser that fails before consuming anything, spins for ever on 1-3
    stray bytes and takes the single receive thread with it)."""
    from rdv.core import natural_loops
    if not pre:
        rep.rule('R06.6', 'parsing loops consume input on every cycle: in every loop that calls Submessage::read_from_buffer on the remaining bytes, the error edge of that call (Err / '
                          'the Break of `?`) leaves the loop - no path from it returns to the call -, and Submessage::read_from_buffer consumes at least the 4-byte header on every path '
                          'to an Ok(..): buffer.split_to(4 + n) on the buffer it was given. A cycle of the loop therefore shortens a finite buffer')
    n = 0
    for b in fx.bodies:
        calls = [(bb, t) for bb, t in b.calls() if callee_res(t).endswith('Submessage::read_from_buffer')]
        if not calls or b.key.endswith('Submessage::read_from_buffer') or b.j.get('test') or '::tests::' in b.key or '::test' in b.key:
            continue
        loops = natural_loops(b)
        og = Origins(b, summaries=False)
        P = Pos(b)
        edges = list(switch_edges(b, fx, og))
        for bb, t in calls:
            inl = [l for l in loops if bb in l[1]]
            if not inl:
                continue
            n += 1
            blocks = inl[0][1]
            # the remaining-bytes buffer must be the same object on every cycle: the call's argument is a &mut to a local of the function, not a fresh copy made in the loop
            # (primary edges: the re-tests of the discriminant that drop elaboration puts after a `match` are not decisions of the program)
            errs = [(s_, t_) for s_, t_, cond, lab in primary_edges(b, edges) if lab in ('Err', 'Break') and cond[0] == 'discr' and
                    term_has(cond, lambda x: x[0] == 'call' and len(x) > 3 and x[3] == bb and x[1].endswith('read_from_buffer'))]
            ok = bool(errs) and not any(P.can_reach((t_, 0), (bb, 'term')) for s_, t_ in errs)
            # results that are neither Ok nor Err-tested (e.g. `.ok()`, `if let Ok(..)`) hide the error edge: require that the result is inspected by a switch at all
            rep.check(ok, 'R06.6', '%s%s/error-leaves-loop#%d' % (pre, b.key.rsplit('::', 2)[-2] + '::' + b.key.rsplit('::', 1)[-1], n), 'Err => out of the loop',
                      '%s goes on parsing after Submessage::read_from_buffer failed (or does not look at the failure): that parser can fail before it has consumed a byte (fewer than 4 '
                      'bytes left, declared length beyond the end), so the loop sees the same bytes again - one datagram with a stray tail spins the receive thread for ever' %
                      b.key.rsplit('::', 1)[-1], b.where(bb))
    rep.floor('R06.6', n, 1, 'loops over Submessage::read_from_buffer (%s)' % (pre or 'default'))
    sb = fx.find('rtps::submessage::Submessage::read_from_buffer')
    rep.analysed(sb)
    og = Origins(sb, summaries=False)
    P = Pos(sb)
    splits = []
    for bb, t in sb.calls():
        if callee_res(t).endswith(('Bytes::split_to', 'Buf::advance', 'Bytes::advance')) and _plain6(og.of_operand(t['args'][0], bb, 'term')) == ('param', 1):
            amt = og.of_operand(t['args'][1], bb, 'term')
            if term_has(amt, lambda x: x[0] == 'const' and str(x[2]) == '4') and term_has(amt, lambda x: x[0] == 'bin' and x[1].startswith('Add')):
                splits.append((bb, 'term'))
    oks = [(bb, si) for bb, si, st in sb.statements() if st['s'] == 'assign' and st['lhs']['l'] == 0 and not st['lhs'].get('p') and st['rv']['r'] == 'agg' and st['rv'].get('variant') == 'Ok']
    # Ok values produced by the constructor closures are returned through calls: every return that is not an explicit Err must lie behind the split as well
    errs = [(bb, si) for bb, si, st in sb.statements() if st['s'] == 'assign' and st['lhs']['l'] == 0 and not st['lhs'].get('p') and st['rv']['r'] == 'agg' and st['rv'].get('variant') == 'Err']
    ok = bool(splits) and all(P.every_path_passes(None, o, via_pos=splits, from_entry=True) for o in oks)
    early = [(s_, t_) for s_, t_, cond, lab in switch_edges(sb, fx, og) if lab in ('Break', 'Err')]
    for r in sb.return_blocks():
        if not P.every_path_passes(None, (r, 'term'), via_pos=splits + errs, via_edges=early, from_entry=True):
            ok = False
    rep.check(ok, 'R06.6', '%sSubmessage::read_from_buffer/consumes' % pre, 'every non-error return lies behind buffer.split_to(4 + n)',
              'Submessage::read_from_buffer can return Ok without having taken at least the submessage header off the buffer: the caller\'s loop does not advance', sb.where())


def _plain6(t):
    while isinstance(t, tuple) and t and t[0] in ('ref', 'deref', 'copy', 'move', 'mutated') and len(t) > 1 and isinstance(t[1], tuple):
        t = t[1]
    return t
