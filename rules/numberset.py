"""Shared rule: a NumberSet iterator never reports a member outside [0, num_bits).

Used as R14.5 (C14: "never report a member outside it") and R01.7 (C01: a phantom member of a
GAP list marks a sequence number irrelevant that the writer never declared unavailable).

Argument (all three parts are checked on the MIR of the current tree):
  (init)   every construction of NumberSetIter outside derived code sets rev_at_bit from the
           num_bits field of the set it points to;
  (mono)   every store to NumberSetIter.rev_at_bit anywhere in the crate writes old - k, k >= 0,
           so rev_at_bit <= num_bits is an invariant;
  (bound)  on every CFG path of next / next_back from the function entry or a loop head to a
           `Some(x)` result, x is  From(i) + bitmap_base  with  i < rev_at_bit(at that start)
           entailed by the comparisons on the path (store-aware evaluation, rdv/sympath.py).
A bit index below num_bits <= 256 is inside the window, so no member outside it is reported.
Arithmetic is read exactly (the debug-build MIR asserts no overflow at each step; the values
involved are bounded by num_bits <= 256, R14.4).
"""
from rdv.core import CheckBroken
from rdv.sympath import SymPath, entails_lt, lin, term_find

ADT = 'structure::sequence_number::NumberSetIter'
SET = 'structure::sequence_number::NumberSet'
BAD_TYPES = ('Cell<', 'RefCell<', 'Mutex<', 'RwLock<', 'Atomic')


def iter_fns(fx):
    out = []
    for b in fx.bodies:
        k = b.key
        if k.startswith('<' + ADT) and (k.endswith('as std::iter::Iterator>::next') or k.endswith('as std::iter::DoubleEndedIterator>::next_back')):
            out.append(b)
    return out


def is_rev_cell(key):
    return key and key[-1] == ('f', 'rev_at_bit')


def is_conv(t):
    return (t[0] == 'call' and t[1].endswith('::from') and len(t[2]) == 1) or t[0] == 'cast'


def index_of_result(v):
    """The bit index a returned `N::from(i64::from(i)) + base` is built from: peel the outer
    `Add::add(conv, base)` and then the chain of integer conversions; None for another shape."""
    t = v
    if t[0] == 'call' and t[1].endswith('::add') and len(t[2]) == 2:
        cands = [x for x in t[2] if is_conv(x)]
        others = [x for x in t[2] if not is_conv(x)]
        if len(cands) != 1 or not (others[0][0] == 'init' and others[0][1][-1] == ('f', 'bitmap_base')):
            return None
        t = cands[0]
    else:
        return None
    while is_conv(t):
        t = t[2][0] if t[0] == 'call' else t[2]
    return t


def run_rule(rep, fx, rid):
    rep.rule(rid, 'NumberSetIter never yields a bit index >= num_bits: rev_at_bit is initialised from num_bits and only ever decreased, and on every '
                  'path of next/next_back to a Some(..) result the comparisons passed entail index < rev_at_bit; and the member yielded is one whose own bit '
                  '(word i/32, mask 1 << (31 - i%32)) was tested and found set on that path')
    adt = fx.adt(ADT)
    if not adt:
        raise CheckBroken('NumberSetIter not in the ADT table')
    for f in adt['variants'][0]['fields']:
        if any(x in f['ty'] for x in BAD_TYPES):
            raise CheckBroken('NumberSetIter.%s has interior mutability (%s): the store-aware evaluation does not model that' % (f['name'], f['ty']))
    # ---- (init)
    n_init = 0
    for b in fx.bodies:
        if ' as std::clone::Clone>::clone' in b.key:
            continue
        for bb, si, st in b.statements():
            if st['s'] == 'assign' and st['rv']['r'] == 'agg' and st['rv'].get('adt') == ADT:
                n_init += 1
                rep.analysed(b)
                sp = SymPath(b, fx)
                ok = True
                for path in sp.paths(0, bb):
                    s = sp.run(path, si)
                    v = sp.rvalue(s, st['rv'], bb)
                    fields = v[4]
                    rev = v[3][fields.index('rev_at_bit')]
                    seq = v[3][fields.index('seq')]
                    # rev == (*seq).num_bits as read at entry
                    want_ptr = seq[1] if seq[0] == 'ref' else (('M', seq),)
                    good = rev[0] == 'init' and rev[1] == want_ptr + (('f', 'num_bits'),)
                    if seq[0] == 'init' and rev[0] == 'init':
                        # seq is a pointer value p: rev must be (*p).num_bits
                        good = rev[1] == (('M', seq), ('f', 'num_bits'))
                    ok = ok and good
                rep.check(ok, rid, '%s/init' % b.key, 'rev_at_bit initialised from the num_bits of the referenced set',
                          '%s builds a NumberSetIter whose rev_at_bit is not the num_bits field of the set it refers to' % b.key, b.where(bb, si))
    rep.floor(rid, n_init, 1, 'constructions of NumberSetIter')
    # ---- (mono) + (bound)
    fns = iter_fns(fx)
    if len(fns) < 2:
        raise CheckBroken('NumberSetIter::next / next_back not found')
    # who may store rev_at_bit: any body in the crate with a projection store to that field
    n_somes = 0
    for b in fx.bodies:
        stores_here = False
        for bb, si, st in b.statements():
            if st['s'] == 'assign' and any(isinstance(e, dict) and e.get('n') == 'rev_at_bit' for e in (st['lhs'].get('p') or [])):
                stores_here = True
        if stores_here and b not in fns:
            rep.violation(rid, '%s/foreign-store' % b.key, '%s writes NumberSetIter.rev_at_bit outside next/next_back' % b.key, b.where())
    for b in fns:
        rep.analysed(b)
        sp = SymPath(b, fx)
        short = b.key.rsplit('::', 1)[-1]
        mono_ok, mono_n = True, 0
        # (mono): every store on every path from every start
        for start in sp.starts():
            for bb in sorted(b.live_blocks()):
                if not any(st['s'] == 'assign' and any(isinstance(e, dict) and e.get('n') == 'rev_at_bit' for e in (st['lhs'].get('p') or []))
                           for st in b.blocks[bb]['st']):
                    continue
                for path in sp.paths(start, bb):
                    s = sp.run(path, None)
                    for key, old, new, sbb, ssi in s.stores:
                        if not is_rev_cell(key):
                            continue
                        mono_n += 1
                        r0 = ('init', key)
                        if entails_lt(s.guards, new, r0, strict=False) is None:
                            mono_ok = False
        rep.check(mono_ok, rid, '%s/rev_at_bit-monotone' % short, '%d store(s) to rev_at_bit on all paths write a value <= the value at the loop head' % mono_n,
                  '%s can increase NumberSetIter.rev_at_bit: the invariant rev_at_bit <= num_bits is lost' % short, b.where())
        # (bound)
        for bb, si, st in b.statements():
            if not (st['s'] == 'assign' and st['lhs']['l'] == 0 and not st['lhs'].get('p') and st['rv']['r'] == 'agg' and st['rv'].get('variant') == 'Some'):
                continue
            n_somes += 1
            bad = None
            n_paths = 0
            why = ''
            for start in sp.starts():
                for path in sp.paths(start, bb):
                    n_paths += 1
                    s = sp.run(path, si)
                    v = sp.rvalue(s, st['rv'], bb)
                    idx = index_of_result(v[3][0])
                    if idx is None:
                        bad = 'the returned value is not built from an integer bit index (path %s)' % (list(path),)
                        break
                    revs = [k for k in [c[1] for c in term_find(('x', tuple(g[1:3] for g in s.guards)), lambda t: t[0] == 'init')] if is_rev_cell(k)]
                    goals = set(revs) or set()
                    proved = None
                    for rk in goals:
                        proved = entails_lt(s.guards, idx, ('init', rk))
                        if proved:
                            break
                    if not proved:
                        # same-base case needs no guard mentioning rev_at_bit... but the base must be the cell itself
                        base, k = lin(idx)
                        if base is not None and base[0] == 'init' and is_rev_cell(base[1]) and k < 0:
                            # i = rev_at_bit - k': needs rev_at_bit >= k' (no wrap): from  x < rev_at_bit  with x unsigned  =>  rev_at_bit >= 1
                            lower = any(entails_lt(s.guards, g_a, base) for g_a in [g[1] for g in s.guards] + [g[2] for g in s.guards]
                                        if g_a != base) if k == -1 else False
                            if lower:
                                proved = 'index = rev_at_bit%+d, rev_at_bit >= 1 from the loop guard' % k
                    if not proved:
                        bad = 'index %s is not entailed to be < rev_at_bit by the comparisons on path %s' % (str(idx)[:160], list(path))
                        break
                    why = proved
                    # (member) the path tested exactly that bit and found it set: bitmap[i / 32] & (1 << (31 - i % 32)) != 0 with i = the yielded index
                    tested = False
                    for g in s.guards:
                        if not ((g[0] == 'Ne' and g[3] is True) or (g[0] == 'Eq' and g[3] is False)):
                            continue
                        sides = [g[1], g[2]]
                        if not any(x == ('c', 0) for x in sides):
                            continue
                        word = [x for x in sides if x != ('c', 0)][0]
                        if not (word[0] == 'bin' and word[1] == 'BitAnd'):
                            continue
                        divs = term_find(word, lambda t: t[0] == 'bin' and t[1] == 'Div' and t[3] == ('c', 32))
                        rems = term_find(word, lambda t: t[0] == 'bin' and t[1] == 'Rem' and t[3] == ('c', 32))
                        if divs and rems and all(lin(_uncast(d[2])) == lin(idx) for d in divs) and all(lin(_uncast(r[2])) == lin(idx) for r in rems):
                            tested = True
                    if not tested:
                        # the other way to find a member: i = w*32 + leading_zeros(r) with r = bitmap[w] & (any mask) known to be non-zero on the path. The first set bit
                        # of r, counted from the most significant end (the RTPS numbering), is a set bit of bitmap[w]: masking only clears bits
                        parts = [idx[2], idx[3]] if idx[0] == 'bin' and idx[1] in ('Add', 'AddUnchecked') else []
                        lz = [x for x in parts if x[0] == 'call' and x[1].endswith('leading_zeros')]
                        mul = [x for x in parts if x[0] == 'bin' and x[1] in ('Mul', 'MulUnchecked') and ('c', 32) in (x[2], x[3])]
                        if lz and mul:
                            w = [x for x in (mul[0][2], mul[0][3]) if x != ('c', 32)][0]
                            r = lz[0][2][0]
                            nonzero = any(((g[0] == 'Ne' and g[3] is True) or (g[0] == 'Eq' and g[3] is False)) and ('c', 0) in (g[1], g[2]) and r in (g[1], g[2]) for g in s.guards)
                            words = term_find(r, lambda t: t[0] == 'call' and t[1].endswith('::index') and any(_uncast(a) == w for a in t[2] if isinstance(a, tuple)))
                            from_bitmap = bool(term_find(r, lambda t: t == ('f', 'bitmap')))
                            if r[0] == 'bin' and r[1] == 'BitAnd' and nonzero and words and from_bitmap:
                                tested = True
                    if not tested:
                        bad = 'the path %s yields index %s without having found bit (i/32, 31 - i%%32) of the bitmap set for that very i' % (list(path), str(idx)[:80])
                        break
                if bad:
                    break
            rep.check(bad is None and n_paths > 0, rid, '%s/some#%d/index-below-rev_at_bit' % (short, n_somes),
                      '%d path(s): %s' % (n_paths, why), '%s can yield a member outside the window: %s' % (short, bad or 'no path to the result found'),
                      b.where(bb, si))
    rep.floor(rid, n_somes, 2, 'Some(..) results of NumberSetIter::next/next_back')
    # (mask) one bit-addressing formula at every site that touches a bit: mask = 1 << (31 - i % 32), the RTPS numbering (most significant bit first)
    from rdv.core import Origins, term_str, callee_res
    n_mask = 0
    for b in fx.bodies:
        if 'structure::sequence_number::NumberSet' not in b.key or b.j.get('test'):
            continue
        og = None
        for bb, si, st in b.statements():
            if st['s'] == 'assign' and st['rv']['r'] == 'bin' and st['rv']['op'] in ('Shl', 'ShlUnchecked'):
                og = og or Origins(b, summaries=False)
                v = og._rvalue(st['rv'], bb, si, 0)
                n_mask += 1
                one, sh = v[2], v[3]
                while sh[0] == 'field' and sh[1] == '0':
                    sh = sh[2]
                ok = one == ('const', 'int', 1) and sh[0] == 'bin' and sh[1].startswith('Sub') and sh[2] == ('const', 'int', 31) and sh[3][0] == 'bin' and sh[3][1] == 'Rem' and \
                    sh[3][3] == ('const', 'int', 32)
                rep.check(ok, rid, '%s/mask#%d' % (b.key.rsplit('::', 1)[-1], n_mask), 'mask = 1 << (31 - i % 32)',
                          '%s addresses a bit with %s instead of 1 << (31 - i %% 32): the sites that set, test and serialise members no longer agree on which bit a member is'
                          % (b.key.rsplit('::', 1)[-1], term_str(v)[:80]), b.where(bb, si))
            # the word-at-a-time form addresses bits through leading_zeros of bitmap[w] & (u32::MAX >> (i % 32)): most significant bit first as well
            if st['s'] == 'assign' and st['rv']['r'] == 'bin' and st['rv']['op'] in ('Shr', 'ShrUnchecked'):
                og = og or Origins(b, summaries=False)
                v = og._rvalue(st['rv'], bb, si, 0)
                ones, sh = v[2], v[3]
                while sh[0] == 'field' and sh[1] == '0':
                    sh = sh[2]
                if ones[0] == 'const' and str(ones[-1]).endswith('::MAX') and any(callee_res(t_).endswith('leading_zeros') for _, t_ in b.calls()):
                    n_mask += 1
                    ok = sh[0] == 'bin' and sh[1] == 'Rem' and sh[3] == ('const', 'int', 32)
                    rep.check(ok, rid, '%s/mask#%d' % (b.key.rsplit('::', 1)[-1], n_mask), 'remaining bits = word & (MAX >> (i % 32)), first member by leading_zeros',
                              '%s masks the word with %s before leading_zeros instead of MAX >> (i %% 32): members before the position are found again or members after it are skipped'
                              % (b.key.rsplit('::', 1)[-1], term_str(v)[:80]), b.where(bb, si))
    rep.floor(rid, n_mask, 3, 'bit-addressing sites in NumberSet (insert, next, next_back)')


def _uncast(t):
    while t[0] == 'cast':
        t = t[2]
    return t


def rule_from_base_and_set(rep, fx, rid):
    """NumberSet::from_base_and_set keeps exactly the members of the given set that lie in [base, end] (end = the largest member, cut to base + 255).
    Shared by C14 (membership preserved inside the window) and C03 (every missing number inside the window is requested, the lowest one included)."""
    from rdv.core import Origins, Pos, callee_res, switch_edges, term_has, term_str
    rep.rule(rid, 'NumberSet::from_base_and_set inserts every element s of the given set with base <= s <= end (both bounds inclusive, conjunction) and nothing is skipped: the insert '
                  'call is on every path of the loop body; the set is cut to end = base + 255 exactly when end - base >= 256')
    b = fx.find('structure::sequence_number::NumberSet::from_base_and_set')
    rep.analysed(b)
    og = Origins(b)
    P = Pos(b)
    fcs = [c for c in fx.closures_of(b, transitive=False) if c.argc == 2 and sorted(callee_res(t).rsplit('::', 1)[-1] for _bb, t in c.calls()) == ['le', 'le']]
    okf = len(fcs) == 1
    why = 'filter closure with two `<=` comparisons: %d' % len(fcs)
    if okf:
        c = fcs[0]
        ogc = Origins(c)
        rv = ogc.of_local(0, c.return_blocks()[0], 'term')
        edges = list(switch_edges(c, fx, ogc))
        first = [cond for s_, t_, cond, lab in edges if lab is True and cond[0] == 'call']
        # base <= s  (True continues to)  s <= end ; False gives false
        lo = first and first[0][1].endswith('::le') and term_has(first[0][2][0], lambda x: x[0] in ('field', 'captured') and 'base' in str(x[1])) and term_has(first[0][2][1], lambda x: x == ('param', 2))
        hi = rv[0] == 'phi' and ('const', 'int', 0) in rv[1] and any(a[0] == 'call' and a[1].endswith('::le') and term_has(a[2][0], lambda x: x == ('param', 2)) and
                                                                     term_has(a[2][1], lambda x: x[0] in ('field', 'captured') and 'end' in str(x[1])) for a in rv[1])
        okf = bool(lo) and bool(hi) and len(rv[1]) == 2
        why = 'filter = %s' % term_str(rv)[:80]
    rep.check(okf, rid, 'from_base_and_set/filter', 'keeps s with base <= s && s <= end',
              'from_base_and_set does not keep exactly the members with base <= s <= end (%s): the lowest missing number (the base itself) or the highest one drops out of the set' % why, b.where())
    ins = [(bb, 'term') for bb, t in b.calls() if callee_res(t).endswith('NumberSet::<N>::insert') or callee_res(t).endswith('NumberSet::insert')]
    nexts = [(bb, t) for bb, t in b.calls() if callee_res(t).endswith('::next') and term_has(og.of_operand(t['args'][0], bb, 'term'), lambda x: x[0] == 'call' and x[1].endswith('::filter'))]
    oki = len(ins) == 1 and len(nexts) == 1
    if oki:
        nb = nexts[0][0]
        some = [(s_, t_) for s_, t_, cond, lab in switch_edges(b, fx, og) if lab == 'Some' and cond[0] == 'discr' and term_has(cond, lambda x: x[0] == 'call' and len(x) > 3 and x[3] == nb)]
        oki = bool(some)
        for s_, t_ in some:
            if P.can_reach((t_, 0), (nb, 'term'), avoid_pos=ins):
                oki = False
        a = og.of_operand(b.blocks[ins[0][0]]['term']['args'][1], ins[0][0], 'term')
        oki = oki and term_has(a, lambda x: x[0] == 'call' and len(x) > 3 and x[3] == nb)
    rep.check(oki, rid, 'from_base_and_set/insert-each', 'every element the filter lets through is inserted',
              'from_base_and_set does not insert every selected member: requested / acknowledged numbers silently disappear from the set', b.where())
    g = [(cond, lab) for s_, t_, cond, lab in switch_edges(b, fx, og) if cond[0] == 'bin' and cond[1] in ('Ge', 'Gt') and cond[3][0] == 'const' and term_has(cond[2], lambda x: x[0] == 'bin' and x[1].startswith('Sub'))]
    okw = any((c[1] == 'Ge' and int(c[3][2]) == 256) or (c[1] == 'Gt' and int(c[3][2]) == 255) for c, _l in g)
    rep.check(okw, rid, 'from_base_and_set/window-cut', 'cut to base + 255 when end - base >= 256',
              'from_base_and_set does not cut the set exactly at 256 numbers (%s)' % [term_str(c)[-30:] for c, _l in g][:2], b.where())
