"""C03  ACKNACKs never acknowledge or request what they should not.

Who-may-write + guard and provenance rules. That each listed sequence number "is really
missing" for arbitrary histories is not decided.
"""
from rdv.core import (CheckBroken, Origins, Pos, call_matches, callee_res, norm_path, resolve_captures, strip_generics,
                      switch_edges, term_has, term_leaves, term_str)

CONFIGS = ['default']
LEVEL = 'other'

WP = 'rtps::rtps_writer_proxy::RtpsWriterProxy::'


def has_field(t, name):
    return term_has(t, lambda x: x[0] == 'field' and x[1] == name)


def has_call(t, suffix):
    return term_has(t, lambda x: x[0] == 'call' and x[1].endswith(suffix))


def param_names(b):
    return {d.get('arg'): d['name'] for d in b.j.get('dbg', []) if d.get('arg')}


def run(rep, facts, tier):
    fx = facts['default']
    rep.explanation = ('The acknowledgment frontier (RtpsWriterProxy.ack_base) is written only monotonically; ACKNACK/NACKFRAG counts come from a post-incremented counter; the ACKNACK '
                       'base is the first element of the unfiltered missing list (or ack_base when nothing is missing), the missing list scans [max(hb.first, ack_base), hb.last]; '
                       'NACKFRAGs name the missing fragments of the partially received sample; the 256-element window constants agree.')
    rep.assume('the per-SN status map `changes` is maintained as its comment describes', 'truth of every listed sequence number over arbitrary histories is not decided')
    rep.rule('R03.1', 'frontier writes: ack_base is written only in the constructors, advance_ack_base (value ack_base + k, k >= 1) and irrelevant_changes_range (under remove_until_before > ack_base)')
    rep.rule('R03.2', 'counts: every AckNack / NackFrag built in rtps::reader takes count from next_ack_nack_sequence_number(), which post-increments on every path')
    rep.rule('R03.3', 'base provenance: reader_sn_state = new_empty(ack_base) when nothing is missing, else from_base_and_set(first(missing_seqnums(hb.first, hb.last)), ..) with first() '
                      'taken of the unfiltered list; missing_seqnums scans [max(hb_first, ack_base), hb_last] and reports exactly the sequence numbers absent from `changes`')
    rep.rule('R03.4', 'the ACKNACK set is limited to the 256-window (take_while sn < first_missing + 256)')
    rep.rule('R03.5', 'a NACKFRAG names writer_sn of a partially received sample and the fragments missing_frags_for(writer, that sn) with base = the first missing fragment')

    # ------------------------------------------------------------ R03.1
    allowed = {WP + 'advance_ack_base': 'advance', WP + 'irrelevant_changes_range': 'gap/heartbeat'}
    n = 0
    for b in fx.bodies:
        og = None
        for bb, si, st in b.statements():
            if st['s'] != 'assign':
                continue
            pr = st['lhs'].get('p') or []
            if not (pr and isinstance(pr[-1], dict) and pr[-1].get('n') == 'ack_base' and (pr[-1].get('adt') or '').endswith('RtpsWriterProxy')):
                continue
            n += 1
            rep.analysed(b)
            og = og or Origins(b, summaries=True)
            P = Pos(b)
            if b.key not in allowed:
                rep.violation('R03.1', '%s/writes-ack_base' % b.key, 'ack_base is written in %s, outside advance_ack_base / irrelevant_changes_range' % b.key, b.where(bb, si))
                continue
            v = og._rvalue(st['rv'], bb, si, 0)
            if allowed[b.key] == 'advance':
                # value chain: test_sn = ack_base; test_sn = test_sn + 1 ...: every stored value has passed at least one `+ 1`
                ok = term_has(v, lambda x: (x[0] == 'call' and x[1].rsplit('::', 1)[-1] in ('add', 'plus_1')) or (x[0] == 'bin' and x[1].startswith('Add')))
                ok = ok and has_field(v, 'ack_base')
                neg = term_has(v, lambda x: (x[0] == 'call' and x[1].rsplit('::', 1)[-1] in ('sub', 'minus_1', 'neg')) or (x[0] == 'bin' and x[1].startswith('Sub')))
                # the stored value itself must be an incremented one, not the raw start value
                if v[0] == 'phi':
                    ok = ok and all(term_has(y, lambda x: (x[0] == 'call' and x[1].rsplit('::', 1)[-1] in ('add', 'plus_1')) or (x[0] == 'bin' and x[1].startswith('Add')) or x[0] == 'local') for y in v[1])
                rep.check(ok and not neg, 'R03.1', '%s/store#%d' % (b.key, n), 'ack_base := ack_base + k (k >= 1)',
                          'advance_ack_base stores %s, which is not ack_base advanced by additions only' % term_str(v)[:120], b.where(bb, si))
            else:
                pn = param_names(b)
                until = [i for i, nm in pn.items() if nm == 'remove_until_before']
                okv = bool(until) and v == ('param', until[0])
                guards = []
                for s_, t_, cond, lab in switch_edges(b, fx, og):
                    if cond[0] == 'call' and cond[1].startswith('std::cmp::PartialOrd::') and until:
                        m = cond[1].rsplit('::', 1)[-1]
                        a, c = cond[2]
                        U, A = ('param', until[0]), ('field', 'ack_base', ('param', 1))
                        if (a, c) == (U, A) and ((m == 'gt' and lab is True) or (m == 'le' and lab is False)):
                            guards.append((s_, t_))
                        if (a, c) == (A, U) and ((m == 'lt' and lab is True) or (m == 'ge' and lab is False)):
                            guards.append((s_, t_))
                okg = bool(guards) and P.every_path_passes(None, (bb, si), via_edges=guards, from_entry=True)
                rep.check(okv and okg, 'R03.1', '%s/store#%d' % (b.key, n), 'ack_base := remove_until_before under remove_until_before > ack_base',
                          'irrelevant_changes_range can move ack_base to %s without the guard remove_until_before > ack_base: the frontier could decrease' % term_str(v)[:80], b.where(bb, si))
    rep.floor('R03.1', n, 2, 'stores to RtpsWriterProxy.ack_base')
    # advance_ack_base is called after irrelevant_changes_range's jump, set_irrelevant_change and received_changes_add only when seq == ack_base
    for fn in ('received_changes_add', 'set_irrelevant_change'):
        b = fx.find(WP + fn)
        rep.analysed(b)
        og = Origins(b, summaries=True)
        P = Pos(b)
        eqs = [(s_, t_) for s_, t_, cond, lab in switch_edges(b, fx, og) if cond[0] == 'call' and cond[1].endswith('::eq') and lab is True and
               ('param', 2) in cond[2] and ('field', 'ack_base', ('param', 1)) in cond[2]]
        adv = [(bb, 'term') for bb, t in b.calls() if call_matches(t, 'RtpsWriterProxy::advance_ack_base')]
        ok = bool(eqs) and bool(adv) and all(P.every_path_passes(None, a, via_edges=eqs, from_entry=True) for a in adv)
        for s_, t_ in eqs:
            for r in b.return_blocks():
                if P.can_reach((t_, 0), (r, 'term'), avoid_pos=adv):
                    ok = False
        rep.check(ok, 'R03.1', '%s/advance-iff-at-base' % fn, 'advance_ack_base() exactly when seq_num == ack_base',
                  '%s does not advance the frontier exactly when the sequence number equals ack_base' % fn, b.where())

    # ------------------------------------------------------------ R03.2
    nx = fx.find(WP + 'next_ack_nack_sequence_number')
    rep.analysed(nx)
    og = Origins(nx, summaries=True)
    P = Pos(nx)
    stores = []
    for bb, si, st in nx.statements():
        if st['s'] == 'assign':
            pr = st['lhs'].get('p') or []
            if pr and isinstance(pr[-1], dict) and pr[-1].get('n') == 'sent_ack_nack_count':
                v = og._rvalue(st['rv'], bb, si, 0)
                if term_has(v, lambda x: x[0] == 'bin' and x[1].startswith('Add') and x[3] == ('const', 'int', 1)) and has_field(v, 'sent_ack_nack_count'):
                    stores.append((bb, si))
    ok = bool(stores) and all(P.every_path_passes(None, (r, 'term'), via_pos=stores, from_entry=True) for r in nx.return_blocks())
    t0 = og.of_local(0, nx.return_blocks()[0], 'term')
    rep.check(ok and t0 == ('field', 'sent_ack_nack_count', ('param', 1)), 'R03.2', 'next_ack_nack_sequence_number/post-increment', 'returns the old value and increments on every path',
              'next_ack_nack_sequence_number does not post-increment sent_ack_nack_count on every path', nx.where())
    n = 0
    for b in fx.bodies:
        if not b.key.startswith('rtps::reader::'):
            continue
        og = None
        for bb, si, st in b.statements():
            if st['s'] == 'assign' and st['rv']['r'] == 'agg' and st['rv'].get('kind') == 'adt' and strip_generics(st['rv']['adt']).rsplit('::', 1)[-1] in ('AckNack', 'NackFrag') \
                    and 'count' in (st['rv'].get('fields') or []):
                n += 1
                rep.analysed(b)
                og = og or Origins(b, summaries=True)
                c = og.of_operand(st['rv']['ops'][st['rv']['fields'].index('count')], bb, si)
                ok = c[0] == 'call' and c[1].endswith('next_ack_nack_sequence_number')
                rep.check(ok, 'R03.2', '%s/%s#%d/count' % (b.key, strip_generics(st['rv']['adt']).rsplit('::', 1)[-1], n), 'count = next_ack_nack_sequence_number()',
                          'the count of an %s is %s, not next_ack_nack_sequence_number()' % (strip_generics(st['rv']['adt']).rsplit('::', 1)[-1], term_str(c)[:60]), b.where(bb, si))
    rep.floor('R03.2', n, 3, 'AckNack / NackFrag constructions in rtps::reader')

    # ------------------------------------------------------------ R03.3
    hb = fx.find('rtps::reader::Reader::handle_heartbeat_msg')
    cl = [c for c in fx.closures_of(hb) if any(call_matches(t, 'RtpsWriterProxy::missing_seqnums') for _, t in c.calls())]
    if len(cl) != 1:
        raise CheckBroken('handle_heartbeat_msg: worker closure calling missing_seqnums not found (%d)' % len(cl))
    c = cl[0]
    rep.analysed(hb, c)
    og = Origins(c, summaries=True)
    P = Pos(c)
    ms = [(bb, t) for bb, t in c.calls() if call_matches(t, 'RtpsWriterProxy::missing_seqnums')]
    bb, t = ms[0]
    a1 = resolve_captures(fx, c, og.of_operand(t['args'][1], bb, 'term'))
    a2 = resolve_captures(fx, c, og.of_operand(t['args'][2], bb, 'term'))
    rep.check(has_field(a1, 'first_sn') and has_field(a2, 'last_sn'), 'R03.3', 'handle_heartbeat_msg/missing-range', 'missing_seqnums(heartbeat.first_sn, heartbeat.last_sn)',
              'missing_seqnums is not asked about the range the HEARTBEAT advertises (%s, %s)' % (term_str(a1)[:40], term_str(a2)[:40]), c.where(bb))
    msbb = bb
    n_an = 0
    for bb, si, st in c.statements():
        if st['s'] == 'assign' and st['rv']['r'] == 'agg' and st['rv'].get('kind') == 'adt' and strip_generics(st['rv']['adt']).endswith('::AckNack'):
            n_an += 1
            rs = og.of_operand(st['rv']['ops'][st['rv']['fields'].index('reader_sn_state')], bb, si)
            alts = rs[1] if rs[0] == 'phi' else (rs,)
            kinds = set()
            for a in alts:
                if a[0] == 'call' and a[1].endswith('from_base_and_set'):
                    base = a[2][0]
                    # base = (first(deref(missing_seqnums(..))) as Some).0   with first() applied directly to the result of missing_seqnums
                    firsts = [x for x in term_leaves(base) if x[0] == 'call' and x[1].endswith('::first')]
                    ok = bool(firsts) and all(term_has(f[2][0], lambda y: y[0] == 'call' and y[1].endswith('missing_seqnums') and y[3] == msbb) for f in firsts)
                    direct = bool(firsts) and all(_unfiltered(f[2][0]) for f in firsts)
                    rep.check(ok and direct, 'R03.3', 'handle_heartbeat_msg/acknack-base', 'base = first element of the unfiltered missing_seqnums(..) list',
                              'the ACKNACK base is %s: it must be the lowest missing sequence number (first() of the unfiltered missing list), otherwise a partially '
                              'received or skipped sample below the base is acknowledged' % term_str(base)[:120], c.where(bb, si))
                    kinds.add('set')
                    # the listed set derives from the same missing list
                    rep.check(term_has(a[2][1], lambda y: y[0] == 'call' and y[1].endswith('missing_seqnums') and y[3] == msbb), 'R03.3', 'handle_heartbeat_msg/acknack-set',
                              'listed numbers come from missing_seqnums(..)', 'the sequence numbers listed in the ACKNACK do not come from missing_seqnums', c.where(bb, si))
                elif a[0] == 'call' and a[1].endswith('new_empty'):
                    ok = a[2][0] == ('field', 'ack_base', a[2][0][2]) if a[2][0][0] == 'field' else False
                    rep.check(ok, 'R03.3', 'handle_heartbeat_msg/acknack-empty-base', 'nothing missing: base = ack_base (all_ackable_before)',
                              'with nothing missing the ACKNACK base is %s, not all_ackable_before()' % term_str(a[2][0])[:80], c.where(bb, si))
                    kinds.add('empty')
                else:
                    rep.violation('R03.3', 'handle_heartbeat_msg/acknack-state#%d' % n_an, 'reader_sn_state built by an unrecognised expression %s' % term_str(a)[:100], c.where(bb, si))
            rep.check(kinds == {'set', 'empty'}, 'R03.3', 'handle_heartbeat_msg/acknack-cases', 'both cases present (missing / nothing missing)',
                      'reader_sn_state does not distinguish "something missing" from "nothing missing" (%s)' % sorted(kinds), c.where(bb, si))
    rep.floor('R03.3', n_an, 1, 'AckNack construction in the heartbeat worker')
    mq = fx.find(WP + 'missing_seqnums')
    rep.analysed(mq)
    og = Origins(mq, summaries=True)
    for bb, t in mq.calls():
        if callee_res(t).endswith('range_inclusive'):
            lo = og.of_operand(t['args'][0], bb, 'term')
            hi = og.of_operand(t['args'][1], bb, 'term')
            ok = lo[0] == 'call' and lo[1].endswith('cmp::max') and ('param', 2) in lo[2] and ('field', 'ack_base', ('param', 1)) in lo[2] and hi == ('param', 3)
            rep.check(ok, 'R03.3', 'missing_seqnums/interval', '[max(hb_first, ack_base), hb_last]',
                      'missing_seqnums scans [%s, %s] instead of [max(hb_first, ack_base), hb_last]' % (term_str(lo)[:50], term_str(hi)[:30]), mq.where(bb))
    # pushes only numbers of the scanned interval that are not in `changes`
    P = Pos(mq)
    pushes = [(bb, t) for bb, t in mq.calls() if callee_res(t).endswith('::push')]
    ok = bool(pushes) and all(term_has(og.of_operand(t['args'][1], bb, 'term'), lambda x: x[0] == 'call' and x[1].endswith('::next') and has_call(x, 'range_inclusive')) for bb, t in pushes)
    known_eq = [(s_, t_) for s_, t_, cond, lab in switch_edges(mq, fx, og) if cond[0] == 'call' and cond[1].endswith('::eq') and lab is True and has_field(cond, 'changes')]
    for bb, t in pushes:
        for s_, t_ in known_eq:
            if P.can_reach((t_, 0), (bb, 'term'), avoid_pos=[(nb, 'term') for nb, nt in mq.calls() if callee_res(nt).endswith('::next') and has_call(og.of_operand(nt['args'][0], nb, 'term'), 'range_inclusive')]):
                ok = False
    rep.check(ok and bool(known_eq), 'R03.3', 'missing_seqnums/membership', 'a number is reported missing only if it is not a key of `changes`',
              'missing_seqnums can report a sequence number that is present in `changes` (received or not available)', mq.where())

    # ------------------------------------------------------------ R03.4
    tw = [x for x in fx.closures_of(c) + fx.closures_of(hb) if any(callee_res(t).rsplit('::', 1)[-1] == 'lt' or (t['f'].get('def') or '').endswith('PartialOrd::lt') for _, t in x.calls())]
    found = False
    for x in tw:
        ogx = Origins(x, summaries=True)
        for bb, t in x.calls():
            if (t['f'].get('def') or '').endswith('PartialOrd::lt') and 'SequenceNumber' in (t['f'].get('self_ty') or ''):
                b2 = resolve_captures(fx, x, ogx.of_operand(t['args'][1], bb, 'term'))
                if term_has(b2, lambda y: y == ('const', 'int', 256)) and term_has(b2, lambda y: y[0] == 'call' and y[1].endswith('::first')):
                    found = True
    rep.check(found, 'R03.4', 'handle_heartbeat_msg/window', 'listed numbers limited to sn < first_missing + 256',
              'the ACKNACK set is not limited to the 256-number window starting at the first missing number', c.where())

    # ------------------------------------------------------------ R03.5
    n_nf = 0
    og = Origins(c, summaries=True)
    for bb, si, st in c.statements():
        if st['s'] == 'assign' and st['rv']['r'] == 'agg' and st['rv'].get('kind') == 'adt' and strip_generics(st['rv']['adt']).endswith('::NackFrag'):
            n_nf += 1
            f = st['rv']['fields']
            sn = og.of_operand(st['rv']['ops'][f.index('writer_sn')], bb, si)
            fs = og.of_operand(st['rv']['ops'][f.index('fragment_number_state')], bb, si)
            ok_sn = term_has(sn, lambda y: y[0] == 'call' and y[1].endswith('::next'))
            ok_fs = fs[0] == 'call' and fs[1].endswith('from_base_and_set') and has_call(fs, 'missing_frags_for')
            same_sn = ok_fs and any(y[0] == 'call' and y[1].endswith('missing_frags_for') and y[2][2] == sn for y in term_leaves(fs))
            base_first = ok_fs and term_has(fs[2][0], lambda y: y[0] == 'call' and y[1].endswith('::next') and has_call(y, 'missing_frags_for'))
            rep.check(ok_sn and ok_fs and same_sn and base_first, 'R03.5', 'handle_heartbeat_msg/nackfrag#%d' % n_nf,
                      'NackFrag{writer_sn: sn, fragments: missing_frags_for(writer, sn), base: first missing}',
                      'a NACKFRAG does not name the missing fragments of the sample it is about (sn=%s, set=%s)' % (term_str(sn)[:40], term_str(fs)[:80]), c.where(bb, si))
    rep.floor('R03.5', n_nf, 1, 'NackFrag construction')

    # ------------------------------------------------------------ R03.6 (shared with C01 R01.6)
    rep.rule('R03.6', 'exclusive-bound discipline: an exclusive "..._before" bound (GAP list base, HEARTBEAT first) used as the end of an inclusive sequence-number range is decremented by one; '
                      'otherwise the first number after the range is marked unavailable, the ACKNACK base steps over a sample never received nor declared unavailable')
    from rules.C01 import rule_exclusive_bound
    rule_exclusive_bound(rep, fx, 'R03.6')

    # ------------------------------------------------------------ R03.7
    rule_03_7(rep, fx)
    rule_03_9(rep, fx)
    rule_03_11(rep, fx)
    rule_03_12(rep, fx)
    # the GAP list and the NACKFRAG / ACKNACK sets are walked with NumberSetIter: a phantom member marks a number irrelevant that the writer never declared unavailable,
    # and the next ACKNACK then acknowledges a sample that was never received (shared with C01 R01.7 / C14 R14.5; added after seed C03e)
    from rules import numberset
    numberset.run_rule(rep, fx, 'R03.13')
    # R03.14 the request onto the wire (mutation round 4: the writer-side twin, a deleted send_to_locator, survived everything)
    from rules import builtsent
    builtsent.run_reader_wire(rep, fx, 'R03.14')
    # a sample skipped as complete-but-unusable is acknowledged: the assembler's answer decides it (after seed C03g)
    from rdv import report as _report
    _report.borrow(rep, facts, tier, 'C05', {'R05.18': 'R03.15', 'R05.1': 'R03.16'})
    from rules import numberset as _ns
    _ns.rule_from_base_and_set(rep, fx, 'R03.10')

    # ------------------------------------------------------------ R03.8 crossed roles (shared lint, rdv/swaplint.py)
    from rdv import swaplint
    swaplint.run_rule(rep, facts['default'], 'R03.8', ['rtps::reader', 'rtps::rtps_writer_proxy'])


def _unfiltered(t, depth=0):
    """first() is applied to the missing_seqnums result directly (through deref/borrow only)."""
    if depth > 6:
        return False
    if t[0] == 'call' and t[1].endswith('missing_seqnums'):
        return True
    if t[0] == 'mutated':
        return _unfiltered(t[1], depth + 1)
    if t[0] == 'call' and t[1].rsplit('::', 1)[-1] in ('deref', 'as_slice', 'as_ref', 'borrow', 'deref_mut') and t[2]:
        return _unfiltered(t[2][0], depth + 1)
    return False


def predicate_implies_ack_base_le(fx, body, c):
    """Does `body` (a bool method of RtpsWriterProxy) return true only if self.ack_base <= c?  Every assignment of something that can be true to the
    return place must lie behind the True edge of a comparison of self.ack_base with a constant k that implies it (== k, k <= c; <= k, k <= c; < k, k <= c + 1)."""
    og = Origins(body, summaries=False)
    P = Pos(body)
    good = []
    for s_, t_, cond, lab in switch_edges(body, fx, og):
        if lab is not True or cond[0] != 'call' or len(cond[2]) != 2:
            continue
        name = cond[1].rsplit('::', 1)[-1]
        a, b_ = cond[2]

        def konst(x):
            if x[0] == 'const' and x[1] == 'int':
                return int(x[2])
            if x[0] == 'call' and x[1].endswith('SequenceNumber::new') and x[2] and x[2][0][0] == 'const':
                return int(x[2][0][2])
            return None
        if a == ('field', 'ack_base', ('param', 1)) and konst(b_) is not None:
            k = konst(b_)
            if (name == 'eq' and k <= c) or (name == 'le' and k <= c) or (name == 'lt' and k <= c + 1):
                good.append((s_, t_))
    sites = []
    for bb, si, st in body.statements():
        if st['s'] == 'assign' and st['lhs']['l'] == 0 and not st['lhs'].get('p'):
            if not (st['rv']['r'] == 'use' and st['rv']['x'].get('o') == 'const' and st['rv']['x']['k'].get('v') in (0, False)):
                sites.append((bb, si))
    for bb, t in body.calls():
        if t['dest']['l'] == 0 and not t['dest'].get('p'):
            sites.append((bb, 'term'))
    return bool(sites) and bool(good) and all(P.every_path_passes(None, s_, via_edges=good, from_entry=True) for s_ in sites)


def rule_03_7(rep, fx):
    rep.rule('R03.7', 'every ACKNACK the reader builds has a base that cannot be below what it sent before: the base is derived from the proxy\'s ack_base (or the first missing number '
                      'at/above it), or it is a constant c sent only to proxies selected by a predicate that implies ack_base <= c')
    n = 0
    for b in fx.bodies:
        if not b.key.startswith('rtps::reader::'):
            continue
        og = None
        for bb, si, st in b.statements():
            if not (st['s'] == 'assign' and st['rv']['r'] == 'agg' and strip_generics(str(st['rv'].get('adt'))).endswith('ack_nack::AckNack')):
                continue
            n += 1
            rep.analysed(b)
            og = og or Origins(b, summaries=True)
            f = dict(zip(st['rv']['fields'], [og.of_operand(o, bb, si) for o in st['rv']['ops']]))
            state = f['reader_sn_state']
            alts = list(state[1]) if state[0] == 'phi' else [state]
            ok = True
            why = []
            for a in alts:
                base = a[2][0] if a[0] == 'call' and a[2] else a
                if term_has(base, lambda x: x[0] == 'field' and x[1] == 'ack_base') or term_has(base, lambda x: x[0] == 'call' and x[1].endswith(('missing_seqnums', 'all_ackable_before'))):
                    continue
                if base[0] == 'call' and base[1].endswith('SequenceNumber::new') and base[2] and base[2][0][0] == 'const':
                    c = int(base[2][0][2])
                elif base[0] == 'const' and base[1] == 'int':
                    c = int(base[2])
                else:
                    ok = False
                    why.append('base %s is neither derived from ack_base nor a constant' % term_str(base)[:60])
                    continue
                # the proxy addressed is drawn from an iterator filtered by a closure that returns a proxy predicate
                w = f['writer_id']
                filt = []
                term_has(w, lambda x: x[0] == 'call' and x[1].endswith('::filter') and len(x[2]) == 2 and filt.append(x))
                pred_ok = False
                for fl in filt:
                    cl = fl[2][1]
                    if cl[0] != 'agg':
                        continue
                    for cbody in fx.closures_of(b):
                        if cbody.key != norm_path(str(cl[1])):
                            continue
                        cog = Origins(cbody, summaries=False)
                        rets = cbody.return_blocks()
                        rv = cog.of_local(0, rets[0], 'term') if rets else ('unknown',)
                        if rv[0] == 'call' and 'RtpsWriterProxy::' in rv[1]:
                            for pb in fx.by_key.get(norm_path(rv[1]), []):
                                if predicate_implies_ack_base_le(fx, pb, c):
                                    pred_ok = True
                if not pred_ok:
                    ok = False
                    why.append('constant base %d is sent to proxies not known to have ack_base <= %d' % (c, c))
            rep.check(ok, 'R03.7', '%s/acknack#%d/base' % (b.key, n), 'base from ack_base / first missing, or a constant under a predicate implying ack_base <= it',
                      '%s builds an ACKNACK whose base can be lower than one sent before (%s): the base decreases during a match and acknowledged samples are requested again' % (b.key, '; '.join(why)), b.where(bb, si))
    rep.floor('R03.7', n, 2, 'constructions of AckNack in rtps::reader')


def rule_03_9(rep, fx):
    """Added after the mutation campaign (selftest/mutation/C03.json): the request is really sent, partially received samples go to NACKFRAG and only those, the known-changes
    window covers one-element intervals."""
    rep.rule('R03.9', 'the request goes out: in the HEARTBEAT worker, from "missing list not empty" and from "final flag not set" every path to the return passes send_acknack_to; a '
                      'sample is kept out of the ACKNACK set exactly when is_frag_partially_received() and is then put on the NACKFRAG list; every NACKFRAG built is pushed and the list '
                      'is sent when not empty; missing_seqnums reads the known changes whenever the interval is not empty (begin <= end, one-element intervals included)')
    hb = fx.find('rtps::reader::Reader::handle_heartbeat_msg')
    ws = [c for c in fx.closures_of(hb, transitive=False) if any(callee_res(t).endswith('missing_seqnums') for _bb, t in c.calls())]
    if len(ws) != 1:
        raise CheckBroken('heartbeat worker closure not found (%d)' % len(ws))
    w = ws[0]
    rep.analysed(w)
    og = Origins(w)
    P = Pos(w)
    edges = list(switch_edges(w, fx, og))
    sends = [(bb, 'term') for bb, t in w.calls() if callee_res(t).endswith('send_acknack_to')]
    need = [(s_, t_) for s_, t_, cond, lab in edges if (lab is False and cond[0] == 'call' and cond[1].endswith('::is_empty') and term_has(cond, lambda x: x[0] == 'call' and x[1].endswith('missing_seqnums')))
            or (lab is False and cond[0] == 'field' and cond[1] == 'final_flag_set')]
    ok = len(need) == 2 and bool(sends)
    for s_, t_ in need:
        for r in w.return_blocks():
            if P.can_reach((t_, 0), (r, 'term'), avoid_pos=sends):
                ok = False
    rep.check(ok, 'R03.9', 'handle_heartbeat_msg/acknack-sent-when-needed', 'non-empty missing list => ACKNACK; final flag unset => ACKNACK',
              'a HEARTBEAT can be processed with samples missing (or with the final flag unset) and no ACKNACK sent: the lowest missing sample is not requested', w.where())
    # the filter that keeps partially received samples out of the ACKNACK set
    fc = [c for c in fx.closures_of(w, transitive=False) if any(callee_res(t).endswith('is_frag_partially_received') for _bb, t in c.calls())]
    okf = len(fc) == 1
    if okf:
        c = fc[0]
        rep.analysed(c)
        ogc = Origins(c)
        Pc = Pos(c)
        ce = list(switch_edges(c, fx, ogc))
        t_edge = [(s_, t_) for s_, t_, cond, lab in ce if lab is True and cond[0] == 'call' and cond[1].endswith('is_frag_partially_received')]
        f_edge = [(s_, t_) for s_, t_, cond, lab in ce if lab is False and cond[0] == 'call' and cond[1].endswith('is_frag_partially_received')]
        pushes = [(bb, 'term') for bb, t in c.calls() if callee_res(t).endswith('::push')]
        rets = {}
        for bb, si, st in c.statements():
            if st['s'] == 'assign' and st['lhs']['l'] == 0 and not st['lhs'].get('p') and st['rv']['r'] == 'use' and st['rv']['x'].get('o') == 'const':
                rets[(bb, si)] = int(st['rv']['x']['k']['v'])
        okf = len(t_edge) == 1 and len(f_edge) == 1 and bool(pushes) and len(rets) == 2
        if okf:
            for pos, v in rets.items():
                via = t_edge if v == 0 else f_edge
                okf = okf and Pc.every_path_passes(None, pos, via_edges=via, from_entry=True)
            # the push is on the partially-received side, on every path
            for r in c.return_blocks():
                if Pc.can_reach((t_edge[0][1], 0), (r, 'term'), avoid_pos=pushes) or any(Pc.can_reach((f_edge[0][1], 0), p_) for p_ in pushes):
                    okf = False
            ogp = ogc.of_operand(c.blocks[pushes[0][0]]['term']['args'][1], pushes[0][0], 'term')
            okf = okf and term_has(ogp, lambda x: x == ('param', 2))
    rep.check(okf, 'R03.9', 'handle_heartbeat_msg/partial-filter', 'partially received => off the ACKNACK set and onto the NACKFRAG list; otherwise kept',
              'the filter that separates partially received samples from the ACKNACK set has the wrong polarity or does not record them for NACKFRAG', w.where())
    # NACKFRAG emission
    np = [(bb, 'term') for bb, t in w.calls() if callee_res(t).endswith('::push') and 'NackFrag' in (w.locals[t['args'][1]['pl']['l']] if t['args'][1].get('o') in ('copy', 'move') else '')]
    nfagg = [(bb, si) for bb, si, st in w.statements() if st['s'] == 'assign' and st['rv']['r'] == 'agg' and strip_generics(str(st['rv'].get('adt'))).endswith('nack_frag::NackFrag')]
    sendnf = [(bb, 'term') for bb, t in w.calls() if callee_res(t).endswith('send_nackfrags_to')]
    nonempty = [(s_, t_) for s_, t_, cond, lab in edges if lab is False and cond[0] == 'call' and cond[1].endswith('::is_empty') and not term_has(cond, lambda x: x[0] == 'call' and x[1].endswith('missing_seqnums'))]
    okn = bool(np) and bool(nfagg) and bool(sendnf) and bool(nonempty)
    heads = [(bb, 'term') for bb, t in w.calls() if callee_res(t).endswith('::next')]
    for a in nfagg:
        for g in heads + [(r, 'term') for r in w.return_blocks()]:
            if P.can_reach(a, g, avoid_pos=np):
                okn = False
    for s_, t_ in nonempty:
        for r in w.return_blocks():
            if P.can_reach((t_, 0), (r, 'term'), avoid_pos=sendnf):
                okn = False
    rep.check(okn, 'R03.9', 'handle_heartbeat_msg/nackfrag-sent', 'every NACKFRAG built is pushed; a non-empty list is sent',
              'a NACKFRAG that was built for a partially received sample is not pushed, or the non-empty list is not sent', w.where())
    # missing_seqnums: the known-changes window
    ms = fx.find('rtps::rtps_writer_proxy::RtpsWriterProxy::missing_seqnums')
    rep.analysed(ms)
    ogm = Origins(ms)
    Pm = Pos(ms)
    rng = [(bb, 'term') for bb, t in ms.calls() if callee_res(t).endswith('BTreeMap::<K, V, A>::range') or (callee_res(t).endswith('::range') and 'BTreeMap' in callee_res(t))]
    g = [(s_, t_) for s_, t_, cond, lab in switch_edges(ms, fx, ogm) if lab is True and cond[0] == 'call' and cond[1].rsplit('::', 1)[-1] == 'le' and
         'begin' in term_str(cond[2][0]) and 'end' in term_str(cond[2][1])]
    g += [(s_, t_) for s_, t_, cond, lab in switch_edges(ms, fx, ogm) if lab is True and cond[0] == 'call' and cond[1].rsplit('::', 1)[-1] == 'ge' and
          'end' in term_str(cond[2][0]) and 'begin' in term_str(cond[2][1])]
    okm = len(rng) == 1 and bool(g) and Pm.every_path_passes(None, rng[0], via_edges=g, from_entry=True)
    strict = [1 for s_, t_, cond, lab in switch_edges(ms, fx, ogm) if cond[0] == 'call' and cond[1].rsplit('::', 1)[-1] in ('lt', 'gt') and 'begin' in term_str(cond) and 'end' in term_str(cond)]
    # a number is pushed both when no known change is left and when the next known change is a later one
    pushes = [(bb, 'term') for bb, t in ms.calls() if callee_res(t).endswith('::push')]
    loop_next = [(bb, 'term') for bb, t in ms.calls() if callee_res(t).endswith('::next') and 'SequenceNumberRange' in callee_res(t)]
    # the two decisions: `known_head` is None (the inspected value comes from the iterator over the collected known changes), or it is Some(k) with k != s
    dec = [(s_, t_) for s_, t_, cond, lab in switch_edges(ms, fx, ogm) if (lab == 'None' and cond[0] == 'discr' and term_has(cond, lambda x: x[0] == 'field' and x[1] == 'changes'))
           or (lab is False and cond[0] == 'call' and cond[1].rsplit('::', 1)[-1] == 'eq' and term_has(cond, lambda x: x[0] == 'field' and x[1] == 'changes'))]
    okp = len(pushes) >= 2 and bool(loop_next) and len(dec) >= 2
    for s_, t_ in dec:
        for g_ in loop_next + [(r, 'term') for r in ms.return_blocks()]:
            if Pm.can_reach((t_, 0), g_, avoid_pos=pushes):
                okp = False
    rep.check(okp, 'R03.9', 'missing_seqnums/pushed-when-unknown', 'a scanned number is pushed when no known change is left and when the next known change is a later one',
              'missing_seqnums can scan a number that is not among the known changes without listing it as missing', ms.where())
    rep.check(okm and not strict, 'R03.9', 'missing_seqnums/known-window', 'changes.range(interval) is read under begin <= end',
              'missing_seqnums reads the known changes only for intervals of two or more numbers (strict comparison): in a one-element interval a received sample is listed as missing', ms.where())


def rule_03_11(rep, fx):
    """advance_ack_base may only step over numbers that are known, one at a time, starting with ack_base itself."""
    from rdv.sympath import SymPath
    rep.rule('R03.11', 'advance_ack_base steps one number at a time over known changes starting at ack_base itself: on every path of one loop iteration that stores to ack_base, the '
                       'iterated key was compared equal (True edge) to the counter value of the start of the iteration and the value stored is that counter + 1 (store-aware evaluation)')
    b = fx.find('rtps::rtps_writer_proxy::RtpsWriterProxy::advance_ack_base')
    rep.analysed(b)
    sp = SymPath(b, fx)
    stores = [(bb, si) for bb, si, st in b.statements() if st['s'] == 'assign' and (st['lhs'].get('p') or []) and isinstance(st['lhs']['p'][-1], dict) and st['lhs']['p'][-1].get('n') == 'ack_base']
    bad = []
    n_paths = 0
    if not stores:
        bad.append('no store to ack_base')
    for sbb, ssi in stores:
        for start in sp.starts():
            for path in sp.paths(start, sbb):
                st = sp.run(path, ssi + 1)
                if st.infeasible:
                    continue
                n_paths += 1
                mine = [x for x in st.stores if x[0] and x[0][-1] == ('f', 'ack_base') and (x[3], x[4]) == (sbb, ssi)]
                if not mine:
                    continue
                new = mine[-1][2]
                # new == add(W, new(1))
                ok_inc = new[0] == 'call' and new[1].endswith('::add') and len(new[2]) == 2 and new[2][1][0] == 'call' and new[2][1][1].endswith('SequenceNumber::new') and new[2][1][2] == (('c', 1),)
                W = new[2][0] if ok_inc else None
                # the iterated key was compared equal to W on this path
                eq_ok = False
                for _tag, tbb, x, taken in st.trace:
                    if x[0] == 'call' and x[1].endswith('::eq') and len(x[2]) == 2 and not (isinstance(taken, list) and taken == [0]):
                        vals = [a[3] if a[0] == 'ref' and len(a) > 3 else a for a in x[2]]
                        keyish = [v for v in vals if 'next' in str(v)]
                        if W is not None and W in vals and keyish:
                            eq_ok = True
                # W is the counter of the start of this iteration (a cell / local not written earlier on this path), and it is ack_base or mirrors it
                start_val = W is not None and (W[0] == 'init')
                if not (ok_inc and eq_ok and start_val):
                    bad.append('path %s stores %s (increment by one: %s, key == counter on the path: %s)' % (list(path)[:6], str(new)[:70], ok_inc, eq_ok))
    rep.check(not bad and n_paths >= 1, 'R03.11', 'advance_ack_base/step', '%d path(s) to a store: key == counter, then counter + 1' % n_paths,
              'advance_ack_base can move ack_base over a number that is not known (%s): the next ACKNACK acknowledges samples that were never received and never requests them' % '; '.join(bad[:2]), b.where())


def _guarded_effect(b, fx, og, P, edge_pred, effect_suffixes, both=True):
    """(guards found, effect sites found, dominated, complete): the effect call lies behind the guard edge on every path from the entry, and (both) every path from the
    guard edge to a return passes the effect."""
    edges = list(switch_edges(b, fx, og))
    guards = [(s_, t_) for s_, t_, cond, lab in edges if edge_pred(cond, lab)]
    sites = [(bb, 'term') for bb, t in b.calls() if callee_res(t).endswith(tuple(effect_suffixes))]
    dom = bool(guards) and bool(sites) and all(P.every_path_passes(None, s_, via_edges=guards, from_entry=True) for s_ in sites)
    comp = True
    if both:
        for s_, t_ in guards:
            for r in b.return_blocks():
                if P.can_reach((t_, 0), (r, 'term'), avoid_pos=sites):
                    comp = False
    return len(guards), len(sites), dom, comp


def rule_03_12(rep, fx):
    """Reception bookkeeping of the writer proxy, the functions that keep `ack_base = lowest number neither received nor declared unavailable` true.
    Written out after the mutation campaign showed that one-token mutants of these functions survived every rule."""
    rep.rule('R03.12', 'reception bookkeeping: received_changes_add always records the number and advances the base exactly when the number equals it; set_irrelevant_change records '
                       'the marker exactly for numbers >= base and advances exactly on equality; irrelevant_changes_range takes the "move the base" branch exactly when from <= base, keeps '
                       'the changes at and after the exclusive end, moves the base only forward (end > base) and then advances it; the other branch marks every number of the range')
    WPx = 'rtps::rtps_writer_proxy::RtpsWriterProxy::'

    def cmp_edge(name, a_pred, b_pred, want):
        def pred(cond, lab):
            return lab is want and cond[0] == 'call' and cond[1].rsplit('::', 1)[-1] == name and len(cond[2]) == 2 and a_pred(cond[2][0]) and b_pred(cond[2][1])
        return pred

    def is_param(n):
        return lambda x: x == ('param', n)

    def is_base(x):
        return x == ('field', 'ack_base', ('param', 1))
    # ---- received_changes_add
    b = fx.find(WPx + 'received_changes_add')
    rep.analysed(b)
    og, P = Origins(b, summaries=False), Pos(b)
    ins = [(bb, t) for bb, t in b.calls() if callee_res(t).endswith('::insert') and 'BTreeMap' in callee_res(t)]
    ok = len(ins) == 1 and all(P.every_path_passes(None, (r, 'term'), via_pos=[(ins[0][0], 'term')], from_entry=True) for r in b.return_blocks())
    if ok:
        bb, t = ins[0]
        k = og.of_operand(t['args'][1], bb, 'term')
        v = og.of_operand(t['args'][2], bb, 'term')
        ok = k == ('param', 2) and v[0] == 'agg' and str(v[1]).endswith('Option::Some') and v[2][0] == ('param', 3)
    g = _guarded_effect(b, fx, og, P, cmp_edge('eq', is_param(2), is_base, True), ['advance_ack_base'])
    rep.check(ok and g[2] and g[3], 'R03.12', 'received_changes_add', 'insert(sn, Some(ts)) always; advance iff sn == ack_base',
              'received_changes_add does not always record the received number, or does not advance the base exactly when the number equals it (guards %d, sites %d, dominated %s, complete %s)' % g, b.where())
    # ---- set_irrelevant_change
    b = fx.find(WPx + 'set_irrelevant_change')
    rep.analysed(b)
    og, P = Origins(b, summaries=False), Pos(b)
    g1 = _guarded_effect(b, fx, og, P, cmp_edge('ge', is_param(2), is_base, True), ['BTreeMap::<K, V, A>::insert', 'BTreeMap::insert'])
    g2 = _guarded_effect(b, fx, og, P, cmp_edge('eq', is_param(2), is_base, True), ['advance_ack_base'])
    none_ok = False
    for bb, t in b.calls():
        if callee_res(t).endswith('::insert') and 'BTreeMap' in callee_res(t):
            v = og.of_operand(t['args'][2], bb, 'term')
            none_ok = og.of_operand(t['args'][1], bb, 'term') == ('param', 2) and v[0] == 'agg' and str(v[1]).endswith('Option::None')
    rep.check(g1[2] and g1[3] and g2[2] and g2[3] and none_ok, 'R03.12', 'set_irrelevant_change', 'insert(sn, None) iff sn >= ack_base; advance iff sn == ack_base',
              'set_irrelevant_change does not mark exactly the numbers at or above the base, or does not advance exactly on equality (insert %s, advance %s)' % (g1, g2), b.where())
    # ---- irrelevant_changes_range
    b = fx.find(WPx + 'irrelevant_changes_range')
    rep.analysed(b)
    og, P = Origins(b, summaries=False), Pos(b)
    edges = list(switch_edges(b, fx, og))
    le_t = [(s_, t_) for s_, t_, cond, lab in edges if cmp_edge('le', is_param(2), is_base, True)(cond, lab)]
    le_f = [(s_, t_) for s_, t_, cond, lab in edges if cmp_edge('le', is_param(2), is_base, False)(cond, lab)]
    splits = [(bb, t) for bb, t in b.calls() if callee_res(t).endswith('::split_off')]
    apps = [(bb, t) for bb, t in b.calls() if callee_res(t).endswith('::append')]
    okb = len(le_t) == 1 and len(le_f) == 1 and len(splits) == 2 and len(apps) == 1
    why = 'branch on from <= ack_base: %d/%d, split_off: %d, append: %d' % (len(le_t), len(le_f), len(splits), len(apps))
    if okb:
        if P.can_reach((splits[1][0], 'term'), (splits[0][0], 'term')):
            splits = [splits[1], splits[0]]
        k0 = og.of_operand(splits[0][1]['args'][1], splits[0][0], 'term')
        k1 = og.of_operand(splits[1][1]['args'][1], splits[1][0], 'term')
        recv1 = og.of_operand(splits[1][1]['args'][0], splits[1][0], 'term')
        app_src = og.of_operand(apps[0][1]['args'][1], apps[0][0], 'term')
        okb = k0 == ('param', 2) and k1 == ('param', 3) and term_has(recv1, lambda x: x[0] == 'call' and x[1].endswith('::split_off')) and \
            term_has(app_src, lambda x: x[0] == 'call' and x[1].endswith('::split_off') and term_has(x, lambda y: y == ('param', 3))) and \
            all(P.every_path_passes(None, (sb, 'term'), via_edges=le_t, from_entry=True) for sb, _t in splits + apps)
        for s_, t_ in le_t:
            for r in b.return_blocks():
                if P.can_reach((t_, 0), (r, 'term'), avoid_pos=[(apps[0][0], 'term')]):
                    okb = False
        why = 'split_off(%s) then split_off(%s), append of the tail' % (term_str(k0), term_str(k1))
    # base moves only forward, then advance
    stores = [(bb, si) for bb, si, st in b.statements() if st['s'] == 'assign' and (st['lhs'].get('p') or []) and isinstance(st['lhs']['p'][-1], dict) and st['lhs']['p'][-1].get('n') == 'ack_base']
    gt_t = [(s_, t_) for s_, t_, cond, lab in edges if cmp_edge('gt', is_param(3), is_base, True)(cond, lab)]
    adv = [(bb, 'term') for bb, t in b.calls() if callee_res(t).endswith('advance_ack_base')]
    okm = len(stores) == 1 and len(gt_t) == 1 and len(adv) == 1
    if okm:
        sbb, ssi = stores[0]
        v = og._rvalue(b.blocks[sbb]['st'][ssi]['rv'], sbb, ssi, 0)
        okm = v == ('param', 3) and P.every_path_passes(None, (sbb, ssi), via_edges=gt_t, from_entry=True) and P.every_path_passes(None, adv[0], via_pos=[(sbb, ssi)], from_entry=True)
        for r in b.return_blocks():
            if P.can_reach((gt_t[0][1], 0), (r, 'term'), avoid_pos=[(sbb, ssi)]) or P.can_reach((sbb, ssi), (r, 'term'), avoid_pos=adv):
                okm = False
    # the marking branch
    loop_ins = [(bb, t) for bb, t in b.calls() if callee_res(t).endswith('::insert') and 'BTreeMap' in callee_res(t)]
    okl = len(loop_ins) == 1 and bool(le_f) and P.every_path_passes(None, (loop_ins[0][0], 'term'), via_edges=le_f, from_entry=True)
    if okl:
        bb, t = loop_ins[0]
        k = og.of_operand(t['args'][1], bb, 'term')
        v = og.of_operand(t['args'][2], bb, 'term')
        okl = term_has(k, lambda x: x[0] == 'call' and x[1].endswith('::next')) and term_has(k, lambda x: x[0] == 'call' and x[1].endswith('range_inclusive')) and \
            v[0] == 'agg' and str(v[1]).endswith('Option::None')
        nexts = [(nb, 'term') for nb, nt in b.calls() if callee_res(nt).endswith('::next')]
        some = [(s_, t_) for s_, t_, cond, lab in edges if lab == 'Some' and cond[0] == 'discr' and term_has(cond, lambda x: x[0] == 'call' and x[1].endswith('::next'))]
        for s_, t_ in some:
            for nx in nexts:
                if P.can_reach((t_, 0), nx, avoid_pos=[(bb, 'term')]):
                    okl = False
    rep.check(okb and okm and okl, 'R03.12', 'irrelevant_changes_range', 'branch, split/append, forward-only base move + advance, marking loop',
              'irrelevant_changes_range does not keep the bookkeeping invariant (move-the-base branch: %s [%s]; base moved forward only then advanced: %s; marking loop: %s)' % (okb, why, okm, okl), b.where())
