"""C04  Writer keeps what readers still need, bounds the rest, answers every request.

Guard dominance, provenance and sibling-consistency rules. Retention counts over arbitrary
event interleavings are not decided.
"""
from rdv.core import (CheckBroken, Origins, Pos, call_matches, callee_res, infeasible_edges, natural_loops, norm_path, primary_edges,
                      resolve_captures, strip_generics, switch_edges, term_has, term_leaves, term_str)

CONFIGS = ['default', 'security']     # the security arms are not compiled by the default test suite: decide them on every run
THOROUGH_CONFIGS = []
LEVEL = 'other'

W = 'rtps::writer::Writer::'
RP = 'rtps::rtps_reader_proxy::RtpsReaderProxy::'


def has_field(t, name):
    return term_has(t, lambda x: x[0] == 'field' and x[1] == name)


def has_call(t, suffix):
    if suffix == 'to_single_reader':
        return term_has(t, lambda x: (x[0] == 'call' and x[1].endswith(suffix)) or (x[0] == 'field' and x[1] == 'to_single_reader'))
    return term_has(t, lambda x: x[0] == 'call' and x[1].endswith(suffix))


def single_reader_guard(rep, fx, b, emit_pats, rule_key):
    """Every emission is, whenever to_single_reader() is Some(g), behind `g == target.remote_reader_guid`."""
    rep.analysed(b)
    og = Origins(b, summaries=True)
    P = Pos(b)
    edges = primary_edges(b, list(switch_edges(b, fx, og)))
    alle = list(switch_edges(b, fx, og))
    some = [(s_, t_) for s_, t_, cond, lab in edges if lab == 'Some' and cond[0] == 'discr' and has_call(cond[1], 'to_single_reader')]
    eq_ok = []
    for s_, t_, cond, lab in alle:
        if cond[0] == 'call' and cond[1].endswith(('::ne', '::eq')) and len(cond[2]) == 2:
            a, c = cond[2]
            sa, sc = has_call(a, 'to_single_reader'), has_call(c, 'to_single_reader')
            ta = has_field(a, 'remote_reader_guid') or a[0] == 'param' or has_field(a, 'reader_guid')
            tc = has_field(c, 'remote_reader_guid') or c[0] == 'param' or has_field(c, 'reader_guid')
            if (sa and tc and not sc) or (sc and ta and not sa):
                if (cond[1].endswith('::ne') and lab is False) or (cond[1].endswith('::eq') and lab is True):
                    eq_ok.append((s_, t_))
    emits = [(bb, 'term') for bb, t in b.calls() if call_matches(t, *emit_pats)]
    if not emits:
        raise CheckBroken('%s: no DATA/DATAFRAG emission found' % b.key)
    ok = bool(some) and bool(eq_ok)
    for s_, t_ in some:
        for e in emits:
            if P.can_reach((t_, 0), e, avoid_edges=eq_ok):
                ok = False
    rep.check(ok, 'R04.1', '%s/%s' % (b.key, rule_key), 'a sample written for one reader is emitted only to that reader',
              '%s can emit DATA/DATAFRAG of a sample written with to_single_reader(g) without g == target reader holding on that path' % b.key.rsplit('::', 1)[-1], b.where())
    return emits


def run(rep, facts, tier):
    fx = facts['default']
    rep.explanation = ('Guard dominance: a single-reader sample is emitted only under g == target; all other readers get a pending GAP. Provenance: every HEARTBEAT carries '
                       '(history first_seq, last_seq). Must-pass-through: every requested sequence number is answered by DATA or GAP before it leaves the unsent set, and the unsent '
                       'set is pruned only from the ACKNACK base / the history floor. Sibling consistency: the retention fold ranges over reliable proxies only and its empty case '
                       'means "everything acknowledged".')
    rep.assume('MessageBuilder::data_msg/data_frag_msg/gap_msg serialise what they are given (C14)', 'retention counts over arbitrary interleavings are not decided')
    rep.rule('R04.1', 'single-reader guard: every DATA/DATAFRAG emission of a sample with to_single_reader() = Some(g) is behind g == target.remote_reader_guid')
    rep.rule('R04.2', 'others get a GAP: for a single-reader sample every other matched reader gets insert_pending_gap(sn)')
    rep.rule('R04.3', 'HEARTBEAT provenance: every heartbeat_msg call passes first = HistoryBuffer.first_seq and last = HistoryBuffer.last_seq')
    rep.rule('R04.4', 'every request answered: in the repair worker every path from first_unsent_change() = Some(sn) to return emits DATA for get_by_sn(sn) or a GAP; '
                      'a number is marked sent only after its emission')
    rep.rule('R04.5', 'retention fold discipline: the acknowledged-by-all fold ranges over reliable proxies only; with none, everything written counts as acknowledged')
    rep.rule('R04.7', 'history index integrity: the HistoryBuffer key is a writer-local fresh Timestamp::now() (unique and increasing with the sequence number, as get_by_sn and '
                      'remove_changes_before assume), never an application-supplied value; add_change indexes the same (sn, key) pair it stores; last_seq only grows')
    rep.rule('R04.6', 'the unsent (requested) set is pruned only by mark_change_sent after an emission and by remove_from_unsent_set_all_before(ACKNACK base | history floor)')

    # ------------------------------------------------------------ R04.1
    sc = fx.find(W + 'send_cache_change')
    single_reader_guard(rep, fx, sc, ('MessageBuilder::data_msg', 'MessageBuilder::data_frag_msg'), 'single-reader')
    fw = fx.find(W + 'handle_repair_frags_send_worker')
    single_reader_guard(rep, fx, fw, ('MessageBuilder::data_frag_msg',), 'single-reader')
    # the emission is addressed to the target reader's entity id
    og = Origins(sc, summaries=True)
    # ------------------------------------------------------------ R04.2
    pw = fx.find(W + 'process_writer_command')
    rep.analysed(pw)
    og = Origins(pw, summaries=True)
    P = Pos(pw)
    alle = list(switch_edges(pw, fx, og))
    other = []
    for s_, t_, cond, lab in alle:
        if cond[0] == 'call' and cond[1].endswith(('::ne', '::eq')) and len(cond[2]) == 2:
            a, c = cond[2]
            if (has_field(a, 'remote_reader_guid') and has_call(c, 'to_single_reader')) or (has_field(c, 'remote_reader_guid') and has_call(a, 'to_single_reader')):
                if (cond[1].endswith('::ne') and lab is True) or (cond[1].endswith('::eq') and lab is False):
                    other.append((s_, t_))
    gaps = [(bb, t) for bb, t in pw.calls() if call_matches(t, 'RtpsReaderProxy::insert_pending_gap')]
    ok = bool(other) and bool(gaps)
    for bb, t in gaps:
        ok = ok and P.every_path_passes(None, (bb, 'term'), via_edges=other, from_entry=True)
        # the gap is for the sequence number being written
        sn = og.of_operand(t['args'][1], bb, 'term')
        ok = ok and term_has(sn, lambda x: x[0] == 'field' and x[1] == 'sequence_number')
    for s_, t_ in other:
        nxt = [(nb, 'term') for nb, nt in pw.calls() if callee_res(nt).endswith('::next') and has_field(og.of_operand(nt['args'][0], nb, 'term'), 'readers')]
        for nx in nxt:
            if P.can_reach((t_, 0), nx, avoid_pos=[(bb, 'term') for bb, _ in gaps]):
                ok = False
    rep.check(ok, 'R04.2', 'process_writer_command/others-pending-gap', 'reader != single reader <=> insert_pending_gap(sequence_number)',
              'a reader other than the single target of a sample does not always get insert_pending_gap(sn) (or the target gets one)', pw.where())
    # every reader is also told about the new change
    nn = [(bb, t) for bb, t in pw.calls() if call_matches(t, 'RtpsReaderProxy::notify_new_cache_change')]
    rep.check(bool(nn), 'R04.2', 'process_writer_command/notify-new-change', 'each reader proxy is notified of the new sequence number', 'reader proxies are not notified of new changes', pw.where())

    # ------------------------------------------------------------ R04.3
    n = 0
    for b, bb, t in fx.callers_of('MessageBuilder::heartbeat_msg'):
        n += 1
        rep.analysed(b)
        og = Origins(b, summaries=True)
        hbm = fx.find('rtps::message::MessageBuilder::heartbeat_msg')
        pn = {d.get('arg'): d['name'] for d in hbm.j.get('dbg', []) if d.get('arg')}
        inv = {v: k for k, v in pn.items()}
        fi = inv.get('first') or inv.get('first_sn')
        la = inv.get('last') or inv.get('last_sn')
        if not fi or not la:
            raise CheckBroken('heartbeat_msg: parameters first/last not found (%s)' % sorted(inv))
        f = og.of_operand(t['args'][fi - 1], bb, 'term')
        l = og.of_operand(t['args'][la - 1], bb, 'term')

        def is_field(term, name):
            if term[0] == 'field' and term[1] == name and has_field(term, 'history_buffer'):
                return True
            return term[0] == 'call' and term[1].endswith('first_change_sequence_number') and name == 'first_seq' and has_field(term, 'history_buffer')
        rep.check(is_field(f, 'first_seq') and is_field(l, 'last_seq'), 'R04.3', '%s/heartbeat#%d' % (b.key, n), 'heartbeat(first_seq, last_seq)',
                  'a HEARTBEAT advertises (%s, %s) instead of (history first_seq, last_seq)' % (term_str(f)[:50], term_str(l)[:50]), b.where(bb))
    rep.floor('R04.3', n, 4, 'calls of MessageBuilder::heartbeat_msg')
    fc = fx.find('rtps::writer::HistoryBuffer::first_change_sequence_number')
    rep.analysed(fc)

    # ------------------------------------------------------------ R04.4
    rw = fx.find(W + 'handle_repair_data_send_worker')
    rep.analysed(rw)
    og = Origins(rw, summaries=True)
    P = Pos(rw)
    edges = primary_edges(rw, list(switch_edges(rw, fx, og)))
    inf = infeasible_edges(rw, fx, og)
    some = [(s_, t_) for s_, t_, cond, lab in edges if lab == 'Some' and cond[0] == 'discr' and has_call(cond[1], 'first_unsent_change')]
    sends = [(bb, t) for bb, t in rw.calls() if call_matches(t, 'Writer::send_cache_change')]
    gapsend = [(bb, t) for bb, t in rw.calls() if call_matches(t, 'Writer::send_message_to_readers')]
    # (a) every path decides an answer: DATA, or the number goes into the GAP set, or "all before first_available" is set
    decide = [(bb, 'term') for bb, _ in sends]
    for bb, t in rw.calls():
        r = callee_res(t)
        if (r.endswith('::insert') or r.endswith('::extend')) and 'BTreeSet' in r + rw.locals[t['args'][0]['pl']['l']] if t['args'] and t['args'][0].get('o') in ('copy', 'move') else False:
            recv = og.of_operand(t['args'][0], bb, 'term')
            if term_has(recv, lambda x: x[0] == 'call' and x[1].endswith('BTreeSet::new')):
                a = og.of_operand(t['args'][1], bb, 'term')
                if r.endswith('::insert') and has_call(a, 'first_unsent_change'):
                    decide.append((bb, 'term'))
                if r.endswith('::extend') and has_field(a, 'pending_gap'):
                    decide.append((bb, 'term'))
    for bb, si, st in rw.statements():
        if st['s'] == 'assign' and st['rv']['r'] == 'agg' and st['rv'].get('variant') == 'Some' and st['rv']['ops']:
            v = og.of_operand(st['rv']['ops'][0], bb, si)
            if v == ('field', 'first_seq', ('field', 'history_buffer', ('param', 1))) or (has_field(v, 'first_seq') and has_field(v, 'history_buffer')):
                decide.append((bb, si))
    ok = bool(some) and bool(sends) and bool(gapsend) and len(decide) >= 3
    # Product of the CFG with two path facts: A = "all before first_available" was recorded on this path (then is_some()/Some of that Option is the only feasible
    # outcome, otherwise is_none()/None), C = the path took the true edge of pending_gap.contains(requested sn). Copying the pending GAP set into the GAP list
    # (`extend(pending_gaps)`) answers the request only under C (or A): without either the requested number is not in it.
    alle0 = list(switch_edges(rw, fx, og))
    a_sites, ext_sites, other_dec = set(), set(), set()
    for d in decide:
        blk = rw.blocks[d[0]]
        if d[1] == 'term' and callee_res(blk['term']).endswith('::extend'):
            ext_sites.add(d[0])
        elif d[1] != 'term':
            a_sites.add(d)
        else:
            other_dec.add(d[0])
    a_edge, c_edge = {}, set()
    for s_, t_, cond, lab in alle0:
        if cond[0] == 'call' and cond[1].endswith(('::is_some', '::is_none')) and has_field(cond, 'first_seq') and has_field(cond, 'history_buffer'):
            a_edge[(s_, t_)] = (lab is True) == cond[1].endswith('::is_some')
        elif cond[0] == 'discr' and has_field(cond[1], 'first_seq') and has_field(cond[1], 'history_buffer') and lab in ('Some', 'None'):
            a_edge[(s_, t_)] = lab == 'Some'
        elif cond[0] == 'call' and cond[1].endswith('::contains') and lab is True and has_field(cond, 'pending_gap') and has_call(cond, 'first_unsent_change'):
            c_edge.add((s_, t_))
    ok = ok and bool(c_edge) and bool(a_edge)
    inf_set = set(inf)
    leak = None
    for s0, t0 in some:
        seen = set()
        todo = [(t0, False, False)]
        while todo and leak is None:
            bb, A, C = todo.pop()
            if (bb, A, C) in seen:
                continue
            seen.add((bb, A, C))
            if any(d[0] == bb for d in a_sites):
                continue                    # recorded "all before": decided (what happens next is (b'))
            if bb in other_dec:
                continue
            if bb in ext_sites and (A or C):
                continue
            if bb in rw.return_blocks():
                leak = bb
                break
            for nx in rw.succs(bb):
                if rw.is_cleanup(nx) or (bb, nx) in inf_set:
                    continue
                if (bb, nx) in a_edge and a_edge[(bb, nx)] != A:
                    continue
                todo.append((nx, A, C or (bb, nx) in c_edge))
    if leak is not None:
        ok = False
    rep.check(ok, 'R04.4', 'handle_repair_data_send_worker/answer-decided', 'requested sn => DATA, or sn put into the GAP set, or "all before first_available" recorded, on every path',
              'a requested sequence number can leave the repair worker with neither DATA sent nor a GAP recorded for it', rw.where())
    rule_04_9(rep, fx, rw, og, sends)
    rule_04_10(rep, fx)
    rule_04_11(rep, fx)
    rule_04_12(rep, fx)
    rule_04_13(rep, fx)
    from rules import builtsent
    builtsent.run_rule(rep, fx, 'R04.14')
    builtsent.run_wire(rep, fx, 'R04.15')
    rule_04_16(rep, fx)
    rule_04_17(rep, fx)
    # (b) a recorded GAP is always sent: on `!no_longer_relevant.is_empty()` or `all_irrelevant_before.is_some()` the message goes out
    alle = list(switch_edges(rw, fx, og))
    must_send = [(s_, t_) for s_, t_, cond, lab in alle if (cond[0] == 'call' and cond[1].endswith('::is_empty') and lab is False and term_has(cond, lambda x: x[0] == 'call' and x[1].endswith('BTreeSet::new')))
                 or (cond[0] == 'call' and cond[1].endswith('::is_some') and lab is True and has_field(cond, 'first_seq'))]
    okb = bool(must_send)
    gpos = [(bb, 'term') for bb, _ in gapsend]
    # only the last test pair (the one guarding the GAP block) is required to lead to the send: take edges from which a gap builder is reachable
    builders = [(bb, 'term') for bb, t in rw.calls() if call_matches(t, 'MessageBuilder::gap_msg', 'MessageBuilder::gap_msg_before')]
    guard_edges = [(s_, t_) for s_, t_ in must_send if any(P.can_reach((t_, 0), b_) for b_ in builders) and not any(P.can_reach((t_, 0), d) for d in decide)]
    okb = bool(guard_edges)
    for s_, t_ in guard_edges:
        for r in rw.return_blocks():
            if P.can_reach((t_, 0), (r, 'term'), avoid_pos=gpos, avoid_edges=inf):
                okb = False
    rep.check(okb, 'R04.4', 'handle_repair_data_send_worker/gap-sent', 'a recorded GAP (non-empty set or all-before bound) is always sent',
              'a GAP that was recorded for a requested sequence number is not sent on every path', rw.where())
    # (b') independent of how the guard is written: once "everything before first_available is gone" was recorded, or the requested number itself was put into the
    # GAP set, every feasible path to the return sends the GAP (store-aware path evaluation: is_some() of the recorded Some and is_empty() of a set just inserted into are known)
    from rdv.sympath import SymPath
    sp = SymPath(rw, fx)
    recs = []
    for bb, si, st in rw.statements():
        if st['s'] == 'assign' and st['rv']['r'] == 'agg' and st['rv'].get('variant') == 'Some' and st['rv']['ops']:
            v = og.of_operand(st['rv']['ops'][0], bb, si)
            if has_field(v, 'first_seq') and has_field(v, 'history_buffer'):
                recs.append(('all-before', bb, [('MessageBuilder::gap_msg_before',), ('remove_from_unsent_set_all_before',), ('Writer::send_message_to_readers',)]))
    for bb, t in rw.calls():
        r = callee_res(t)
        if r.endswith('BTreeSet::<T, A>::insert') or (r.endswith('::insert') and 'BTreeSet' in r):
            a = og.of_operand(t['args'][1], bb, 'term')
            if has_call(a, 'first_unsent_change'):
                recs.append(('requested-sn', bb, [('MessageBuilder::gap_msg',), ('Writer::send_message_to_readers',)]))
    okp = len(recs) >= 2
    why = ''
    for kind, rb, needs in recs:
        for ret in rw.return_blocks():
            for path in sp.paths(rb, ret):
                st_ = sp.run(path, 'term')
                if st_.infeasible:
                    continue
                called = [strip_generics(callee_res(rw.blocks[x]['term'])) for x in path if rw.blocks[x]['term']['t'] == 'call']
                for need in needs:
                    if not any(any(c.endswith(n) for n in need) for c in called):
                        okp = False
                        why = '%s recorded in bb%d, but a path to the return avoids %s' % (kind, rb, need[0])
    rep.check(okp, 'R04.4', 'handle_repair_data_send_worker/recorded-gap-goes-out', '%d record sites: every feasible path sends the GAP (and prunes the unsent set for the all-before case)' % len(recs),
              'a request that can only be answered by a GAP is not answered on every path (%s): the number stays at the head of the unsent set and blocks every later repair for that reader' % why, rw.where())
    # DATA is the change get_by_sn(unsent_sn)
    for bb, t in sends:
        cc = og.of_operand(t['args'][1], bb, 'term')
        okc = has_call(cc, 'get_by_sn') and has_call(cc, 'first_unsent_change')
        rep.check(okc, 'R04.4', 'handle_repair_data_send_worker/data-is-requested-change', 'sends history_buffer.get_by_sn(unsent_sn)',
                  'the repair DATA is %s, not the requested change get_by_sn(first_unsent_change())' % term_str(cc)[:100], rw.where(bb))
        tgt = og.of_operand(t['args'][3], bb, 'term')
        rep.check(term_has(tgt, lambda x: x == ('param', 2)), 'R04.4', 'handle_repair_data_send_worker/data-to-requester', 'sent to the requesting reader proxy',
                  'the repair DATA is not addressed to the requesting reader proxy', rw.where(bb))
    # GAP content: the gap builders receive the sets the numbers were put into
    gm = [(bb, t) for bb, t in rw.calls() if call_matches(t, 'MessageBuilder::gap_msg')]
    gb = [(bb, t) for bb, t in rw.calls() if call_matches(t, 'MessageBuilder::gap_msg_before')]
    ins = [(bb, t) for bb, t in rw.calls() if callee_res(t).endswith('BTreeSet::<T, A>::insert') or (callee_res(t).endswith('::insert') and 'BTreeSet' in callee_res(t))]
    okg = bool(gm) and bool(gb)
    rep.check(okg, 'R04.4', 'handle_repair_data_send_worker/gap-builders', 'gap_msg(no_longer_relevant) and gap_msg_before(first_available)', 'the GAP builders are not both used', rw.where())
    # mark_change_sent(unsent_sn) only after send_cache_change
    for bb, t in rw.calls():
        if call_matches(t, 'RtpsReaderProxy::mark_change_sent'):
            a = og.of_operand(t['args'][1], bb, 'term')
            if has_call(a, 'first_unsent_change'):
                okm = P.every_path_passes(None, (bb, 'term'), via_pos=[(sb, 'term') for sb, _ in sends], from_entry=True)
                rep.check(okm, 'R04.4', 'handle_repair_data_send_worker/mark-sent-after-data', 'mark_change_sent(sn) only after send_cache_change',
                          'a requested sequence number is marked sent without its DATA having been emitted', rw.where(bb))
    # ... and always after it: a served request leaves the unsent set, or the same number is served for ever and nothing behind it is repaired (mutation triage)
    msent = [(bb, 'term') for bb, t in rw.calls() if call_matches(t, 'RtpsReaderProxy::mark_change_sent') and has_call(og.of_operand(t['args'][1], bb, 'term'), 'first_unsent_change')]
    oks = bool(sends) and bool(msent)
    for sb, _ in sends:
        for r in rw.return_blocks():
            if P.can_reach((sb, 'term'), (r, 'term'), avoid_pos=msent):
                oks = False
    rep.check(oks, 'R04.4', 'handle_repair_data_send_worker/served-then-marked-sent', 'send_cache_change(requested sn) => mark_change_sent(sn) on every path to the return',
              'after sending the repair DATA the requested number can stay in the unsent set: the worker serves the same number at every round and never reaches the ones behind it', rw.where())
    # ------------------------------------------------------------ R04.5
    ra = fx.find(W + 'remove_all_acked_changes_but_keep_depth')
    rep.analysed(ra)
    og = Origins(ra, summaries=True)
    n_fold = 0
    for bb, t in ra.calls():
        if callee_res(t).endswith(('::min', '::max', '::fold', '::reduce', '::min_by_key', '::min_by')) and t['args'] and 'Iterator' in (t['f'].get('def') or ''):
            src = og.of_operand(t['args'][0], bb, 'term')
            if not has_field(src, 'readers'):
                continue
            n_fold += 1
            filt = [x for x in term_leaves(src) if x[0] == 'call' and x[1].endswith('::filter')]
            rel = False
            for f in filt:
                c = f[2][1]
                if c[0] == 'agg':
                    for cb in fx.by_key.get(c[1], []):
                        if any(call_matches(tt, 'is_reliable') for _, tt in cb.calls()):
                            rel = True
            rep.check(rel, 'R04.5', 'remove_all_acked_changes_but_keep_depth/reliable-only', 'min over proxies with qos().is_reliable()',
                      'the acknowledged-by-all fold ranges over all reader proxies: a best-effort reader (which never acknowledges) blocks history cleaning for ever', ra.where(bb))
            # the empty case
            for bb2, t2 in ra.calls():
                if callee_res(t2).endswith(('::unwrap_or_else', '::unwrap_or', '::unwrap_or_default')) and t2['args']:
                    a0 = og.of_operand(t2['args'][0], bb2, 'term')
                    if term_has(a0, lambda x: x[0] == 'call' and len(x) > 3 and x[3] == bb):
                        good = False
                        if callee_res(t2).endswith('::unwrap_or_else'):
                            d = og.of_operand(t2['args'][1], bb2, 'term')
                            if d[0] == 'agg':
                                for cb in fx.by_key.get(d[1], []):
                                    cog = Origins(cb, summaries=True)
                                    rt = cog.of_local(0, cb.return_blocks()[0], 'term')
                                    rt = resolve_captures(fx, cb, rt)
                                    good = has_field(rt, 'last_seq') and term_has(rt, lambda x: x[0] == 'call' and x[1].endswith('plus_1'))
                        rep.check(good, 'R04.5', 'remove_all_acked_changes_but_keep_depth/empty-case', 'no reliable reader => everything written counts as acknowledged (last_seq + 1)',
                                  'with no (reliable) reader the fold defaults to a constant (e.g. zero): nothing is ever removed and the history grows without bound', ra.where(bb2))
    rep.floor('R04.5', n_fold, 1, 'acknowledged-by-all fold over Writer.readers')
    # siblings: other aggregates over readers that read the ack frontier
    # ------------------------------------------------------------ R04.6
    allowed_mut = {RP + 'mark_change_sent', RP + 'remove_from_unsent_set_all_before', RP + 'handle_ack_nack', RP + 'notify_new_cache_change', RP + 'new',
                   RP + 'from_discovered_reader_data', RP + 'from_reader', RP + 'update'}
    for b in fx.bodies:
        og = None
        for bb, t in b.calls():
            last = callee_res(t).rsplit('::', 1)[-1]
            if last in ('remove', 'split_off', 'clear', 'retain', 'pop_first', 'pop_last', 'take', 'append') and t['args']:
                og = og or Origins(b, summaries=True)
                r = og.of_operand(t['args'][0], bb, 'term')
                if r[0] == 'field' and r[1] == 'unsent_changes':
                    key = b.key if b.kind != 'closure' else b.encl
                    rep.check(key in allowed_mut, 'R04.6', '%s/prunes-unsent' % key, 'one of the RtpsReaderProxy pruning methods',
                              '%s removes from the unsent (requested) set directly' % key, b.where(bb))
    n_calls = 0
    for b, bb, t in fx.callers_of('RtpsReaderProxy::remove_from_unsent_set_all_before'):
        n_calls += 1
        rep.analysed(b)
        og = Origins(b, summaries=True)
        a = og.of_operand(t['args'][1], bb, 'term')
        from_base = has_field(a, 'reader_sn_state') and (has_call(a, '::base') or has_field(a, 'bitmap_base')) and not has_field(a, 'pending_gap')
        from_floor = (has_field(a, 'first_seq') or has_call(a, 'first_change_sequence_number')) and not has_field(a, 'pending_gap')
        rep.check(from_base or from_floor, 'R04.6', '%s/remove_from_unsent_set_all_before#%d' % (b.key, n_calls), 'argument = ACKNACK base | history floor',
                  'the requested set is pruned below %s, which is neither the ACKNACK base nor the lowest retained sequence number: requests below it are dropped '
                  'without DATA or GAP' % term_str(a)[:120], b.where(bb))
    rep.floor('R04.6', n_calls, 2, 'calls of remove_from_unsent_set_all_before')
    for b, bb, t in fx.callers_of('RtpsReaderProxy::mark_change_sent'):
        key = b.key if b.kind != 'closure' else b.encl
        ok = key in (W + 'handle_repair_data_send_worker', W + 'send_cache_change', W + 'process_writer_command')
        rep.check(ok, 'R04.6', '%s/mark_change_sent' % key, 'called from an emitting function', 'mark_change_sent is called from %s, which does not emit DATA or GAP' % key, b.where(bb))

    # ------------------------------------------------------------ R04.7
    n_add = 0
    for b, bb, t in fx.callers_of('HistoryBuffer::add_change'):
        n_add += 1
        rep.analysed(b)
        og = Origins(b, summaries=True)
        ts = og.of_operand(t['args'][1], bb, 'term')
        ok = ts[0] == 'call' and ts[1].endswith('Timestamp::now') and not term_has(ts, lambda x: x[0] == 'param')
        rep.check(ok, 'R04.7', '%s/history-key' % b.key, 'key = Timestamp::now()',
                  'the writer history is keyed by %s, not by a fresh writer-local Timestamp::now(): equal or out-of-order keys make two sequence numbers resolve to one sample '
                  'and make cleaning drop unacknowledged samples' % term_str(ts)[:100], b.where(bb))
        cc = og.of_operand(t['args'][2], bb, 'term')
        pn = {d_.get('arg'): d_['name'] for d_ in b.j.get('dbg', []) if d_.get('arg')}
        snp = [i for i, nm in pn.items() if 'sequence_number' in nm]
        sn_ok = bool(snp) and term_has(cc, lambda x: x == ('param', snp[0])) and (term_has(cc, lambda x: x[0] == 'call' and x[1].endswith('CacheChange::new')) or
                                                                                   term_has(cc, lambda x: x[0] == 'agg' and str(x[1]).endswith('CacheChange')))
        rep.check(sn_ok, 'R04.7', '%s/history-sn' % b.key, 'stored change carries the sequence number handed in by the DataWriter', 'the stored CacheChange does not carry the given sequence number', b.where(bb))
    rep.floor('R04.7', n_add, 1, 'calls of HistoryBuffer::add_change')
    ac = fx.find('rtps::writer::HistoryBuffer::add_change')
    rep.analysed(ac)
    og = Origins(ac, summaries=True)
    P = Pos(ac)
    ins_h = [(bb, t) for bb, t in ac.calls() if callee_res(t).endswith('::insert') and og.of_operand(t['args'][0], bb, 'term') == ('field', 'history_buffer', ('param', 1))]
    ins_s = [(bb, t) for bb, t in ac.calls() if callee_res(t).endswith('::insert') and og.of_operand(t['args'][0], bb, 'term') == ('field', 'sequence_number_to_instant', ('param', 1))]
    ok = len(ins_h) == 1 and len(ins_s) == 1
    if ok:
        hb_, ht = ins_h[0]
        sb_, st_ = ins_s[0]
        ok = og.of_operand(ht['args'][1], hb_, 'term') == ('param', 2) and og.of_operand(st_['args'][2], sb_, 'term') == ('param', 2) and \
            og.of_operand(st_['args'][1], sb_, 'term') == ('field', 'sequence_number', ('param', 3)) and og.of_operand(ht['args'][2], hb_, 'term') == ('param', 3)
        ok = ok and all(P.every_path_passes(None, (r, 'term'), via_pos=[(hb_, 'term')], from_entry=True) and P.every_path_passes(None, (r, 'term'), via_pos=[(sb_, 'term')], from_entry=True) for r in ac.return_blocks())
    rep.check(ok, 'R04.7', 'HistoryBuffer::add_change/index', 'history_buffer[ts] = change and sequence_number_to_instant[change.sn] = ts on every path',
              'HistoryBuffer::add_change does not index the stored change under its own sequence number and key on every path', ac.where())
    grow = []
    for bb, si, st in ac.statements():
        if st['s'] == 'assign':
            pr = st['lhs'].get('p') or []
            if pr and isinstance(pr[-1], dict) and pr[-1].get('n') == 'last_seq':
                grow.append((bb, si))
    gt = []
    for s_, t_, cond, lab in switch_edges(ac, fx, og):
        if cond[0] == 'call' and cond[1].rsplit('::', 1)[-1] in ('gt', 'lt', 'ge', 'le') and len(cond[2]) == 2:
            m = cond[1].rsplit('::', 1)[-1]
            l0, l1 = has_field(cond[2][0], 'last_seq'), has_field(cond[2][1], 'last_seq')
            if l0 == l1:
                continue
            rel = m if l1 else {'lt': 'gt', 'gt': 'lt', 'le': 'ge', 'ge': 'le'}[m]     # written as new ? last
            if (rel == 'gt' and lab is True) or (rel == 'le' and lab is False):
                gt.append((s_, t_))
    okg = bool(grow) and bool(gt) and all(P.every_path_passes(None, g, via_edges=gt, from_entry=True) for g in grow)
    rep.check(okg, 'R04.7', 'HistoryBuffer::add_change/last-seq-grows', 'last_seq := new_seq only if new_seq > last_seq', 'last_seq can be moved backwards by add_change', ac.where())

    if 'security' in facts:
        fs = facts['security']
        single_reader_guard(rep, fs, fs.find(W + 'send_cache_change'), ('MessageBuilder::data_msg', 'MessageBuilder::data_frag_msg'), 'single-reader(security)')
        single_reader_guard(rep, fs, fs.find(W + 'handle_repair_frags_send_worker'), ('MessageBuilder::data_frag_msg',), 'single-reader(security)')

    # ------------------------------------------------------------ R04.8 crossed roles (shared lint, rdv/swaplint.py)
    from rdv import swaplint
    swaplint.run_rule(rep, facts['default'], 'R04.8', ['rtps::writer', 'rtps::rtps_reader_proxy', 'structure::cache_change', 'dds::with_key::datawriter'])


def rule_04_9(rep, fx, rw, og, sends):
    """send_cache_change refuses (returns without emitting anything) when the sample was written for one reader and the target is another one. In the repair worker such a
    refusal would leave the request unanswered: the call site must know beforehand that the sample is for this reader, and otherwise record the number for GAP (R04.4)."""
    from rdv.core import resolve_captures
    rep.rule('R04.9', 'no silent refusal: the change handed to send_cache_change by the repair worker is known to be sendable to that reader - it comes through '
                      'get_by_sn(sn).filter(|cc| cc.write_options.to_single_reader() is None or == this reader) or lies behind a dominating test of that condition; a sample written '
                      'for another reader (possible without a pending gap when this reader was matched after the write) then takes the "not found" branch and is answered with a GAP')
    P = Pos(rw)
    n = 0
    for bb, t in sends:
        n += 1
        cc = og.of_operand(t['args'][1], bb, 'term')
        ok = False
        # (a) filtered lookup
        filt = []
        term_has(cc, lambda x: x[0] == 'call' and x[1].endswith('Option::<T>::filter') and filt.append(x) is None and False)
        term_has(cc, lambda x: x[0] == 'call' and x[1].endswith('Option::filter') and filt.append(x) is None and False)
        for f in filt:
            if not has_call(f[2][0], 'get_by_sn'):
                continue
            for k in fx.closures_of(rw):
                if k.key not in str(f[2][1]):
                    continue
                ogk = Origins(k, summaries=True)
                for kb, kt in k.calls():
                    cr = callee_res(kt)
                    if cr.endswith(('::eq', '::ne')) and len(kt['args']) == 2:
                        a = [resolve_captures(fx, k, ogk.of_operand(x, kb, 'term')) for x in kt['args']]
                        if any(has_call(x, 'to_single_reader') for x in a) and any(has_field(x, 'remote_reader_guid') and not has_call(x, 'to_single_reader') for x in a):
                            ok = True
                    # cc.write_options.to_single_reader().map_or(true, |g| g == this reader)  /  .is_none_or(|g| ..)
                    if cr.rsplit('::', 1)[-1] in ('map_or', 'is_none_or') and kt['args'] and has_call(ogk.of_operand(kt['args'][0], kb, 'term'), 'to_single_reader'):
                        dflt_ok = cr.endswith('is_none_or') or ogk.of_operand(kt['args'][1], kb, 'term') in (('const', 'bool', True), ('const', 'int', 1), ('const', 'bool', 'true'))
                        for k2 in fx.closures_of(k):
                            og2 = Origins(k2, summaries=True)
                            for b2, t2 in k2.calls():
                                if callee_res(t2).endswith('::eq') and len(t2['args']) == 2:
                                    a2 = [resolve_captures(fx, k2, og2.of_operand(x, b2, 'term')) for x in t2['args']]
                                    if dflt_ok and any(x == ('param', 2) for x in a2) and any(has_field(x, 'remote_reader_guid') for x in a2):
                                        ok = True
        # (b) dominating test in the worker itself
        if not ok:
            for s_, t_, cond, lab in switch_edges(rw, fx, og):
                if cond[0] == 'call' and cond[1].endswith(('::eq', '::ne')) and len(cond[2]) == 2:
                    x, y = cond[2]
                    if (has_call(x, 'to_single_reader') and has_field(y, 'remote_reader_guid')) or (has_call(y, 'to_single_reader') and has_field(x, 'remote_reader_guid')):
                        good = (cond[1].endswith('::eq') and lab is True) or (cond[1].endswith('::ne') and lab is False)
                        none_e = [(a_, b_) for a_, b_, c_, l_ in switch_edges(rw, fx, og) if l_ == 'None' and c_[0] == 'discr' and has_call(c_[1], 'to_single_reader')]
                        if good and P.every_path_passes(None, (bb, 'term'), via_edges=[(s_, t_)] + none_e, from_entry=True):
                            ok = True
        rep.check(ok, 'R04.9', 'handle_repair_data_send_worker/send#%d/sendable-to-this-reader' % n, 'the change is filtered / tested for to_single_reader() in {None, this reader} before the call',
                  'the repair worker hands a change to send_cache_change without knowing that it may be sent to this reader: for a sample written for another reader send_cache_change '
                  'emits nothing, the number is then marked sent, and the request is answered neither with DATA nor with a GAP (a reader matched after the write has no pending gap)',
                  rw.where(bb))
    rep.floor('R04.9', n, 1, 'send_cache_change calls in the repair worker')


RP = 'rtps::rtps_reader_proxy::RtpsReaderProxy::'


def _strip4(t):
    while isinstance(t, tuple) and t and t[0] in ('ref', 'deref', 'copy', 'move') and len(t) > 1 and isinstance(t[1], tuple):
        t = t[1]
    return t


def rule_04_10(rep, fx):
    """The pending-gap set is how a reader learns that a number is not for it. R04.2 checks that it is asked for; this rule checks that the asking has an effect and that
    what was recorded is announced."""
    rep.rule('R04.10', 'pending gaps take effect: insert_pending_gap(sn) inserts sn into pending_gap, set_pending_gap_up_to(n) extends it with the range 1..=n; in '
                       'Writer::handle_ack_nack a non-empty pending-gap set of the acknowledging reader is sent as gap_msg(get_pending_gap(that proxy)) on every path '
                       '(only an empty set sends nothing)')
    b = fx.find(RP + 'insert_pending_gap')
    rep.analysed(b)
    og = Origins(b, summaries=False)
    ins = [(bb, t) for bb, t in b.calls() if callee_res(t).endswith('BTreeSet::<T, A>::insert')]
    ok = len(ins) == 1 and has_field(og.of_operand(ins[0][1]['args'][0], ins[0][0], 'term'), 'pending_gap') and _strip4(og.of_operand(ins[0][1]['args'][1], ins[0][0], 'term')) == ('param', 2) and \
        all(Pos(b).every_path_passes(None, (r, 'term'), via_pos=[(ins[0][0], 'term')], from_entry=True) for r in b.return_blocks())
    rep.check(ok, 'R04.10', 'insert_pending_gap/inserts', 'pending_gap.insert(seq_num) on every path', 'insert_pending_gap does not insert its argument into pending_gap: readers that must skip a '
              'sample written for another reader are never told, and their reliable stream stalls before it', b.where())
    b = fx.find(RP + 'set_pending_gap_up_to')
    rep.analysed(b)
    og = Origins(b, summaries=False)
    ext = [(bb, t) for bb, t in b.calls() if callee_res(t).rsplit('::', 1)[-1] in ('extend', 'append', 'insert') and has_field(og.of_operand(t['args'][0], bb, 'term'), 'pending_gap')]
    rng = [(bb, t) for bb, t in b.calls() if callee_res(t).endswith('SequenceNumberRange::new')]
    ok = len(ext) >= 1 and len(rng) == 1 and _strip4(og.of_operand(rng[0][1]['args'][1], rng[0][0], 'term')) == ('param', 2) and \
        term_has(og.of_operand(rng[0][1]['args'][0], rng[0][0], 'term'), lambda x: x[0] == 'const' and str(x[2]) == '1')
    rep.check(ok, 'R04.10', 'set_pending_gap_up_to/extends', 'pending_gap gets the inclusive range 1..=last_gap_sn', 'set_pending_gap_up_to does not add the range 1..=last_gap_sn to pending_gap', b.where())
    # announcement in handle_ack_nack
    h = fx.find(W + 'handle_ack_nack')
    rep.analysed(h)
    og = Origins(h, summaries=True)
    P = Pos(h)
    edges = list(switch_edges(h, fx, og))
    nonempty = [(s_, t_) for s_, t_, cond, lab in edges if ((cond[0] == 'call' and cond[1].endswith('::is_empty') and lab is False) or
                                                           (cond[0] == 'un' and cond[1] == 'Not' and lab is True and term_has(cond, lambda x: x[0] == 'call' and x[1].endswith('::is_empty'))))
                and (has_field(cond, 'pending_gap') or has_call(cond, 'get_pending_gap'))]
    gaps = [(bb, 'term') for bb, t in h.calls() if call_matches(t, 'MessageBuilder::gap_msg') and
            (has_field(og.of_operand(t['args'][1], bb, 'term'), 'pending_gap') or has_call(og.of_operand(t['args'][1], bb, 'term'), 'get_pending_gap'))]
    sendm = [(bb, 'term') for bb, t in h.calls() if call_matches(t, 'Writer::send_message_to_readers')]
    ok = bool(nonempty) and bool(gaps) and bool(sendm)
    for s_, t_ in nonempty:
        for r in h.return_blocks():
            if P.can_reach((t_, 0), (r, 'term'), avoid_pos=gaps) or P.can_reach((t_, 0), (r, 'term'), avoid_pos=sendm):
                ok = False
    rep.check(ok, 'R04.10', 'handle_ack_nack/pending-gap-announced', 'pending_gap not empty => gap_msg(pending_gap) sent, on every path',
              'Writer::handle_ack_nack does not send the GAP for a non-empty pending-gap set of the acknowledging reader on every path (or sends it only when the set is empty)', h.where())


def rule_04_13(rep, fx, rid='R04.13'):
    """An ACKNACK is the only way a reader asks for a sample. R02.1 follows it to Writer::handle_ack_nack, R04.4 starts from the proxy's unsent set: this rule is the link between."""
    rep.rule(rid, 'the request is recorded: in Writer::handle_ack_nack, once lookup_reader_proxy_mut(GUID(source prefix, acknack.reader_id)) found the proxy, every path calls '
                  'proxy.handle_ack_nack(the received submessage, ..) before anything else decides about repair; RtpsReaderProxy::handle_ack_nack stores max(base, 1) of that '
                  'ACKNACK into all_acked_before on every path of the AckNack arm and inserts every member of reader_sn_state.iter() into unsent_changes (every cycle of the loop); '
                  'the only cut of unsent_changes there is split_off(last_available + 1) under highest > last_available')
    h = fx.find(W + 'handle_ack_nack')
    rep.analysed(h)
    og = Origins(h, summaries=True)
    P = Pos(h)
    edges = list(switch_edges(h, fx, og))
    found = [(s_, t_, cond) for s_, t_, cond, lab in edges if lab == 'Some' and cond[0] == 'discr' and cond[1][0] == 'call' and cond[1][1].endswith('lookup_reader_proxy_mut') and
             term_has(cond, lambda x: x[0] == 'variant' and x[1] == 'AckNack')]
    calls = []
    for bb, t in h.calls():
        if call_matches(t, 'RtpsReaderProxy::handle_ack_nack'):
            a0 = og.of_operand(t['args'][0], bb, 'term')
            a1 = _strip4(og.of_operand(t['args'][1], bb, 'term'))
            if has_call(a0, 'lookup_reader_proxy_mut') and a1[0] == 'param':
                calls.append((bb, 'term'))
    ok = len(found) >= 1 and len(calls) >= 1
    why = 'no such call'
    # the proxy looked up is the sender's: GUID::new(prefix parameter, acknack.reader_id)
    for s_, t_, cond in found:
        if not (term_has(cond, lambda x: x[0] == 'call' and x[1].endswith('GUID::new') and term_has(x, lambda y: y[0] == 'field' and y[1] == 'reader_id') and
                         term_has(x, lambda y: y[0] == 'param'))):
            ok = False
            why = 'the proxy is not looked up by GUID(source prefix, acknack.reader_id)'
    # first thing on every path: stores into the proxy's repair_mode / the repair timer / return lie behind the call
    stops = [(r, 'term') for r in h.return_blocks()]
    for bb, si, st in h.statements():
        if st['s'] == 'assign' and st['lhs'].get('p') and any(pp.get('n') == 'repair_mode' for pp in st['lhs']['p'] if isinstance(pp, dict)):
            stops.append((bb, si))
    stops += [(bb, 'term') for bb, t in h.calls() if callee_res(t).endswith('set_timeout')]
    for s_, t_, cond in found:
        for x in stops:
            if P.can_reach((t_, 0), x, avoid_pos=calls):
                ok = False
                why = 'a path from the found proxy reaches %s without the call' % ('the return' if x[1] == 'term' and x[0] in h.return_blocks() else 'the repair decision')
    rep.check(ok, rid, 'Writer::handle_ack_nack/proxy-told', 'found proxy => proxy.handle_ack_nack(received ACKNACK) first, on every path',
              'Writer::handle_ack_nack does not hand the received ACKNACK to the reader proxy of its sender on every path (%s): neither the acknowledgment nor the requested '
              'numbers are recorded, so nothing is ever repaired' % why, h.where(found[0][0]) if found else h.where())
    rep.floor(rid, len(stops), 3, 'repair decisions / returns after the lookup in Writer::handle_ack_nack')

    b = fx.find(RP + 'handle_ack_nack')
    rep.analysed(b)
    og = Origins(b, summaries=False)
    P = Pos(b)
    edges = list(switch_edges(b, fx, og))
    arm = [(s_, t_) for s_, t_, cond, lab in primary_edges(b, edges) if lab == 'AckNack']
    # (1) all_acked_before := max(base, 1)
    stores = []
    for bb, si, st in b.statements():
        if st['s'] == 'assign' and st['lhs'].get('p') and any(isinstance(pp, dict) and pp.get('n') == 'all_acked_before' for pp in st['lhs']['p']):
            v = og._rvalue(st['rv'], bb, si, 0)
            good = term_has(v, lambda x: x[0] == 'call' and x[1].endswith('::base') and has_field(x, 'reader_sn_state')) and \
                not term_has(v, lambda x: x[0] == 'call' and x[1].rsplit('::', 1)[-1] in ('min', 'sub', 'add', 'plus_1'))
            stores.append(((bb, si), good, v))
    ok = len(arm) == 1 and len(stores) >= 1 and all(g for _, g, _ in stores)
    for s_, t_ in arm:
        for r in b.return_blocks():
            if P.can_reach((t_, 0), (r, 'term'), avoid_pos=[p_ for p_, _, _ in stores]):
                ok = False
    rep.check(ok, rid, 'RtpsReaderProxy::handle_ack_nack/acked-recorded', 'all_acked_before := max(reader_sn_state.base(), 1) on every path of the AckNack arm',
              'the reader proxy does not record the base of the received ACKNACK as all_acked_before on every path (stored: %s): the writer never learns what arrived, keeps '
              'sending HEARTBEATs and never releases the samples' % '; '.join(term_str(v)[:80] for _, _, v in stores), b.where(stores[0][0][0]) if stores else b.where())
    # (2) every requested number goes into unsent_changes
    n_loop = 0
    okl = True
    for lp in natural_loops(b):
        head, blocks = lp[0], lp[1]
        nxt = [(bb, t) for bb, t in b.calls() if bb in blocks and callee_res(t).endswith('::next') and
               term_has(og.of_operand(t['args'][0], bb, 'term'), lambda x: x[0] == 'call' and x[1].endswith('::iter') and has_field(x, 'reader_sn_state'))]
        if not nxt:
            continue
        n_loop += 1
        nb = nxt[0][0]
        some = [(s_, t_) for s_, t_, cond, lab in edges if lab == 'Some' and s_ in blocks and cond[0] == 'discr' and cond[1][0] == 'call' and cond[1][1].endswith('::next')]
        ins = []
        for bb, t in b.calls():
            if bb in blocks and callee_res(t).endswith('::insert') and has_field(og.of_operand(t['args'][0], bb, 'term'), 'unsent_changes'):
                v = og.of_operand(t['args'][1], bb, 'term')
                if term_has(v, lambda x: x[0] == 'variant' and x[1] == 'Some') and has_call(v, '::next'):
                    ins.append((bb, 'term'))
        okl = okl and bool(some) and bool(ins)
        for s_, t_ in some:
            if P.can_reach((t_, 0), (nb, 'term'), avoid_pos=ins):
                okl = False
            for r in b.return_blocks():
                if P.can_reach((t_, 0), (r, 'term'), avoid_pos=ins):
                    okl = False
    # the same as one call: unsent_changes.extend(reader_sn_state.iter()) with nothing filtering in between, on every path of the arm
    if n_loop == 0:
        ext = []
        for bb, t in b.calls():
            if callee_res(t).rsplit('::', 1)[-1] == 'extend' and has_field(og.of_operand(t['args'][0], bb, 'term'), 'unsent_changes'):
                src = og.of_operand(t['args'][1], bb, 'term')
                plain = src[0] == 'call' and src[1].endswith('::iter') and has_field(src, 'reader_sn_state')
                if plain:
                    ext.append((bb, 'term'))
        if ext and arm and not any(P.can_reach((t_, 0), (r, 'term'), avoid_pos=ext) for s_, t_ in arm for r in b.return_blocks()):
            n_loop, okl = 1, True
    rep.check(okl and n_loop == 1, rid, 'RtpsReaderProxy::handle_ack_nack/requests-recorded', 'every member of reader_sn_state.iter() is inserted into unsent_changes',
              'the reader proxy does not put every sequence number the ACKNACK asks for into unsent_changes (loops over the requested set: %d): the request is acknowledged and forgotten, '
              'the sample is never sent again' % n_loop, b.where())
    # (3) the only cut: split_off(last_available + 1) behind highest > last_available
    cuts = []
    for bb, t in b.calls():
        r = callee_res(t).rsplit('::', 1)[-1]
        if r in ('split_off', 'clear', 'retain', 'remove', 'pop_first', 'pop_last', 'take', 'drain') and t['args'] and has_field(og.of_operand(t['args'][0], bb, 'term'), 'unsent_changes'):
            cuts.append((bb, t, r))
    okc = True
    whyc = ''
    gt = [(s_, t_) for s_, t_, cond, lab in edges if cond[0] == 'call' and ((cond[1].endswith('::gt') and lab is True) or (cond[1].endswith('::le') and lab is False)) and
          term_has(cond[2][0], lambda x: x[0] == 'call' and x[1].endswith('next_back')) and _strip4(cond[2][1]) == ('param', 3)]
    gt += [(s_, t_) for s_, t_, cond, lab in edges if cond[0] == 'call' and ((cond[1].endswith('::lt') and lab is True) or (cond[1].endswith('::ge') and lab is False)) and
           term_has(cond[2][1], lambda x: x[0] == 'call' and x[1].endswith('next_back')) and _strip4(cond[2][0]) == ('param', 3)]
    for bb, t, r in cuts:
        a = og.of_operand(t['args'][1], bb, 'term') if len(t['args']) > 1 else None
        if r != 'split_off' or a is None or not (term_has(a, lambda x: x[0] == 'call' and x[1].endswith('plus_1')) and term_has(a, lambda x: x == ('param', 3))):
            okc = False
            whyc = '%s(%s)' % (r, term_str(a)[:60] if a else '')
        elif not gt or not P.every_path_passes(None, (bb, 'term'), via_edges=gt, from_entry=True):
            okc = False
            whyc = 'split_off not behind highest > last_available'
    rep.check(okc, rid, 'RtpsReaderProxy::handle_ack_nack/only-unavailable-cut', '%d cut(s) of unsent_changes: split_off(last_available + 1) under highest > last_available' % len(cuts),
              'handling an ACKNACK removes requested numbers from unsent_changes that the writer could serve (%s)' % whyc, b.where(cuts[0][0]) if cuts else b.where())


def rule_04_11(rep, fx):
    """Fragment repair makes progress and ends: every fragment the repair worker takes from the requested set is taken off that set."""
    rep.rule('R04.11', 'fragment repair terminates: in handle_repair_frags_send_worker every loop iteration that reaches its end calls mark_frag_sent(seq_num, frag_num) of the '
                       'iterated pair; mark_frag_sent clears that bit and drops the entry when no bit is left (repair_frags_requested() = any bit set re-arms the timer); '
                       'mark_all_frags_requested(sn, n) records n set bits for sn')
    b = fx.find(W + 'handle_repair_frags_send_worker')
    rep.analysed(b)
    og = Origins(b, summaries=False)
    P = Pos(b)
    nxt = [(bb, t) for bb, t in b.calls() if callee_res(t).endswith('::next')]
    marks = [(bb, t) for bb, t in b.calls() if callee_res(t).endswith('RtpsReaderProxy::mark_frag_sent')]
    ok = bool(nxt) and len(marks) >= 1
    for bb, t in marks:
        a1, a2 = og.of_operand(t['args'][1], bb, 'term'), og.of_operand(t['args'][2], bb, 'term')
        ok = ok and term_has(a1, lambda x: x[0] == 'call' and x[1].endswith('::next')) and term_has(a2, lambda x: x[0] == 'call' and x[1].endswith('::next'))
    some = [(s_, t_) for s_, t_, cond, lab in switch_edges(b, fx, og) if lab == 'Some' and cond[0] == 'discr' and cond[1][0] == 'call' and cond[1][1].endswith('::next')]
    ok = ok and bool(some)
    for s_, t_ in some:
        for nb, _t in nxt:
            if P.can_reach((t_, 0), (nb, 'term'), avoid_pos=[(mb, 'term') for mb, _ in marks]):
                ok = False
    rep.check(ok, 'R04.11', 'handle_repair_frags_send_worker/marks-each-sent', 'every completed iteration marks its (seq_num, frag_num) sent',
              'the fragment repair worker can finish an iteration without mark_frag_sent(seq_num, frag_num): the fragment stays requested, repair_frags_requested() stays true and the '
              'same fragments are re-sent for ever', b.where())
    m = fx.find(RP + 'mark_frag_sent')
    rep.analysed(m)
    ogm = Origins(m, summaries=False)
    sets = [(bb, t) for bb, t in m.calls() if callee_res(t).endswith('BitVec::<B>::set') or callee_res(t).endswith('BitVec::set')]
    rems = [(bb, t) for bb, t in m.calls() if callee_res(t).endswith('::remove') and has_field(ogm.of_operand(t['args'][0], bb, 'term'), 'frags_requested')]
    okm = len(sets) == 1 and ogm.of_operand(sets[0][1]['args'][2], sets[0][0], 'term') in (('const', 'bool', False), ('const', 'int', 0)) and \
        term_has(ogm.of_operand(sets[0][1]['args'][1], sets[0][0], 'term'), lambda x: x == ('param', 3) or (x[0] == 'deref' and x[1] == ('param', 3))) and len(rems) == 1 and \
        _strip4(ogm.of_operand(rems[0][1]['args'][1], rems[0][0], 'term')) == ('param', 2)
    rep.check(okm, 'R04.11', 'mark_frag_sent/clears', 'bit (frag_num - 1) := false, entry removed when empty', 'mark_frag_sent does not clear the bit of the fragment it is given (or never drops an emptied entry)', m.where())
    a = fx.find(RP + 'mark_all_frags_requested')
    rep.analysed(a)
    oga = Origins(a, summaries=False)
    insa = [(bb, t) for bb, t in a.calls() if callee_res(t).endswith('::insert') and has_field(oga.of_operand(t['args'][0], bb, 'term'), 'frags_requested')]
    oka = len(insa) == 1 and _strip4(oga.of_operand(insa[0][1]['args'][1], insa[0][0], 'term')) == ('param', 2)
    if oka:
        v = oga.of_operand(insa[0][1]['args'][2], insa[0][0], 'term')
        oka = term_has(v, lambda x: x[0] == 'call' and x[1].endswith('from_elem') and term_has(x[2][0], lambda y: y == ('param', 3)) and x[2][1] in (('const', 'bool', True), ('const', 'int', 1)))
    rep.check(oka, 'R04.11', 'mark_all_frags_requested/records', 'frags_requested[seq_num] := frag_count bits, all set', 'mark_all_frags_requested does not record frag_count requested fragments for the sequence number', a.where())


def rule_04_12(rep, fx):
    """Retention: what the writer keeps is the last `depth` acknowledged samples plus everything a matched reliable reader has not acknowledged yet."""
    rep.rule('R04.12', 'retention formula: handle_cache_cleaning calls remove_all_acked_changes_but_keep_depth(k) on every path with k = 1 without a History policy, the resource '
                       'limit for KeepAll and min(depth, resource limit) for KeepLast; there first_keeper = max(MIN over reliable reader proxies of acked_up_to_before() - depth, '
                       'first_change_sequence_number()) for a stateful writer and exactly that value goes to HistoryBuffer::remove_changes_before, which cuts both of its maps at '
                       'the given number (split_off keeps what is >= it) and moves first_seq there')
    h = fx.find(W + 'handle_cache_cleaning')
    rep.analysed(h)
    og = Origins(h, summaries=False)
    P = Pos(h)
    calls = [(bb, t) for bb, t in h.calls() if callee_res(t).endswith('Writer::remove_all_acked_changes_but_keep_depth')]
    table = {}
    edges = list(switch_edges(h, fx, og))
    for s_, t_, cond, lab in edges:
        if not isinstance(lab, str) or cond[0] != 'discr':
            continue
        for bb, t in calls:
            if P.norm((t_, 0)) == P.norm((bb, 0)) or (P.can_reach((t_, 0), (bb, 'term')) and not any(P.can_reach((t_, 0), (b2, 'term')) for b2, _t in calls if b2 != bb)):
                table.setdefault(lab, set()).add(bb)
    vals = {bb: og.of_operand(t['args'][1], bb, 'term') for bb, t in calls}

    def is_limit(v):
        return v[0] == 'const' and v[1] == 'int'
    ok = len(calls) == 3 and all(P.every_path_passes(None, (r, 'term'), via_pos=[(bb, 'term') for bb, _ in calls], from_entry=True) for r in h.return_blocks())
    why = []
    if ok:
        try:
            none_v = vals[next(iter(table['None']))]
            all_v = vals[next(iter(table['KeepAll']))]
            last_v = vals[next(iter(table['KeepLast']))]
            ok = none_v == ('const', 'int', 1) and is_limit(all_v) and last_v[0] == 'call' and last_v[1].endswith('::min') and \
                any(term_has(x, lambda y: y[0] == 'field' and y[1] == 'depth') for x in last_v[2]) and any(x == all_v for x in last_v[2])
            why = [term_str(none_v), term_str(all_v), term_str(last_v)[:80]]
        except (KeyError, StopIteration):
            ok = False
    rep.check(ok, 'R04.12', 'handle_cache_cleaning/keep-depth', 'None => 1, KeepAll => limit, KeepLast{d} => min(d, limit), on every path',
              'handle_cache_cleaning does not clean with keep depth 1 / resource limit / min(depth, resource limit) for None / KeepAll / KeepLast on every path (%s): the writer keeps '
              'more, or less, than its History policy says' % why, h.where())
    r = fx.find(W + 'remove_all_acked_changes_but_keep_depth')
    rep.analysed(r)
    ogr = Origins(r, summaries=False)
    Pr = Pos(r)
    rc = [(bb, t) for bb, t in r.calls() if callee_res(t).endswith('HistoryBuffer::remove_changes_before')]
    okf = len(rc) == 1 and all(Pr.every_path_passes(None, (x, 'term'), via_pos=[(rc[0][0], 'term')], from_entry=True) for x in r.return_blocks())
    shown = ''
    if okf:
        v = ogr.of_operand(rc[0][1]['args'][1], rc[0][0], 'term')
        shown = term_str(v)[:160]
        alts = list(v[1]) if v[0] == 'phi' else [v]
        first = lambda x: x[0] == 'call' and x[1].endswith('first_change_sequence_number')
        # two arms (stateful / stateless-like); each keeps max(<acknowledged by all> - depth, first available). For the stateless-like writer nobody acknowledges, so
        # everything written counts as acknowledged: last_seq + 1 (raised F35: that arm kept `first available`, i.e. never removed anything)
        def keeper(m):
            if not (m[0] == 'call' and m[1].rsplit('::', 1)[-1] == 'max' and len(m[2]) == 2 and any(first(x) for x in m[2])):
                return None
            sub = [x for x in m[2] if not first(x)]
            if len(sub) != 1 or not (sub[0][0] == 'call' and sub[0][1].rsplit('::', 1)[-1] == 'sub' and term_has(sub[0][2][1], lambda y: y == ('param', 2))):
                return None
            x = sub[0][2][0]
            if term_has(x, lambda y: y[0] == 'call' and y[1].endswith('Iterator::min')) and \
                    term_has(x, lambda y: y[0] == 'call' and y[1].endswith('Iterator::map') and term_has(y, lambda z: z[0] == 'const' and 'acked_up_to_before' in str(z))) and \
                    not term_has(x, lambda y: y[0] == 'call' and y[1].endswith(('Iterator::max', 'Iterator::last', 'Iterator::next'))):
                return 'acked-by-all'
            if x[0] == 'call' and x[1].endswith('plus_1') and x[2] and x[2][0][0] == 'call' and x[2][0][1].endswith('last_change_sequence_number'):
                return 'all-written'
            return None
        kinds = sorted(str(keeper(a)) for a in alts)
        okf = kinds == ['acked-by-all', 'all-written']
    rep.check(okf, 'R04.12', 'remove_all_acked_changes_but_keep_depth/first-keeper', 'max(min(acked_up_to_before of reliable readers) - depth, first_seq) -> remove_changes_before, on every path; stateless-like: max(last_seq + 1 - depth, first_seq)',
              'the first sequence number kept is not max(MIN over reliable readers of acked_up_to_before() - depth, first available) - for a stateless-like writer max(last written + 1 - depth, first available) - handed to remove_changes_before on every path (%s): '
              'samples a reliable reader has not acknowledged can be dropped, or acknowledged ones are kept beyond the depth' % shown, r.where())
    hb = fx.find('rtps::writer::HistoryBuffer::remove_changes_before')
    rep.analysed(hb)
    ogh = Origins(hb, summaries=False)
    splits = [(bb, t) for bb, t in hb.calls() if callee_res(t).endswith('BTreeMap::<K, V, A>::split_off')]
    okh = len(splits) == 2
    stores = {}
    for bb, si, st in hb.statements():
        if st['s'] == 'assign':
            names = [e.get('n') for e in (st['lhs'].get('p') or []) if isinstance(e, dict)]
            if names and names[-1] in ('history_buffer', 'sequence_number_to_instant', 'first_seq'):
                stores[names[-1]] = ogh._rvalue(st['rv'], bb, si, 0)
    if okh:
        sn = stores.get('sequence_number_to_instant')
        hbv = stores.get('history_buffer')
        fs = stores.get('first_seq')
        okh = sn is not None and hbv is not None and fs is not None and \
            sn[0] == 'call' and sn[1].endswith('split_off') and has_field(sn[2][0], 'sequence_number_to_instant') and term_has(sn[2][1], lambda y: y == ('param', 2)) and \
            hbv[0] == 'call' and hbv[1].endswith('split_off') and has_field(hbv[2][0], 'history_buffer') and \
            term_has(hbv[2][1], lambda y: y[0] == 'call' and y[1].endswith('::get') and term_has(y, lambda z: z == ('param', 2))) and _strip4(fs) == ('param', 2)
    rep.check(okh, 'R04.12', 'HistoryBuffer::remove_changes_before/cuts-both-maps', 'history_buffer := split_off(instant of n), sequence_number_to_instant := split_off(n), first_seq := n',
              'HistoryBuffer::remove_changes_before does not cut both maps at the given sequence number and move first_seq there', hb.where())


def rule_04_16(rep, fx, rid='R04.16'):
    """A GAP built from a set of sequence numbers declares irrelevant exactly members of that set (added after seed C02g: `GAP [first, last + 1)` with an empty list declares
    every number in a hole of the set irrelevant; the reader moves its frontier over samples the writer still holds for it and never asks again)."""
    rep.rule(rid, 'a GAP says no more than the set it is built from: in MessageBuilder::gap_msg gap_start is the first member, gapList.base starts at first + 1 and is advanced '
                  'only over numbers the set contains (every step behind the true edge of contains(set, base)), never derived from the last member or the size, and the gapList is '
                  'SequenceNumberSet::from_base_and_set(base, <the members of the set from base on>)')
    b = fx.find('rtps::message::MessageBuilder::gap_msg')
    rep.analysed(b)
    og = Origins(b, summaries=True)
    P = Pos(b)
    edges = list(switch_edges(b, fx, og))

    def from_set(t):
        return term_has(t, lambda x: x == ('param', 2))

    def first_of_set(t):
        return term_has(t, lambda x: x[0] == 'call' and x[1].rsplit('::', 1)[-1] in ('first', 'min', 'next') and from_set(x))

    def far_end(t):
        return term_has(t, lambda x: x[0] == 'call' and x[1].rsplit('::', 1)[-1] in ('last', 'max', 'next_back', 'len', 'count', 'last_key_value', 'pop_last') and from_set(x))
    gaps = [(bb, si, st) for bb, si, st in b.statements() if st['s'] == 'assign' and st['rv'].get('r') == 'agg' and (st['rv'].get('adt') or '').endswith('submessages::gap::Gap')]
    if not gaps:
        gaps = [(bb, si, st) for bb, si, st in b.statements() if st['s'] == 'assign' and st['rv'].get('r') == 'agg' and 'gap_list' in (st['rv'].get('fields') or [])]
    if len(gaps) != 1:
        raise CheckBroken('%s: Gap literal in MessageBuilder::gap_msg not found (%d)' % (rid, len(gaps)))
    bb, si, st = gaps[0]
    f = st['rv']['fields']
    start = og.of_operand(st['rv']['ops'][f.index('gap_start')], bb, si)
    glist = og.of_operand(st['rv']['ops'][f.index('gap_list')], bb, si)
    ok = first_of_set(start) and not far_end(start) and not term_has(start, lambda x: x[0] == 'call' and x[1].endswith('plus_1'))
    rep.check(ok, rid, 'gap_msg/start-is-first-member', 'gap_start = first member of the set', 'MessageBuilder::gap_msg: gap_start is not the first member of the set of irrelevant numbers: %s'
              % term_str(start)[:160], b.where())
    mk = [x for x in [glist] if x[0] == 'call' and x[1].endswith('from_base_and_set')]
    ok = bool(mk)
    base = None
    if ok:
        base, members = mk[0][2][0], mk[0][2][1]
        ok = from_set(members) and not term_has(members, lambda x: x[0] == 'call' and x[1].endswith(('new_empty', '::new', 'default')) and not from_set(x))
    rep.check(ok, rid, 'gap_msg/list-from-the-set', 'gapList = from_base_and_set(base, members of the set)',
              'MessageBuilder::gap_msg: the gapList is not built by from_base_and_set from the members of the set it was given (%s): numbers of the set behind the first contiguous run are '
              'not announced, or the range before the base has to cover them' % term_str(glist)[:160], b.where())
    if base is not None:
        okb = first_of_set(base) and not far_end(base) and term_has(base, lambda x: x[0] == 'call' and x[1].endswith('plus_1'))
        # every step of the base beyond first + 1 is taken behind contains(set, base) == true
        cont_true = [(s_, t_) for s_, t_, c, lab in edges if lab is True and c[0] == 'call' and c[1].rsplit('::', 1)[-1] == 'contains' and from_set(c[2][0])] + \
                    [(s_, t_) for s_, t_, c, lab in edges if lab is False and c[0] == 'un' and term_has(c, lambda x: x[0] == 'call' and x[1].rsplit('::', 1)[-1] == 'contains' and from_set(x))]
        for cb, t in b.calls():
            if callee_res(t).endswith(('plus_1', 'Add::add', '::add')) or (callee_res(t).rsplit('::', 1)[-1] in ('add_assign',)):
                a0 = og.of_operand(t['args'][0], cb, 'term')
                direct = a0[0] in ('field', 'variant') and first_of_set(a0) and not term_has(a0, lambda x: x[0] in ('phi', 'mut'))
                if direct:
                    continue     # first + 1
                if not (cont_true and P.every_path_passes(None, (cb, 'term'), via_edges=cont_true, from_entry=True)):
                    okb = False
        rep.check(okb, rid, 'gap_msg/base-advances-only-over-members', 'base = first + 1, advanced only while the set contains it',
                  'MessageBuilder::gap_msg: gapList.base (%s) is not first + 1 advanced only over numbers the set contains: the range [gap_start, base) declares numbers irrelevant that are '
                  'not in the set, a reader that lost one of them stops asking for it' % term_str(base)[:160], b.where())


def rule_04_17(rep, fx, rid='R04.17'):
    """`last_seq` is "the highest sequence number written": it only grows (added after seed C20g, which assigned it unconditionally in add_change: with write commands enqueued
    as 1, 3, 2 the HEARTBEAT advertises last = 2 and wait_for_acknowledgments waits only up to 2)."""
    rep.rule(rid, 'highest written only grows: outside its constructor every store to HistoryBuffer.last_seq lies behind the edge on which the stored value was found greater than '
                  'the current last_seq (new > last / last < new; the non-strict forms on their false edge)')
    n = 0
    for b in fx.bodies:
        if not b.key.startswith('rtps::writer::HistoryBuffer::') or b.kind not in ('fn', 'assoc_fn') or b.name == 'new':
            continue
        og = None
        for bb, si, st in b.statements():
            if st['s'] != 'assign':
                continue
            pr = st['lhs'].get('p') or []
            if not any(isinstance(p, dict) and p.get('n') == 'last_seq' for p in pr):
                continue
            n += 1
            rep.analysed(b)
            og = og or Origins(b, summaries=True)
            P = Pos(b)
            v = og.of_operand(st['rv']['x'], bb, si) if st['rv'].get('r') == 'use' else None
            grow = []
            for s_, t_, c, lab in switch_edges(b, fx, og):
                if c[0] == 'call' and c[1].rsplit('::', 1)[-1] in ('lt', 'gt', 'le', 'ge') and len(c[2]) == 2:
                    x, y = c[2]
                    is_last = lambda t: term_has(t, lambda z: (z[0] == 'field' and z[1] == 'last_seq') or (z[0] == 'call' and z[1].endswith('last_change_sequence_number')))
                    m = c[1].rsplit('::', 1)[-1]
                    if v is not None and x == v and is_last(y) and not is_last(x):
                        rel = m            # v m last
                    elif v is not None and y == v and is_last(x) and not is_last(y):
                        rel = {'lt': 'gt', 'gt': 'lt', 'le': 'ge', 'ge': 'le'}[m]
                    else:
                        continue
                    if (rel == 'gt' and lab is True) or (rel == 'le' and lab is False):
                        grow.append((s_, t_))
            ok = bool(grow) and P.every_path_passes(None, (bb, si), via_edges=grow, from_entry=True)
            rep.check(ok, rid, '%s/last_seq-only-grows' % b.name, 'store to last_seq only behind new > last_seq',
                      'HistoryBuffer::%s stores to last_seq on a path where the value was not found greater than the current one: "highest written" can go back (commands enqueued out of '
                      'sequence-number order), the HEARTBEAT then advertises less than was written and wait_for_acknowledgments waits for less' % b.name, b.where(bb, si))
    rep.floor(rid, n, 1, 'stores to HistoryBuffer.last_seq outside the constructor')
