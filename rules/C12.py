"""C12  A silent participant is dropped after its lease, a live one never.

Timing is a run-time quantity, but the decision rule is entirely in code shape: which
comparison gates the drop, what its operands are, which paths refresh the life sign, and
which handler drains the liveness side channel.
"""
from rdv.core import (CheckBroken, Origins, Pos, call_matches, callee_res, natural_loops, norm_path, primary_edges, strip_generics,
                      switch_edges, term_has, term_leaves, term_str)

CONFIGS = ['default']
LEVEL = 'other'


def has_field(t, name):
    return term_has(t, lambda x: x[0] == 'field' and x[1] == name)


def has_call(t, suffix):
    return term_has(t, lambda x: x[0] == 'call' and (x[1].endswith(suffix)))


def has_const(t, suffix):
    return term_has(t, lambda x: x[0] == 'const' and isinstance(x[2], str) and x[2].endswith(suffix))


def token_arm(fx, body, const_name):
    """Entry block of the match arm for a Token constant in an event loop, and the switch block."""
    c = [v for k, v in fx.consts.items() if k.endswith('::' + const_name)]
    if not c or c[0].get('val') is None:
        raise CheckBroken('constant %s not found' % const_name)
    val = c[0]['val']
    hits = []
    for bb in sorted(body.live_blocks()):
        t = body.blocks[bb]['term']
        if t['t'] == 'switch' and t.get('xty') == 'usize':
            for v, tg in t['arms']:
                if v == val:
                    hits.append((bb, tg))
    if len(hits) != 1:
        raise CheckBroken('%s: expected exactly one match arm for %s, found %d' % (body.key, const_name, len(hits)))
    return hits[0]


def run(rep, facts, tier):
    fx = facts['default']
    rep.explanation = ('Formula + must-pass-through rules: the drop decision is `elapsed > lease (+tolerance)` with the right operands; every '
                       'announcement / liveness path refreshes the life sign; the edge-triggered liveness channel is drained until empty; '
                       'dispose removes immediately, timeout moves endpoints to the attic and rediscovery restores them; the cleanup timer is re-armed.')
    rep.assume('Instant::now()/duration_since behave as documented; timer wheel delivers the re-armed timeout',
               'how long "longer than the lease" is observed depends on the 2 s cleanup period (not decided)')
    rep.rule('R12.1', 'participant_cleanup: a participant is pushed to the removal list exactly on `elapsed > lease + TOL`, elapsed = now - last_life_sign[guid], '
                      'lease = proxy.lease_duration | DEFAULT; every pushed guid reaches remove_participant(guid, false) and the caller reports ParticipantLost')
    rep.rule('R12.2', 'every non-rejecting path of update_participant and the found-branch of participant_is_alive store Instant::now() into the life-sign table; '
                      'SPDP DATA sends the source prefix on the liveness channel; the SPDP_LIVENESS_TOKEN handler drains the channel until empty into participant_is_alive')
    rep.rule('R12.3', 'dispose => remove_participant(prefix, true) (endpoints deleted) and ParticipantLost; timeout => endpoints moved to the attic; '
                      'an unknown participant in update_participant restores them from the attic')
    rep.rule('R12.4', 'the cleanup timer arm runs participant_cleanup and re-arms the timer on every path')

    # ------------------------------------------------------------------ R12.1
    pc = fx.find('discovery::discovery_db::DiscoveryDB::participant_cleanup')
    rep.analysed(pc)
    og = Origins(pc, summaries=True)
    P = Pos(pc)
    pushes = [(bb, 'term') for bb, t in pc.calls() if callee_res(t).endswith('::push') and has_field(og.of_operand(t['args'][1], bb, 'term'), 'participant_last_life_signs')]
    if not pushes:
        pushes = [(bb, 'term') for bb, t in pc.calls() if callee_res(t).endswith('::push')]
    if not pushes:
        raise CheckBroken('participant_cleanup: no push to the removal list found')
    expired_edges = []
    seen_cmp = []
    resolution = []
    for sbb, tg, cond, lab in switch_edges(pc, fx, og):
        if cond[0] != 'call' or not cond[1].startswith('std::cmp::PartialOrd::') or not isinstance(lab, bool):
            continue
        m = cond[1].rsplit('::', 1)[-1]
        a, b = cond[2]

        def is_elapsed(t):
            return has_field(t, 'participant_last_life_signs') and (has_call(t, 'duration_since') or has_call(t, 'elapsed')) and not has_field(t, 'lease_duration')

        def is_bound(t):
            return has_field(t, 'lease_duration') and has_const(t, 'DEFAULT_PARTICIPANT_LEASE_DURATION') and not has_field(t, 'participant_last_life_signs')
        if is_elapsed(a) and is_bound(b):
            rel = {'lt': '<', 'le': '<=', 'gt': '>', 'ge': '>='}[m]
        elif is_bound(a) and is_elapsed(b):
            rel = {'lt': '>', 'le': '>=', 'gt': '<', 'ge': '<='}[m]   # written as elapsed ? bound
        else:
            continue
        if not lab:
            rel = {'<': '>=', '<=': '>', '>': '<=', '>=': '<'}[rel]
        seen_cmp.append((sbb, tg, rel))
        if rel == '>':
            expired_edges.append((sbb, tg))
        # both operands at full resolution (added after seed C12g: the silence cut to whole seconds keeps a participant with a fractional lease up to a second too long)
        coarse = sorted(set(x[1].rsplit('::', 1)[-1] for t_ in (a, b) for x in _subterms12(t_) if x[0] == 'call' and x[1].rsplit('::', 1)[-1] in COARSE_CALLS) |
                        set('cast' for t_ in (a, b) for x in _subterms12(t_) if x[0] == 'cast') |
                        set(str(x[1]) for t_ in (a, b) for x in _subterms12(t_) if x[0] == 'bin' and str(x[1]) in ('Div', 'Rem', 'Shr', 'BitAnd')))
        resolution.append((sbb, coarse))
    bad = sorted(set(c for _bb, cs in resolution for c in cs))
    rep.check(not bad, 'R12.1', 'participant_cleanup/full-resolution', 'silence and lease compared at full resolution (no truncating conversion in either operand)',
              'participant_cleanup compares the silence with the lease after a truncating conversion (%s): a participant whose lease is not a multiple of the coarser unit is kept '
              'past its lease (or dropped early)' % ', '.join(bad), pc.where())
    rep.check(bool(seen_cmp), 'R12.1', 'participant_cleanup/comparison', 'lease comparison found: %s' % sorted(set(r for _, _, r in seen_cmp)),
              'no comparison of (now - last life sign) against (lease_duration | DEFAULT) found in participant_cleanup', pc.where())
    for k, p in enumerate(pushes):
        ok = bool(expired_edges) and P.every_path_passes(None, p, via_edges=expired_edges, from_entry=True)
        rep.check(ok, 'R12.1', 'participant_cleanup/drop-only-when-expired#%d' % k, 'push only on elapsed > lease + TOL',
                  'a participant can be put on the removal list without `elapsed > lease (+tolerance)` holding '
                  '(edges seen: %s)' % sorted(set(r for _, _, r in seen_cmp)), pc.where(p[0]))
    # expired => pushed (before the next iteration)
    ok = bool(expired_edges)
    for sbb, tg in expired_edges:
        # from the expired edge every path back to the iterator's next() passes a push
        nexts = [(bb, 'term') for bb, t in pc.calls() if callee_res(t).endswith('::next')]
        for nx in nexts:
            if P.can_reach((tg, 0), nx, avoid_pos=pushes):
                ok = False
    rep.check(ok, 'R12.1', 'participant_cleanup/expired-is-dropped', 'elapsed > lease + TOL always reaches the push',
              'an expired participant is not always put on the removal list', pc.where())
    # tolerance is added to the lease, not subtracted
    ok = False
    for sbb, tg, cond, lab in switch_edges(pc, fx, og):
        if cond[0] == 'call' and cond[1].startswith('std::cmp::PartialOrd::'):
            for x in term_leaves(cond):
                if x[0] == 'call' and x[1].endswith('::add') and has_const(x, 'PARTICIPANT_LEASE_DURATION_TOLERANCE'):
                    ok = True
    rep.check(ok, 'R12.1', 'participant_cleanup/tolerance', 'bound = lease + PARTICIPANT_LEASE_DURATION_TOLERANCE',
              'the lease bound is not lease + PARTICIPANT_LEASE_DURATION_TOLERANCE', pc.where())
    rm = [(bb, t) for bb, t in pc.calls() if call_matches(t, 'DiscoveryDB::remove_participant')]
    ok = bool(rm) and all(t['args'][2].get('o') == 'const' and t['args'][2]['k'].get('v') == 0 for _, t in rm)
    rep.check(ok, 'R12.1', 'participant_cleanup/remove(false)', 'remove_participant(guid, false) for the removal list',
              'timed-out participants are not removed with remove_participant(_, false)', pc.where())
    dpc = fx.find('discovery::discovery::Discovery::participant_cleanup')
    rep.analysed(dpc)
    og2 = Origins(dpc)
    ok = any(call_matches(t, 'DiscoveryDB::participant_cleanup') for _, t in dpc.calls())
    lost = False
    for bb, si, st in dpc.statements():
        if st['s'] == 'assign' and st['rv']['r'] == 'agg' and st['rv'].get('variant') == 'ParticipantLost' and 'DiscoveryNotificationType' in st['rv'].get('adt', ''):
            lost = True
    sends = any(call_matches(t, 'Discovery::send_discovery_notification') for _, t in dpc.calls())
    rep.check(ok and lost and sends, 'R12.1', 'Discovery::participant_cleanup/reports-lost', 'each removed participant is reported as ParticipantLost',
              'participants removed by the cleanup are not reported (DiscoveryNotificationType::ParticipantLost) to the event loop', dpc.where())

    # ------------------------------------------------------------------ R12.2
    up = fx.find('discovery::discovery_db::DiscoveryDB::update_participant')
    rep.analysed(up)
    og = Origins(up, summaries=True)
    P = Pos(up)
    refresh = []
    for bb, t in up.calls():
        if callee_res(t).endswith('::insert') and has_field(og.of_operand(t['args'][0], bb, 'term'), 'participant_last_life_signs') and \
                has_call(og.of_operand(t['args'][2], bb, 'term'), 'Instant::now'):
            refresh.append((bb, 'term'))
    reject = [(sbb, tg) for sbb, tg, cond, lab in switch_edges(up, fx, og)
              if has_const(cond, 'EntityId::PARTICIPANT') and ((cond[0] == 'call' and cond[1].endswith('::ne') and lab is True) or
                                                               (cond[0] == 'call' and cond[1].endswith('::eq') and lab is False))]
    ok = bool(refresh) and all(P.every_path_passes(None, (r, 'term'), via_pos=refresh, via_edges=reject, from_entry=True) for r in up.return_blocks())
    rep.check(ok, 'R12.2', 'update_participant/refresh', 'life sign stored on every non-rejecting path',
              'update_participant can accept an announcement without storing Instant::now() into participant_last_life_signs', up.where())
    ia = fx.find('discovery::discovery_db::DiscoveryDB::participant_is_alive')
    rep.analysed(ia)
    og = Origins(ia, summaries=True)
    P = Pos(ia)
    some = [(sbb, tg) for sbb, tg, cond, lab in switch_edges(ia, fx, og) if lab == 'Some' and has_field(cond, 'participant_last_life_signs')]
    stores = []
    for bb, si, st in ia.statements():
        if st['s'] == 'assign' and st['lhs'].get('p') and st['lhs']['p'][0] == '*':
            v = og._rvalue(st['rv'], bb, si, 0)
            base = og.of_local(st['lhs']['l'], bb, si)
            if has_call(v, 'Instant::now') and has_field(base, 'participant_last_life_signs'):
                stores.append((bb, si))
    ok = bool(some) and bool(stores) and all(not P.can_reach((tg, 0), (r, 'term'), avoid_pos=stores) for _s, tg in some for r in ia.return_blocks())
    rep.check(ok, 'R12.2', 'participant_is_alive/refresh', 'known participant => life sign := now on every path',
              'participant_is_alive does not always store Instant::now() for a known participant', ia.where())
    key_ok = any(lab == 'Some' and has_field(cond, 'participant_last_life_signs') and term_has(cond, lambda x: x == ('param', 2))
                 for _s, _t, cond, lab in switch_edges(ia, fx, og))
    rep.check(key_ok, 'R12.2', 'participant_is_alive/key', 'looked up by the given prefix', 'the life-sign entry is not looked up by the given guid prefix', ia.where())
    # sender side
    hw = fx.find('rtps::message_receiver::MessageReceiver::handle_writer_submessage')
    rep.analysed(hw)
    og = Origins(hw, summaries=True)
    P = Pos(hw)
    snd = [(bb, t) for bb, t in hw.calls() if callee_res(t).endswith('try_send') and has_field(og.of_operand(t['args'][0], bb, 'term'), 'spdp_liveness_sender')]
    ok = bool(snd) and all(has_field(og.of_operand(t['args'][1], bb, 'term'), 'source_guid_prefix') for bb, t in snd)
    rep.check(ok, 'R12.2', 'handle_writer_submessage/liveness-send', 'SPDP DATA => spdp_liveness_sender.try_send(source_guid_prefix)',
              'the receive path does not send the source guid prefix on the SPDP liveness channel', hw.where())
    if snd:
        # it must be reachable from the DATA arm (after handle_data_msg) whenever the SPDP writer/reader equality holds: guarded only by entity-id equalities
        sb = snd[0][0]
        data_calls = [(bb, 'term') for bb, t in hw.calls() if call_matches(t, 'Reader::handle_data_msg')]
        guards = []
        for sbb, tg, cond, lab in switch_edges(hw, fx, og):
            if sbb in pc.live_blocks() and False:
                pass
        # every guard between handle_data_msg and the send must be an equality against an SPDP builtin entity constant
        ok = True
        why = ''
        for db, _ in data_calls:
            if not P.can_reach((db, 'term'), (sb, 'term')):
                continue
            for sbb, tg, cond, lab in switch_edges(hw, fx, og):
                if P.can_reach((db, 'term'), (sbb, 'term')) and P.can_reach((tg, 0), (sb, 'term')) or (tg, 0) == P.norm((sb, 'term')):
                    if P.can_reach((db, 'term'), (sbb, 'term')) and not P.can_reach((sbb, 'term'), (db, 'term')):
                        other = [t2 for s2, t2, c2, l2 in switch_edges(hw, fx, og) if s2 == sbb and t2 != tg]
                        skips = any(not P.can_reach((o, 0), (sb, 'term')) and (o, 0) != P.norm((sb, 'term')) for o in other)
                        if skips and not (has_const(cond, 'SPDP_BUILTIN_PARTICIPANT_WRITER') or has_const(cond, 'SPDP_BUILTIN_PARTICIPANT_READER')):
                            if not (cond[0] == 'call' and 'log' in cond[1]) and not term_has(cond, lambda x: x[0] == 'call' and x[1].startswith('log::')):
                                ok = False
                                why = term_str(cond)[:120]
        rep.check(ok, 'R12.2', 'handle_writer_submessage/liveness-guard', 'guarded only by the SPDP writer/reader entity-id equalities',
                  'the liveness notification is additionally guarded by %s' % why, hw.where(sb))
        # ... and with the right polarity: sent exactly when both equalities hold (decision table; mutation triage: `==` -> `!=` and `&&` -> `||` survived the guard rule)
        from rdv import boolform
        ogp = Origins(hw, summaries=False)

        def lv_namer(t, og_, bb):
            cr = callee_res(t)
            last = cr.rsplit('::', 1)[-1]
            if last in ('eq', 'ne') and len(t['args']) == 2:
                txt = ' '.join(term_str(og_.of_operand(x, bb, 'term')) for x in t['args'])
                if 'SPDP_BUILTIN_PARTICIPANT_WRITER' in txt:
                    return last + ':writer'
                if 'SPDP_BUILTIN_PARTICIPANT_READER' in txt:
                    return last + ':reader'
            return None
        firsts = [bb for bb, t in hw.calls() if (lv_namer(t, ogp, bb) or '').endswith(':writer') and P.can_reach((bb, 'term'), (sb, 'term'))]
        okp = len(firsts) == 1
        whyp = 'no comparison with SPDP_BUILTIN_PARTICIPANT_WRITER in front of the send'
        if okp:
            fb = firsts[0]
            # where control goes when the notification is skipped: the successor of the first test from which the send is unreachable
            nxt = hw.blocks[fb]['term'].get('target')
            outs = [t2 for s2, t2, c2, l2 in switch_edges(hw, fx, ogp) if s2 == nxt and not P.can_reach((t2, 0), (sb, 'term')) and (t2, 0) != P.norm((sb, 'term'))]
            if len(outs) != 1:
                okp = False
                whyp = 'shape of the test'
            else:
                T = boolform.table(hw, fx, lv_namer, None, start=fb, stop_blocks={sb: 'sent', outs[0]: 'skipped'})
                import itertools
                bad = []
                for vals in itertools.product((False, True), repeat=len(T.atoms)):
                    assign = dict(zip(T.atoms, vals))
                    tr = {k.split(':')[1]: (v if k.startswith('eq') else not v) for k, v in assign.items()}
                    want = 'sent' if tr.get('writer') and tr.get('reader') else 'skipped'
                    got = T.eval(assign)
                    if got != want:
                        bad.append('writer is SPDP=%s reader is SPDP=%s -> %s' % (tr.get('writer'), tr.get('reader'), got))
                if bad or len(T.atoms) != 2:
                    okp = False
                    whyp = '; '.join(bad[:2]) or 'tests found: %s' % T.atoms
        rep.check(okp, 'R12.2', 'handle_writer_submessage/liveness-iff-spdp', 'sent <=> writer is the SPDP writer AND reader is the SPDP reader (4 assignments)',
                  'the liveness notification is not sent exactly for SPDP DATA (%s): a participant whose repeated announcements are dropped as duplicates is no longer kept alive, '
                  'or any DATA counts as a life sign of the participant' % whyp, hw.where(sb))
    # receiver side: drained until empty
    ev = fx.find('discovery::discovery::Discovery::discovery_event_loop')
    rep.analysed(ev)
    og = Origins(ev, summaries=True)
    P = Pos(ev)
    sw, arm = token_arm(fx, ev, 'SPDP_LIVENESS_TOKEN')
    recvs = [bb for bb, t in ev.calls() if callee_res(t).endswith('try_recv') and has_field(og.of_operand(t['args'][0], bb, 'term'), 'spdp_liveness_receiver')]
    recvs = [bb for bb in recvs if P.can_reach((arm, 0), (bb, 'term'), avoid_pos=[(sw, 'term')]) or (arm, 0) == P.norm((bb, 'term'))]
    rep.check(len(recvs) >= 1, 'R12.2', 'discovery_event_loop/liveness-arm', 'SPDP_LIVENESS_TOKEN arm reads spdp_liveness_receiver',
              'the SPDP_LIVENESS_TOKEN arm does not read the liveness channel', ev.where(arm))
    loops = natural_loops(ev)
    for rb in recvs:
        inner = None
        for h, blocks, _src in loops:
            if rb in blocks and (inner is None or len(blocks) < len(inner)):
                inner = blocks
        ok_edges = [(sbb, tg) for sbb, tg, cond, lab in switch_edges(ev, fx, og)
                    if lab == 'Ok' and term_has(cond, lambda x: x[0] == 'call' and len(x) > 3 and x[3] == rb)]
        ok = inner is not None and bool(ok_edges)
        if ok:
            exits = [(b_, s_) for b_ in inner for s_ in ev.succs(b_) if s_ not in inner]
            for _s, tg in ok_edges:
                for eb, es in exits:
                    # leaving the innermost loop after an Ok without asking again
                    if P.can_reach((tg, 0), (eb, 'term'), avoid_pos=[(rb, 'term')]) or tg == eb:
                        # the exit edge must be taken from eb: only a violation if eb is reachable without passing try_recv
                        ok = False
            # and the drained value reaches participant_is_alive
            alive = [(bb, t) for bb, t in ev.calls() if call_matches(t, 'DiscoveryDB::participant_is_alive')]
            fed = any(term_has(og.of_operand(t['args'][1], bb, 'term'), lambda x: x[0] == 'call' and len(x) > 3 and x[3] == rb) for bb, t in alive)
            ok = ok and fed
        rep.check(ok, 'R12.2', 'discovery_event_loop/liveness-drain', 'loop: try_recv until Err, each value to participant_is_alive',
                  'the SPDP liveness channel (edge-triggered, capacity 8) is not drained until empty: after one Ok the handler can leave without asking again, '
                  'so the channel stops signalling and later life signs are lost', ev.where(rb))

    # ------------------------------------------------------------------ R12.3
    pd = fx.find('discovery::discovery::Discovery::process_participant_dispose')
    rep.analysed(pd)
    rmv = [(bb, t) for bb, t in pd.calls() if call_matches(t, 'DiscoveryDB::remove_participant')]
    ok = bool(rmv) and all(t['args'][2].get('o') == 'const' and t['args'][2]['k'].get('v') == 1 for _, t in rmv)
    ogd = Origins(pd)
    ok = ok and all(ogd.of_operand(t['args'][1], bb, 'term') == ('param', 2) for bb, t in rmv)
    Pd = Pos(pd)
    ok = ok and all(Pd.every_path_passes(None, (r, 'term'), via_pos=[(bb, 'term') for bb, _ in rmv], from_entry=True) for r in pd.return_blocks())
    rep.check(ok, 'R12.3', 'process_participant_dispose/remove(true)', 'remove_participant(prefix, true) on every path',
              'an SPDP dispose does not remove the participant immediately with remove_participant(prefix, true)', pd.where())
    hp = fx.find('discovery::discovery::Discovery::handle_participant_reader')
    rep.analysed(hp)
    ogh = Origins(hp)
    Ph = Pos(hp)
    disp_edges = [(sbb, tg) for sbb, tg, cond, lab in primary_edges(hp, list(switch_edges(hp, fx, ogh))) if lab == 'Dispose']
    calls = [(bb, 'term') for bb, t in hp.calls() if call_matches(t, 'Discovery::process_participant_dispose')]
    ok = bool(disp_edges) and bool(calls)
    for _s, tg in disp_edges:
        # from the Dispose arm, the next take_next_sample / return is not reachable without the dispose handler
        for bb, t in hp.calls():
            if call_matches(t, 'take_next_sample') and Ph.can_reach((tg, 0), (bb, 'term'), avoid_pos=calls):
                ok = False
    rep.check(ok, 'R12.3', 'handle_participant_reader/dispose-arm', 'Sample::Dispose => process_participant_dispose',
              'a disposed participant sample does not always reach process_participant_dispose', hp.where())
    rp = fx.find('discovery::discovery_db::DiscoveryDB::remove_participant')
    rep.analysed(rp)
    ogr = Origins(rp)
    Pr = Pos(rp)
    t_edges = [(s_, tg) for s_, tg, cond, lab in switch_edges(rp, fx, ogr) if cond == ('param', 3) and lab is True]
    f_edges = [(s_, tg) for s_, tg, cond, lab in switch_edges(rp, fx, ogr) if cond == ('param', 3) and lab is False]
    dels = [(bb, 'term') for bb, t in rp.calls() if call_matches(t, 'remove_topic_reader_with_prefix', 'remove_topic_writer_with_prefix')]
    moves = []
    for bb, t in rp.calls():
        if call_matches(t, 'move_by_guid_prefix'):
            src = ogr.of_operand(t['args'][1], bb, 'term')
            dst = ogr.of_operand(t['args'][2], bb, 'term')
            moves.append((bb, src, dst))
    ok = bool(t_edges) and bool(f_edges) and len(dels) == 2 and len(moves) == 2
    if ok:
        ok = all(Pr.every_path_passes(None, d, via_edges=t_edges, from_entry=True) for d in dels)
        ok = ok and all(Pr.every_path_passes(None, (bb, 'term'), via_edges=f_edges, from_entry=True) for bb, _s, _d in moves)
        want = {('external_topic_readers', 'external_topic_readers_attic'), ('external_topic_writers', 'external_topic_writers_attic')}
        got = set()
        for bb, src, dst in moves:
            if src[0] == 'field' and dst[0] == 'field':
                got.add((src[1], dst[1]))
        ok = ok and got == want
        # every path through the true edge deletes both; every path through the false edge moves both
        for _s, tg in t_edges:
            for d in dels:
                for r in rp.return_blocks():
                    if Pr.can_reach((tg, 0), (r, 'term'), avoid_pos=[d]):
                        ok = False
        for _s, tg in f_edges:
            for bb, _a, _b in moves:
                for r in rp.return_blocks():
                    if Pr.can_reach((tg, 0), (r, 'term'), avoid_pos=[(bb, 'term')]):
                        ok = False
    rep.check(ok, 'R12.3', 'remove_participant/polarity', 'active disposal deletes endpoints, timeout moves readers+writers to the attic',
              'remove_participant: endpoint handling does not match (true => delete, false => move external_topic_* to *_attic)', rp.where())
    rmp = [(bb, 'term') for bb, t in rp.calls() if callee_res(t).endswith('::remove') and
           (has_field(ogr.of_operand(t['args'][0], bb, 'term'), 'participant_proxies'))]
    ok = bool(rmp) and all(Pr.every_path_passes(None, (r, 'term'), via_pos=rmp, from_entry=True) for r in rp.return_blocks())
    rep.check(ok, 'R12.3', 'remove_participant/removes-proxy', 'participant proxy removed on every path', 'remove_participant does not always remove the participant proxy', rp.where())
    # restore from attic
    ogu = Origins(up, summaries=True)
    Pu = Pos(up)
    unknown = [(s_, tg) for s_, tg, cond, lab in switch_edges(up, fx, ogu)
               if cond[0] == 'call' and cond[1].endswith('contains_key') and has_field(cond, 'participant_proxies') and lab is False]
    unknown += [(s_, tg) for s_, tg, cond, lab in switch_edges(up, fx, ogu)
                if cond[0] == 'un' and cond[1] == 'Not' and has_field(cond, 'participant_proxies') and lab is True]
    restores = set()
    rcalls = []
    for bb, t in up.calls():
        if call_matches(t, 'move_by_guid_prefix'):
            src = ogu.of_operand(t['args'][1], bb, 'term')
            dst = ogu.of_operand(t['args'][2], bb, 'term')
            if src[0] == 'field' and dst[0] == 'field':
                restores.add((src[1], dst[1]))
            rcalls.append((bb, 'term'))
    ok = bool(unknown) and restores == {('external_topic_readers_attic', 'external_topic_readers'), ('external_topic_writers_attic', 'external_topic_writers')}
    if ok:
        for _s, tg in unknown:
            for rc in rcalls:
                for r in up.return_blocks():
                    if Pu.can_reach((tg, 0), (r, 'term'), avoid_pos=[rc]):
                        ok = False
    rep.check(ok, 'R12.3', 'update_participant/restore-from-attic', 'unknown participant => endpoints restored from the attic (readers and writers)',
              'a re-appearing participant does not get its endpoints restored from the attic on every path', up.where())

    # ------------------------------------------------------------------ R12.4
    sw, arm = token_arm(fx, ev, 'DISCOVERY_PARTICIPANT_CLEANUP_TOKEN')
    og = Origins(ev, summaries=True)
    cleans = [(bb, 'term') for bb, t in ev.calls() if call_matches(t, 'Discovery::participant_cleanup')]
    rearm = [(bb, 'term') for bb, t in ev.calls() if callee_res(t).endswith('set_timeout') and
             has_field(og.of_operand(t['args'][0], bb, 'term'), 'participant_cleanup_timer')]
    goals = [(sw, 'term')] + [(r, 'term') for r in ev.return_blocks()]
    ok1 = bool(cleans) and all(not P.can_reach((arm, 0), g, avoid_pos=cleans) for g in goals)
    ok2 = bool(rearm) and all(not P.can_reach((arm, 0), g, avoid_pos=rearm) for g in goals)
    rep.check(ok1, 'R12.4', 'discovery_event_loop/cleanup-arm/runs', 'participant_cleanup() on every path of the arm', 'the cleanup timer arm does not always run participant_cleanup()', ev.where(arm))
    rep.check(ok2, 'R12.4', 'discovery_event_loop/cleanup-arm/re-arms', 'timer re-armed on every path of the arm',
              'the cleanup timer arm can finish without re-arming participant_cleanup_timer: lease expiry would never be checked again', ev.where(arm))

    # ------------------------------------------------------------ R12.5 crossed roles (shared lint, rdv/swaplint.py)
    from rdv import swaplint
    swaplint.run_rule(rep, facts['default'], 'R12.5', ['discovery::discovery', 'discovery::discovery_db', 'discovery::spdp'])


    rule_12_6(rep, fx)
    rule_move_all(rep, fx, 'R12.7')
    rule_12_8(rep, fx)
    rule_rediscovery(rep, fx)


PER_PARTICIPANT_STORES = ('participant_proxies', 'participant_last_life_signs', 'external_topic_readers', 'external_topic_writers',
                          'external_topic_readers_attic', 'external_topic_writers_attic')
# operations that change at most the entry of one key, or hand out references without changing the key set
KEYED_OPS = ('BTreeMap::<K, V, A>::insert', 'BTreeMap::<K, V, A>::remove', 'BTreeMap::<K, V, A>::get_mut', 'BTreeMap::<K, V, A>::entry', 'BTreeMap::<K, V, A>::range_mut',
             'BTreeMap::<K, V, A>::values_mut', 'BTreeMap::<K, V, A>::iter_mut', 'BTreeMap::<K, V, A>::remove_entry')


def _mut_borrow_uses(b, local):
    """Calls that receive `local` (a &mut) directly or through re-borrows / moves; plus 'escape' if it is stored somewhere."""
    seen = {local}
    work = [local]
    uses = []
    while work:
        l = work.pop()
        for bb, si, st in b.statements():
            if st['s'] != 'assign':
                continue
            rv = st['rv']
            src = None
            if rv['r'] in ('ref', 'rawptr') and rv['pl']['l'] == l:
                src = l
            elif rv['r'] in ('use', 'cast') and rv['x'].get('o') in ('move', 'copy') and rv['x']['pl']['l'] == l:
                src = l
            if src is not None and not st['lhs'].get('p'):
                if st['lhs']['l'] not in seen:
                    seen.add(st['lhs']['l'])
                    work.append(st['lhs']['l'])
        for bb, t in b.calls():
            for i, a in enumerate(t['args']):
                if a.get('o') in ('move', 'copy') and a['pl']['l'] == l:
                    uses.append((bb, t, i))
    return uses


def rule_12_6(rep, fx):
    """The per-participant stores of DiscoveryDB (proxies, life signs, endpoints, attic) are shared by all remote participants: an operation on behalf of one participant
    must not touch the entries of another one."""
    rep.rule('R12.6', 'one participant at a time: every mutable access to participant_proxies, participant_last_life_signs, external_topic_readers/writers and their attics '
                      '(outside the constructor) is a single-key operation (insert / remove / get_mut / entry / range_mut) or move_by_guid_prefix (which moves exactly the keys of '
                      'range(prefix.range())); nothing clears, replaces, drains or filters a whole store, so handling one participant cannot lose what is remembered about another')
    n = 0
    for b in fx.bodies:
        if not b.key.startswith('discovery::discovery_db::') or b.name == 'new':
            continue
        for bb, si, st in b.statements():
            if st['s'] != 'assign':
                continue
            # whole-store replacement
            lp = [e.get('n') for e in (st['lhs'].get('p') or []) if isinstance(e, dict)]
            if lp and lp[-1] in PER_PARTICIPANT_STORES:
                n += 1
                rep.violation('R12.6', '%s/%s/replaced' % (b.key.split('discovery_db::')[-1], lp[-1]),
                              '%s assigns a whole new value to DiscoveryDB::%s: what was remembered about every other participant is lost' % (b.name, lp[-1]), b.where(bb, si))
            rv = st['rv']
            if not (rv['r'] in ('ref', 'rawptr') and rv.get('mut', rv['r'] == 'rawptr')):
                continue
            pr = [e.get('n') for e in (rv['pl'].get('p') or []) if isinstance(e, dict)]
            if not pr or pr[-1] not in PER_PARTICIPANT_STORES:
                continue
            store = pr[-1]
            uses = _mut_borrow_uses(b, st['lhs']['l'])
            if not uses:
                rep.violation('R12.6', '%s/%s/unfollowed' % (b.key.split('discovery_db::')[-1], store), 'mutable borrow of %s whose use could not be followed' % store, b.where(bb, si))
                continue
            for ubb, t, i in uses:
                cr = callee_res(t)
                n += 1
                ok = cr.endswith(KEYED_OPS) or cr.endswith('discovery_db::move_by_guid_prefix') or cr.endswith(('::deref_mut', '::deref', 'DerefMut::deref_mut'))
                rep.check(ok, 'R12.6', '%s/%s/%s' % (b.key.split('discovery_db::')[-1], store, cr.rsplit('::', 1)[-1]), 'keyed / one-participant operation',
                          '%s applies %s to the whole store DiscoveryDB::%s: not restricted to one key or one participant\'s key range, so the entries of other participants '
                          '(e.g. the endpoints of a timed-out participant waiting in the attic) are affected' % (b.name, cr.rsplit('::', 1)[-1], store), b.where(ubb))
    rep.floor('R12.6', n, 20, 'mutable uses of the per-participant stores')
    # move_by_guid_prefix moves exactly the keys of from.range(prefix.range())
    mv = fx.find('discovery::discovery_db::move_by_guid_prefix')
    rep.analysed(mv)
    ogm = Origins(mv, summaries=True)
    rem = [(bb, t) for bb, t in mv.calls() if callee_res(t).endswith('BTreeMap::<K, V, A>::remove')]
    rng = [(bb, t) for bb, t in mv.calls() if callee_res(t).endswith('BTreeMap::<K, V, A>::range')]
    okr = len(rem) == 1 and len(rng) == 1 and term_has(ogm.of_operand(rng[0][1]['args'][1], rng[0][0], 'term'), lambda x: x[0] == 'call' and x[1].endswith('GuidPrefix::range') and x[2][0] == ('param', 1)) \
        and ogm.of_operand(rng[0][1]['args'][0], rng[0][0], 'term') in (('param', 2), ('deref', ('param', 2))) \
        and not any(callee_res(t).endswith(('::clear', '::retain', '::split_off', '::append', '::pop_first', '::pop_last', 'mem::take', 'mem::replace', 'mem::swap')) for _bb, t in mv.calls())
    rep.check(okr, 'R12.6', 'move_by_guid_prefix/range', 'removes from `from` only keys of from.range(guid_prefix.range())',
              'move_by_guid_prefix no longer selects exactly the keys of from.range(guid_prefix.range())', mv.where())


ADAPTORS_OK = ('Iterator::map', 'Iterator::collect', 'IntoIterator::into_iter', 'Iterator::copied', 'Iterator::cloned', 'BTreeMap::<K, V, A>::keys', 'Iterator::next', 'Iterator::for_each')


def rule_move_all(rep, fx, rid):
    """move_by_guid_prefix is how the endpoints of a participant go to the attic and come back: it must move ALL of them (shared by C12 R12.7 and C11 R11.9)."""
    rep.rule(rid, 'move_by_guid_prefix moves every entry of the participant: the keys it works on are all keys of from.range(guid_prefix.range()) (the iterator chain between the range '
                  'and the loop contains no filtering, limiting or skipping adaptor), and each of them is removed from `from` and inserted into `to` under the same key; an entry left '
                  'behind is a stale second copy that is restored or parked later in place of the live one')
    mv = fx.find('discovery::discovery_db::move_by_guid_prefix')
    rep.analysed(mv)
    og = Origins(mv, transparent=False, summaries=False)
    bad = []
    for b in [mv]:
        for bb, t in b.calls():
            cr = callee_res(t)
            if (cr.startswith('std::iter::') or 'Iterator' in cr or 'iter::' in cr) and not cr.endswith(ADAPTORS_OK) and not any(cr.endswith(x.split('::')[-1]) and x.split('::')[-1] in ('map', 'collect', 'into_iter', 'copied', 'cloned', 'next', 'for_each') for x in ADAPTORS_OK):
                bad.append(cr.rsplit('::', 1)[-1])
    # the removed key and the inserted key are the iterated key
    rem = [(bb, t) for bb, t in mv.calls() if callee_res(t).endswith('BTreeMap::<K, V, A>::remove')]
    ok_rem = len(rem) == 1 and _plain12(og.of_operand(rem[0][1]['args'][0], rem[0][0], 'term')) == ('param', 2)
    ins_ok = False
    for c in fx.closures_of(mv):
        ogc = Origins(c, summaries=False)
        for bb, t in c.calls():
            if callee_res(t).endswith('BTreeMap::<K, V, A>::insert'):
                from rdv.core import resolve_captures
                m = resolve_captures(fx, c, ogc.of_operand(t['args'][0], bb, 'term'), summaries=False)
                k = resolve_captures(fx, c, ogc.of_operand(t['args'][1], bb, 'term'), summaries=False)
                v = ogc.of_operand(t['args'][2], bb, 'term')
                ins_ok = term_has(m, lambda x: x == ('param', 3)) and term_has(k, lambda x: x[0] == 'call' and x[1].endswith('::next')) and _plain12(v) == ('param', 2)
    rep.check(not bad and ok_rem and ins_ok, rid, 'move_by_guid_prefix/moves-all', 'all keys of the range; each removed from `from` and inserted into `to`',
              'move_by_guid_prefix does not move every entry of the participant (adaptors in the key chain: %s; removal from `from`: %s; insertion of the removed value into `to` under '
              'the iterated key: %s): an entry that is skipped stays behind as a stale copy' % (bad or 'none', ok_rem, ins_ok), mv.where())


def _plain12(t):
    while isinstance(t, tuple) and t and t[0] in ('ref', 'deref', 'copy', 'move') and len(t) > 1 and isinstance(t[1], tuple):
        t = t[1]
    return t


def rule_12_8(rep, fx):
    """The lease a participant is judged by is the one of its latest announcement: participant_cleanup reads it from the stored proxy, so the proxy must be replaced by
    every accepted announcement (not only by the first one)."""
    rep.rule('R12.8', 'latest announcement wins: every accepting path of update_participant stores the announced data into participant_proxies[guid.prefix] with an overwriting '
                      'insert(prefix, data.clone()) (not entry().or_insert*, not under "unknown participant" only), the key being the prefix of the announced GUID; '
                      'participant_cleanup takes the lease from that map (R12.1)')
    up = fx.find('discovery::discovery_db::DiscoveryDB::update_participant')
    rep.analysed(up)
    og = Origins(up, summaries=False)
    P = Pos(up)
    ins = []
    for bb, t in up.calls():
        cr = callee_res(t)
        if cr.endswith('BTreeMap::<K, V, A>::insert') and has_field(og.of_operand(t['args'][0], bb, 'term'), 'participant_proxies'):
            k = og.of_operand(t['args'][1], bb, 'term')
            v = og.of_operand(t['args'][2], bb, 'term')
            if term_has(k, lambda x: x[0] == 'field' and x[1] == 'prefix') and term_has(k, lambda x: x[0] == 'field' and x[1] == 'participant_guid') and term_has(v, lambda x: x == ('param', 2)):
                ins.append((bb, 'term'))
    weak = [callee_res(t).rsplit('::', 1)[-1] for bb, t in up.calls() if callee_res(t).rsplit('::', 1)[-1] in ('entry', 'or_insert', 'or_insert_with', 'or_default', 'try_insert') and
            (has_field(og.of_operand(t['args'][0], bb, 'term'), 'participant_proxies') or has_call(og.of_operand(t['args'][0], bb, 'term'), '::entry'))]
    # accepting returns: every return except the one behind the entity-id sanity check (returns false before anything is stored)
    lifes = [(bb, 'term') for bb, t in up.calls() if callee_res(t).endswith('BTreeMap::<K, V, A>::insert') and has_field(og.of_operand(t['args'][0], bb, 'term'), 'participant_last_life_signs')]
    ok = bool(ins) and not weak and bool(lifes)
    # the proxy is stored on exactly the paths on which the life sign is refreshed (the accepting ones)
    # (before or after it: the two inserts are independent)
    for l in lifes:
        before = P.every_path_passes(None, l, via_pos=ins, from_entry=True)
        after = not any(P.can_reach(l, (r, 'term'), avoid_pos=ins) for r in up.return_blocks())
        ok = ok and (before or after)
    rep.check(ok, 'R12.8', 'update_participant/stores-latest', 'participant_proxies.insert(guid.prefix, data.clone()) on every accepting path',
              'update_participant does not overwrite the stored proxy with the announced data on every accepting path (inserts: %d, non-overwriting forms: %s): the participant keeps '
              'being judged by the lease of an earlier announcement - dropped while alive after it lengthened its lease, kept after it shortened it' % (len(ins), weak), up.where())


def rule_rediscovery(rep, fx):
    """A participant whose lease ran out is remembered in the attic; when it comes back, Discovery has to treat it as new so that its endpoints are matched again."""
    from rdv import boolform
    import itertools
    rep.rule('R12.9', 'rediscovery is noticed and acted upon: for the participant GUID of another participant update_participant returns true exactly when its prefix is not in '
                      'participant_proxies (decision table over the tests on entity id, own GUID and contains_key; all assignments, the answers for a malformed GUID and for this '
                      'participant itself left open); on that answer Discovery reports '
                      'ParticipantDiscovered and replays the subscriptions and publications known for that prefix (handle_subscription_reader / handle_publication_reader(Some(prefix))) '
                      'on every path')
    up = fx.find('discovery::discovery_db::DiscoveryDB::update_participant')

    def namer(t, og, bb):
        cr = callee_res(t)
        last = cr.rsplit('::', 1)[-1]
        if last in ('eq', 'ne') and len(t['args']) == 2:
            txt = ' '.join(term_str(og.of_operand(x, bb, 'term')) for x in t['args'])
            if 'EntityId::PARTICIPANT' in txt and 'entity_id' in txt:
                return last + ':is_participant'
            if 'my_guid' in txt and 'participant_guid' in txt:
                return last + ':self'
        if last == 'contains_key' and has_field(og.of_operand(t['args'][0], bb, 'term'), 'participant_proxies'):
            return 'known'
        return None
    T = boolform.table(up, fx, namer, None, max_paths=20000)

    def truth(assign, name):
        for k, v in assign.items():
            if k == name:
                return v
            if ':' in k and k.split(':', 1)[1] == name:
                return v if k.startswith('eq') else (not v)
        return None
    names = {a.split(':')[-1] for a in T.atoms}
    bad = []
    if names != {'is_participant', 'self', 'known'}:
        bad.append('tests found: %s' % sorted(names))
    else:
        for vals in itertools.product((False, True), repeat=len(T.atoms)):
            assign = dict(zip(T.atoms, vals))
            isp, me, kn = truth(assign, 'is_participant'), truth(assign, 'self'), truth(assign, 'known')
            want = bool(isp and not kn and not me)
            got = T.eval(assign)
            if not isp or me:
                continue        # what is answered for a malformed GUID or for this participant itself does not matter to the lease mechanism
            if got != want:
                bad.append('participant GUID=%s known=%s self=%s -> %s' % (isp, kn, me, got))
    rep.check(not bad, 'R12.9', 'update_participant/was-new', 'another participant: true <=> prefix unknown (8 assignments, 6 left open)',
              'update_participant does not answer "previously unknown" exactly for a participant it did not have (%s): a participant that returns after its lease ran out is not '
              'matched again, or every announcement is taken for a new participant' % '; '.join(bad[:3]), up.where())
    # the caller
    d = None
    for b in fx.bodies:
        if b.key.startswith('discovery::discovery::Discovery::') and b.kind in ('fn', 'assoc_fn') and any(call_matches(t, 'DiscoveryDB::update_participant') for _, t in b.calls()):
            ogb = Origins(b, summaries=False)
            if any(cond[0] == 'call' and cond[1].endswith('update_participant') for s_, t_, cond, lab in switch_edges(b, fx, ogb)):
                d = b
    if d is None:
        rep.check(False, 'R12.9', 'Discovery/new-participant-replayed', 'the answer of update_participant is acted upon',
                  'no function of Discovery tests what update_participant answers for a received announcement: a returning participant is never matched again', up.where())
        return
    rep.analysed(d)
    og = Origins(d, summaries=False)
    P = Pos(d)
    edges = list(switch_edges(d, fx, og))
    new_e = [(s_, t_) for s_, t_, cond, lab in edges if lab is True and cond[0] == 'call' and cond[1].endswith('update_participant')]
    ok = len(new_e) == 1
    why = 'the answer of update_participant is not tested'
    if ok:
        for what in ('Discovery::handle_subscription_reader', 'Discovery::handle_publication_reader', 'Discovery::send_participant_status'):
            sites = []
            for bb, t in d.calls():
                if call_matches(t, what):
                    if what.endswith('send_participant_status'):
                        good = term_has(og.of_operand(t['args'][1], bb, 'term'), lambda x: x[0] == 'agg' and str(x[1]).endswith('ParticipantDiscovered'))
                    else:
                        a = og.of_operand(t['args'][1], bb, 'term')
                        good = a[0] == 'agg' and str(a[1]).endswith('Option::Some') and term_has(a, lambda x: x[0] == 'field' and x[1] == 'prefix') and term_has(a, lambda x: x[0] == 'field' and x[1] == 'participant_guid')
                    if good:
                        sites.append((bb, 'term'))
            if not sites or any(P.can_reach((new_e[0][1], 0), (r, 'term'), avoid_pos=sites) for r in d.return_blocks()):
                ok = False
                why = 'a path for a new participant skips %s' % what.rsplit('::', 1)[-1]
    rep.check(ok, 'R12.9', '%s/new-participant-replayed' % d.key.rsplit('::', 1)[-1], 'was new => ParticipantDiscovered reported, subscriptions and publications of that prefix replayed',
              'Discovery does not act on a new (or returning) participant on every path (%s): endpoints restored from the attic are never matched with the local ones' % why, d.where())


COARSE_CALLS = ('as_secs', 'as_millis', 'as_micros', 'subsec_nanos', 'subsec_micros', 'subsec_millis', 'as_secs_f32', 'as_secs_f64', 'from_secs', 'from_millis', 'from_micros',
                'seconds', 'from_secs_f32', 'from_secs_f64', 'trunc', 'floor', 'round', 'ceil')


def _subterms12(t):
    out = [t]
    if isinstance(t, tuple):
        for x in t[1:]:
            if isinstance(x, tuple):
                if x and isinstance(x[0], str):
                    out.extend(_subterms12(x))
                else:
                    for y in x:
                        if isinstance(y, tuple):
                            out.extend(_subterms12(y))
    return out
