"""C20  wait_for_acknowledgments says yes only when everything was acknowledged.

Role-pair comparison consistency (inclusive "last written" S vs exclusive "acked before" B),
reliable-only filter, prompt completion, reader loss reaches the waiter, register-before-send.
The asynchronous discipline is decided under C13 (R13.1) and re-checked here for the one future.
"""
from rdv.core import (CheckBroken, Origins, Pos, call_matches, callee_res, norm_path, resolve_captures, strip_generics, switch_edges,
                      term_has, term_leaves, term_str)

CONFIGS = ['default']
LEVEL = 'other'

S_FIELDS = {'last_seq', 'wait_until'}
B_FIELDS = {'all_acked_before'}
B_PARAMS = {'acked_before'}
OFFSET_CALLS = ('plus_1', 'add', 'sub', 'Add::add', 'Sub::sub')


def role(term, pnames):
    """'S', 'B' or None for an operand term."""
    if term_has(term, lambda x: (x[0] == 'call' and x[1].rsplit('::', 1)[-1] in ('plus_1', 'add', 'sub')) or x[0] == 'bin'):
        return None
    fields = set(x[1] for x in term_leaves(term) if x[0] == 'field')
    params = set(pnames.get(x[1]) for x in term_leaves(term) if x[0] == 'param')
    calls = set(x[1].rsplit('::', 1)[-1] for x in term_leaves(term) if x[0] == 'call')
    is_s = bool(fields & S_FIELDS) or 'last_change_sequence_number' in calls
    is_b = bool(fields & B_FIELDS) or bool(params & B_PARAMS) or (('base' in calls or 'bitmap_base' in fields) and 'reader_sn_state' in fields) or 'acked_up_to_before' in calls
    if is_s and not is_b:
        return 'S'
    if is_b and not is_s:
        return 'B'
    return None


NORMAL = {  # (method, role of arg0, role of arg1) -> relation written as S ? B
    ('lt', 'S', 'B'): '<', ('le', 'S', 'B'): '<=', ('gt', 'S', 'B'): '>', ('ge', 'S', 'B'): '>=',
    ('lt', 'B', 'S'): '>', ('le', 'B', 'S'): '>=', ('gt', 'B', 'S'): '<', ('ge', 'B', 'S'): '<=',
}


def run(rep, facts, tier):
    fx = facts['default']
    rep.explanation = ('Every comparison in rtps::writer between an inclusive "highest written" sequence number (S) and an exclusive '
                       '"acknowledged before" frontier (B) is normalised to S ? B and must be S < B ("acked") or S >= B ("pending"); '
                       'must-pass-through rules for the reliable-only filter, prompt completion and reader loss.')
    rep.assume('S roles: HistoryBuffer.last_seq, AckWaiter.wait_until (their own comments define them as inclusive); '
               'B roles: RtpsReaderProxy.all_acked_before, AckNack.reader_sn_state.base(), parameter acked_before (exclusive)',
               'the timeout value and "promptly" as durations are not decided')
    rep.rule('R20.1', 'role-pair consistency: every S-vs-B comparison in rtps::writer normalises to S < B (acked) or S >= B (pending)')
    rep.rule('R20.2', 'the pending set contains only proxies with qos().is_reliable(); an empty pending set signals completion at once; '
                      'AckWaiter.wait_until is the same last-written value the filter used')
    rep.rule('R20.3', 'reader_lost reaches update_ack_waiters(guid, None) on every path; handle_ack_nack reaches update_ack_waiters(guid, Some(base)) '
                      'before any exit of the ACKNACK arm; update_ack_waiters notifies and clears on completion; reader_acked_or_lost removes on None')
    rep.rule('R20.4', 'synchronous wait registers before sending (as R13.5); the async future has no bare Pending (as R13.1)')

    bodies = [b for b in fx.bodies if b.key.startswith('rtps::writer::')]
    n = 0
    for b in bodies:
        og = Origins(b, summaries=True)
        pnames = {d.get('arg'): d['name'] for d in b.j.get('dbg', []) if d.get('arg')}
        for bb, t in b.calls():
            d = strip_generics(t['f'].get('def') or '')
            m = d.rsplit('::', 1)[-1]
            if not d.startswith('std::cmp::PartialOrd::') or m not in ('lt', 'le', 'gt', 'ge') or len(t['args']) != 2:
                continue
            if 'SequenceNumber' not in (t['f'].get('self_ty') or ''):
                continue
            ta = resolve_captures(fx, b, og.of_operand(t['args'][0], bb, 'term'))
            tb = resolve_captures(fx, b, og.of_operand(t['args'][1], bb, 'term'))
            ra, rb = role(ta, pnames), role(tb, pnames)
            if not ra or not rb or ra == rb:
                continue
            n += 1
            rep.analysed(b)
            rel = NORMAL[(m, ra, rb)]
            ok = rel in ('<', '>=')
            rep.check(ok, 'R20.1', '%s/%s(%s,%s)' % (b.key, m, ra, rb), 'S %s B  [%s %s %s]' % (rel, term_str(ta), m, term_str(tb)),
                      'comparison %s %s %s reads as "last written %s acked-before": with an inclusive S and an exclusive B the acked test is S < B '
                      '(pending: S >= B); this site is off by one against its siblings' % (term_str(ta), m, term_str(tb), rel), b.where(bb))
    rep.floor('R20.1', n, 5, 'S-vs-B comparisons in rtps::writer')

    # ---- R20.2
    pw = fx.find('rtps::writer::Writer::process_writer_command')
    rep.analysed(pw)
    og = Origins(pw, summaries=True)
    P = Pos(pw)
    # the closure that builds the pending set: the one calling is_reliable
    cl = [c for c in fx.closures_of(pw) if any(call_matches(t, 'is_reliable') for _, t in c.calls())]
    if len(cl) != 1:
        raise CheckBroken('process_writer_command: expected one closure filtering on is_reliable(), found %d' % len(cl))
    c = cl[0]
    rep.analysed(c)
    cog = Origins(c, summaries=True)
    cP = Pos(c)
    rel_edges = [(sbb, tg) for sbb, tg, cond, lab in switch_edges(c, fx, cog)
                 if lab is True and term_has(cond, lambda x: x[0] == 'call' and x[1].endswith('is_reliable'))]
    somes = [(bb, si) for bb, si, st in c.statements() if st['s'] == 'assign' and st['rv']['r'] == 'agg' and st['rv'].get('variant') == 'Some']
    if not somes and c.locals[0] == 'bool':
        # a filter predicate: every definition of the result that is not the constant `false`
        for bb, si, st in c.statements():
            if st['s'] == 'assign' and st['lhs']['l'] == 0 and not st['lhs'].get('p'):
                x = st['rv'].get('x') or {}
                if st['rv']['r'] == 'use' and x.get('o') == 'const' and x['k'].get('v') == 0:
                    continue
                somes.append((bb, si))
        for bb, t in c.calls():
            if t['dest']['l'] == 0 and not t['dest'].get('p') and not call_matches(t, 'is_reliable'):
                somes.append((bb, 'term'))
    ok = bool(somes) and bool(rel_edges) and all(cP.every_path_passes(None, s_, via_edges=rel_edges, from_entry=True) for s_ in somes)
    rep.check(ok, 'R20.2', '%s/reliable-only' % c.key, 'selected only under is_reliable() == true',
              'a reader proxy can enter the pending set without qos().is_reliable() being true', c.where())
    # R20.8 (raised F29): with nothing written nobody is pending. The frontier of a fresh reader proxy and the last-written number of a fresh history are both constants;
    # if the former is not past the latter, "acked-before <= last written" holds for an untouched pair and the filter needs a conjunct that excludes the empty history
    rep.rule('R20.8', 'an empty history has nobody pending: either a fresh reader proxy starts with all_acked_before past the last_seq of a fresh HistoryBuffer (constants of the '
                      'constructors), or every selection of the pending filter lies behind "something was written" (last written >= 1 / not (last written < 1))')
    c_b = set()
    for b_ in fx.bodies:
        if b_.key.startswith('rtps::rtps_reader_proxy::RtpsReaderProxy::') and b_.kind in ('fn', 'assoc_fn'):
            ob = None
            for bb, si, st in b_.statements():
                if st['s'] == 'assign' and st['rv']['r'] == 'agg' and strip_generics(st['rv'].get('adt', '')).endswith('RtpsReaderProxy') and 'all_acked_before' in (st['rv'].get('fields') or []):
                    ob = ob or Origins(b_, summaries=False)
                    v = ob.of_operand(st['rv']['ops'][st['rv']['fields'].index('all_acked_before')], bb, si)
                    ks = [x for x in _leaf_consts(v)]
                    c_b.add(int(ks[0][2]) if len(ks) == 1 and str(ks[0][2]).lstrip('-').isdigit() else (0 if v[0] == 'call' and v[1].endswith('::zero') else None))
    hb = fx.find('rtps::writer::HistoryBuffer::new')
    oh = Origins(hb, summaries=False)
    c_s = None
    for bb, si, st in hb.statements():
        if st['s'] == 'assign' and st['rv']['r'] == 'agg' and 'last_seq' in (st['rv'].get('fields') or []):
            v = oh.of_operand(st['rv']['ops'][st['rv']['fields'].index('last_seq')], bb, si)
            ks = [x for x in _leaf_consts(v)]
            c_s = int(ks[0][2]) if len(ks) == 1 and str(ks[0][2]).lstrip('-').isdigit() else None
    fresh_acked = bool(c_b) and None not in c_b and c_s is not None and min(c_b) > c_s
    written = []
    for sbb, tg, cond, lab in switch_edges(c, fx, cog):
        cr = resolve_captures(fx, c, cond, summaries=True)
        neg, x = False, cr
        while (x[0] == 'un' and x[1] == 'Not') or x[0] == 'captured':
            if x[0] == 'captured':
                x = x[2]
            else:
                neg, x = not neg, x[2]
        if x[0] == 'call' and x[1].rsplit('::', 1)[-1] in ('lt', 'ge', 'gt', 'le') and len(x[2]) == 2:
            op = x[1].rsplit('::', 1)[-1]
            a, b2 = x[2]
            s_a = term_has(a, lambda y: y[0] == 'field' and y[1] == 'last_seq')
            one_b = [k for k in _leaf_consts(b2)] and all(str(k[2]) == '1' for k in _leaf_consts(b2)) and not term_has(b2, lambda y: y[0] in ('field', 'param'))
            zero_b = [k for k in _leaf_consts(b2)] and all(str(k[2]) == '0' for k in _leaf_consts(b2)) and not term_has(b2, lambda y: y[0] in ('field', 'param'))
            if s_a and ((op == 'lt' and one_b) or (op == 'le' and zero_b)):
                truth_written = False           # the comparison says "nothing written"
            elif s_a and ((op == 'ge' and one_b) or (op == 'gt' and zero_b)):
                truth_written = True
            else:
                continue
            if isinstance(lab, bool) and ((lab != neg) == truth_written):
                written.append((sbb, tg))
    guarded = bool(written) and bool(somes) and all(cP.every_path_passes(None, s_, via_edges=written, from_entry=True) for s_ in somes)
    rep.check(fresh_acked or guarded, 'R20.8', 'process_writer_command/empty-history-completes',
              'fresh proxy frontier %s vs fresh last_seq %s; selections behind "something was written": %s' % (sorted(c_b, key=str), c_s, guarded),
              'with nothing written (last_seq = %s) a fresh reliable reader proxy (all_acked_before = %s) satisfies "acked-before <= last written" and is put into the pending set: '
              'wait_for_acknowledgments waits for an acknowledgment of nothing instead of reporting success at once' % (c_s, sorted(c_b, key=str)), c.where())
    # is_reliable must be evaluated on the proxy the closure was given (the map value), not anything else
    # empty set => try_send on the completion channel
    def _emptiness(cond, lab):
        """True: this edge is taken when the collected pending set is empty, False: when it is not, None: not such a test (negations and `== false` read through)"""
        neg = False
        c = cond
        while True:
            if c[0] == 'un' and c[1] == 'Not':
                neg, c = not neg, c[2]
            elif c[0] == 'bin' and c[1] in ('Eq', 'Ne') and any(x[0] == 'const' and x[1] in ('bool', 'int') for x in c[2:4]):
                k = [x for x in c[2:4] if x[0] == 'const'][0]
                other = [x for x in c[2:4] if x is not k][0]
                kv = str(k[2]) in ('1', 'true', 'True')
                if (c[1] == 'Eq') != kv:
                    neg = not neg
                c = other
            else:
                break
        if c[0] == 'call' and c[1].endswith('is_empty') and term_has(c, lambda y: y[0] == 'call' and y[1].endswith('::collect')) and isinstance(lab, bool):
            return lab != neg
        return None
    all_edges_pw = list(switch_edges(pw, fx, og))
    empt = [(sbb, tg) for sbb, tg, cond, lab in all_edges_pw if _emptiness(cond, lab) is True]
    nonempt = [(sbb, tg) for sbb, tg, cond, lab in all_edges_pw if _emptiness(cond, lab) is False]
    sends = [(bb, 'term') for bb, t in pw.calls() if call_matches(t, 'StatusChannelSender::try_send')]
    aw_aggs = [(bb, si, st) for bb, si, st in pw.statements() if st['s'] == 'assign' and st['rv']['r'] == 'agg' and
               strip_generics(st['rv'].get('adt', '')).endswith('AckWaiter')]
    ok = bool(empt) and bool(sends)
    if ok:
        for sbb, tg in empt:
            # from the true edge, every path to the next loop iteration / return passes a try_send
            for goal in [(r, 'term') for r in pw.return_blocks()]:
                if P.can_reach((tg, 0), goal, avoid_pos=sends) and not any(P.norm(s_) == (tg, 0) for s_ in sends):
                    # allow reaching return only through the loop header again (next command) -- that also must pass a send
                    ok = False
    rep.check(ok, 'R20.2', 'process_writer_command/empty-completes', 'empty pending set => completion sent',
              'with an empty pending set the completion is not sent on every path (the waiter would time out / hang)', pw.where())
    # the other direction is the property itself: while a reader is pending, nothing is signalled and the waiter is kept
    okn = bool(nonempt) and bool(aw_aggs)
    for sbb, tg in nonempt:
        nextcmd = [(bb, 'term') for bb, t in pw.calls() if callee_res(t).endswith(('try_recv', '::recv', '::next'))]
        if not nextcmd or any(P.can_reach((tg, 0), s_, avoid_pos=nextcmd) for s_ in sends):
            okn = False         # a completion signal before the next command is fetched
        for goal in [(r, 'term') for r in pw.return_blocks()]:
            if P.can_reach((tg, 0), goal, avoid_pos=[(bb, si) for bb, si, st in aw_aggs]):
                okn = False
    rep.check(okn, 'R20.2', 'process_writer_command/pending-waits', 'non-empty pending set => no completion signal, an AckWaiter holding the set is stored',
              'with readers still pending the completion is signalled at once, or no AckWaiter is kept: wait_for_acknowledgments reports success without the acknowledgments '
              '(or never completes)', pw.where())
    ok = False
    for bb, si, st in aw_aggs:
        idx = st['rv']['fields'].index('wait_until')
        tw = og.of_operand(st['rv']['ops'][idx], bb, si)
        ok = term_has(tw, lambda x: x[0] == 'field' and x[1] == 'last_seq')
    rep.check(ok and bool(aw_aggs), 'R20.2', 'process_writer_command/wait_until', 'AckWaiter.wait_until = history_buffer.last_seq at command time',
              'AckWaiter.wait_until does not originate from the last written sequence number', pw.where())
    # the closure's captured wait_until is that same value
    cap_ok = False
    for bb, si, st in pw.statements():
        if st['s'] == 'assign' and st['rv']['r'] == 'agg' and st['rv'].get('kind') == 'closure' and norm_path(st['rv']['def']) == c.key:
            for fname, op in zip(st['rv'].get('fields') or [], st['rv']['ops']):
                if fname == 'wait_until':
                    cap_ok = term_has(og.of_operand(op, bb, si), lambda x: x[0] == 'field' and x[1] == 'last_seq')
    rep.check(cap_ok, 'R20.2', 'process_writer_command/filter-uses-wait_until', 'filter compares against the captured last-written value',
              'the pending filter does not use the last-written sequence number read before the filter', pw.where())

    # ---- R20.3
    rl = fx.find('rtps::writer::Writer::reader_lost')
    rep.analysed(rl)
    og = Origins(rl)
    P = Pos(rl)
    ups = []
    for bb, t in rl.calls():
        if call_matches(t, 'Writer::update_ack_waiters'):
            a1 = og.of_operand(t['args'][1], bb, 'term')
            a2 = og.of_operand(t['args'][2], bb, 'term')
            if a1 == ('param', 2) and a2[0] == 'agg' and a2[1].endswith('Option::None'):
                ups.append((bb, 'term'))
    ok = bool(ups) and all(P.every_path_passes(None, (r, 'term'), via_pos=ups, from_entry=True) for r in rl.return_blocks())
    rep.check(ok, 'R20.3', 'reader_lost/reaches-waiter', 'update_ack_waiters(guid, None) on every path',
              'a lost reader does not always reach update_ack_waiters(guid, None): a waiter pending on it never completes', rl.where())
    ha = fx.find('rtps::writer::Writer::handle_ack_nack')
    rep.analysed(ha)
    og = Origins(ha, summaries=True)
    P = Pos(ha)
    ups = []
    for bb, t in ha.calls():
        if call_matches(t, 'Writer::update_ack_waiters'):
            a2 = og.of_operand(t['args'][2], bb, 'term')
            if a2[0] == 'agg' and a2[1].endswith('Option::Some') and term_has(a2, lambda x: (x[0] == 'call' and x[1].endswith('::base')) or (x[0] == 'field' and x[1] == 'bitmap_base')):
                ups.append((bb, 'term'))
    an_edges = [(sbb, tg) for sbb, tg, cond, lab in switch_edges(ha, fx, og) if lab == 'AckNack']
    ok = bool(ups) and bool(an_edges)
    if ok:
        for sbb, tg in an_edges:
            for r in ha.return_blocks():
                if P.can_reach((tg, 0), (r, 'term'), avoid_pos=ups):
                    ok = False
            # and no lookup of the reader proxy before it
            for bb, t in ha.calls():
                if call_matches(t, 'lookup_reader_proxy_mut') and P.can_reach((tg, 0), (bb, 'term'), avoid_pos=ups):
                    ok = False
    rep.check(ok, 'R20.3', 'handle_ack_nack/reaches-waiter', 'update_ack_waiters(guid, Some(base)) before any exit or proxy lookup of the ACKNACK arm',
              'an ACKNACK can be handled without (or only after an early exit before) update_ack_waiters(guid, Some(base))', ha.where())
    ua = fx.find('rtps::writer::Writer::update_ack_waiters')
    rep.analysed(ua)
    og = Origins(ua)
    P = Pos(ua)
    comp_edges = [(sbb, tg) for sbb, tg, cond, lab in switch_edges(ua, fx, og) if lab is True]
    notif = [(bb, 'term') for bb, t in ua.calls() if any('notify_wait_complete' in str(a) for a in t['args']) or call_matches(t, 'AckWaiter::notify_wait_complete')]
    ok = bool(comp_edges) and bool(notif) and all(
        not P.can_reach((tg, 0), (r, 'term'), avoid_pos=notif) for sbb, tg in comp_edges for r in ua.return_blocks())
    cl_ok = any(call_matches(t, 'AckWaiter::reader_acked_or_lost') for cb in [ua] + fx.closures_of(ua) for _, t in cb.calls())
    rep.check(ok and cl_ok, 'R20.3', 'update_ack_waiters/notify-on-complete', 'completed => notify_wait_complete on every path',
              'when reader_acked_or_lost reports completion the waiter is not notified on every path', ua.where())
    ra = fx.find('rtps::writer::AckWaiter::reader_acked_or_lost')
    rep.analysed(ra)
    og = Origins(ra)
    P = Pos(ra)
    none_edges = [(sbb, tg) for sbb, tg, cond, lab in switch_edges(ra, fx, og) if lab == 'None' and cond[0] == 'discr' and cond[1] == ('param', 3)]
    removes = [(bb, 'term') for bb, t in ra.calls() if callee_res(t).endswith('::remove')]
    ok = bool(none_edges) and bool(removes) and all(
        not P.can_reach((tg, 0), (r, 'term'), avoid_pos=removes) for sbb, tg in none_edges for r in ra.return_blocks())
    rep.check(ok, 'R20.3', 'reader_acked_or_lost/lost-removes', 'None (reader lost) removes the reader from the pending set',
              'a lost reader (acked_before = None) is not removed from the pending set on every path', ra.where())
    t0 = og.of_local(0, ra.return_blocks()[0], 'term')
    def _is_pending(x):
        return term_has(x, lambda y: y[0] == 'field' and y[1] == 'readers_pending')
    res_ok = (t0[0] == 'call' and t0[1].endswith('is_empty') and _is_pending(t0)) or \
        (t0[0] == 'bin' and t0[1] == 'Eq' and any(a[0] == 'call' and a[1].endswith('::len') and _is_pending(a) for a in t0[2:4]) and
         any(a[0] == 'const' and str(a[2]) == '0' for a in t0[2:4]))
    rep.check(res_ok, 'R20.3', 'reader_acked_or_lost/result',
              'returns readers_pending.is_empty()', 'completion is not decided by the pending set being empty', ra.where())

    # ---- R20.4 (re-uses the C13 rules on the two C20 sites)
    from rules import C13
    wf = fx.find('dds::with_key::datawriter::DataWriter::wait_for_acknowledgments')
    P = Pos(wf)
    regs = [(bb, 'term') for bb, t in wf.calls() if call_matches(t, 'Poll::register')]
    sends = [bb for bb, t in wf.calls() if callee_res(t).endswith('try_send')]
    ok = bool(regs) and bool(sends) and all(P.every_path_passes(None, (sb, 'term'), via_pos=regs, from_entry=True) for sb in sends)
    rep.check(ok, 'R20.4', 'wait_for_acknowledgments/register-before-send', 'Poll::register precedes try_send',
              'the command can be sent before the completion channel is registered', wf.where())
    af = [b for b in fx.bodies if 'AsyncWaitForAcknowledgments' in b.key and b.name == 'poll' and b.impl_trait]
    if not af:
        raise CheckBroken('AsyncWaitForAcknowledgments::poll not found')
    pb = C13.PollBody(fx, af[0])
    rep.analysed(af[0])
    for k, site in enumerate(pb.pending_sites()):
        idiom, detail = pb.classify(site)
        rep.check(bool(idiom), 'R20.4', '%s/pending#%d' % (af[0].key, k), '%s: %s' % (idiom, detail),
                  'the async wait returns Pending with no wake-up arranged: %s' % detail, af[0].where(*site))
    # sync form: Ok(true) only after the completion token was received
    og = Origins(wf)
    P = Pos(wf)
    # find constructions of Ok(true)
    n_true = 0
    recv_ok = [(sbb, tg) for sbb, tg, cond, lab in switch_edges(wf, fx, og) if lab == 'Ok' and term_has(cond, lambda x: x[0] == 'call' and x[1].endswith('try_recv'))]
    notrel = [(sbb, tg) for sbb, tg, cond, lab in switch_edges(wf, fx, og)
              if cond[0] == 'discr' and term_has(cond, lambda x: x[0] == 'field' and x[1] == 'reliability') and lab in ('None', 'BestEffort')]
    n_other = 0
    for bb, si, st in wf.statements():
        if not (st['s'] == 'assign' and st['rv']['r'] == 'agg' and st['rv'].get('variant') == 'Ok' and st['rv']['ops'] and 'Result' in str(st['rv'].get('adt'))):
            continue
        op = st['rv']['ops'][0]
        v = og.of_operand(op, bb, si)
        if v[0] == 'const' and str(v[2]) in ('false', '0', 'False'):
            continue            # Ok(false): time-out, always allowed
        if v[0] == 'const':
            n_true += 1
            ok = P.every_path_passes(None, (bb, si), via_edges=recv_ok + notrel, from_entry=True)
            rep.check(ok, 'R20.4', 'wait_for_acknowledgments/ok-true#%d' % n_true, 'Ok(true) only after try_recv() == Ok(token), or for a non-reliable writer',
                      'the synchronous wait can report success without having received the completion token', wf.where(bb, si))
        else:
            # a computed bool: it may be true, so the same condition applies to it (e.g. `Ok(!events.is_empty())`: a dropped sender wakes the poll too)
            n_other += 1
            ok = P.every_path_passes(None, (bb, si), via_edges=recv_ok + notrel, from_entry=True)
            rep.check(ok, 'R20.4', 'wait_for_acknowledgments/ok-computed#%d' % n_other, 'a computed Ok(bool) only after try_recv() == Ok(token)',
                      'the synchronous wait returns Ok(%s): a value that can be true although the completion token was never received (any wake-up of the poll, '
                      'e.g. the Writer dropping the completion sender unanswered, then counts as "all acknowledged")' % term_str(v)[:80], wf.where(bb, si))
    rep.floor('R20.4', n_true, 2, 'Ok(true) results of wait_for_acknowledgments')

    # ------------------------------------------------------------ R20.5
    rule_20_5(rep, fx)
    rule_20_6(rep, fx)
    rule_20_9(rep, fx)
    # wait_until is taken from HistoryBuffer.last_seq: "highest written" must not go back (decided under C04; after seed C20g)
    from rdv import report as _report
    _report.borrow(rep, facts, tier, 'C04', {'R04.17': 'R20.10'})


def rule_20_5(rep, fx):
    """The async wait is a small state machine that swaps the placeholder `Done` into itself while it works. `Done` means "all acknowledged": it must never be what a
    pending future is left in."""
    rep.rule('R20.5', 'async wait state pairing: in AsyncWaitForAcknowledgments::poll, once the placeholder Done has been swapped into *self, every path that returns Poll::Pending first '
                      'stores a waiting state (not Done) back; otherwise the next poll reports Ok(true) although the command never reached the writer and nothing was acknowledged')
    bs = [x for x in fx.bodies if x.key.startswith('<dds::with_key::datawriter::AsyncWaitForAcknowledgments') and x.key.endswith('::poll')]
    if len(bs) != 1:
        raise CheckBroken('AsyncWaitForAcknowledgments::poll not found (%d)' % len(bs))
    b = bs[0]
    rep.analysed(b)
    P = Pos(b)
    og = Origins(b, summaries=False)
    ADT = 'dds::with_key::datawriter::AsyncWaitForAcknowledgments'
    swaps = [(bb, 'term') for bb, t in b.calls() if callee_res(t).endswith('mem::swap') and
             any(term_has(og.of_operand(a, bb, 'term'), lambda x: x[0] == 'agg' and str(x[1]).startswith(ADT) and str(x[1]).endswith('::Done')) for a in t['args'])]
    # stores of a non-Done state through the pinned self
    restores = []
    for bb, si, st in b.statements():
        if st['s'] == 'assign' and st['lhs'].get('p') == ['*']:
            v = og._rvalue(st['rv'], bb, si, 0)
            if v[0] == 'agg' and str(v[1]).startswith(ADT) and not str(v[1]).endswith('::Done'):
                restores.append((bb, si))
    pendings = [(bb, si) for bb, si, st in b.statements() if st['s'] == 'assign' and st['lhs']['l'] == 0 and not st['lhs'].get('p') and st['rv']['r'] == 'agg'
                and st['rv'].get('variant') == 'Pending']
    ok = bool(swaps) and bool(restores) and bool(pendings)
    n = 0
    for sw in swaps:
        for pd in pendings:
            if P.can_reach(sw, pd):
                n += 1
                if P.can_reach(sw, pd, avoid_pos=restores):
                    ok = False
    rep.check(ok and n >= 1, 'R20.5', 'AsyncWaitForAcknowledgments::poll/state-restored-before-pending', '%d swap -> Pending path group(s), each stores a waiting state back' % n,
              'AsyncWaitForAcknowledgments::poll can return Pending with the placeholder state Done left in the future: the next poll completes with Ok(true) without any acknowledgment', b.where())


def rule_20_6(rep, fx):
    """What the asynchronous wait reports when it completes."""
    rep.rule('R20.6', 'async result table: AsyncWaitForAcknowledgments::poll reports Ready(Ok(true)) only in state Done (the Writer had nothing to wait for) or on the completion token '
                      '(inner stream Ready(Some(()))), and these two report exactly that; the ended stream (Ready(None): the Writer dropped the completion sender unanswered) reports '
                      'Ok(false), never success')
    bs = [x for x in fx.bodies if x.key.startswith('<dds::with_key::datawriter::AsyncWaitForAcknowledgments') and x.key.endswith('::poll')]
    if len(bs) != 1:
        raise CheckBroken('AsyncWaitForAcknowledgments::poll not found (%d)' % len(bs))
    b = bs[0]
    rep.analysed(b)
    og = Origins(b, summaries=False)
    P = Pos(b)
    edges = list(switch_edges(b, fx, og))
    done = [(s_, t_) for s_, t_, cond, lab in edges if lab == 'Done' and cond[0] == 'discr']
    token = [(s_, t_) for s_, t_, cond, lab in edges if lab == 'Some' and cond[0] == 'discr' and term_has(cond, lambda x: x[0] == 'call' and x[1].endswith('poll_next'))]
    ended = [(s_, t_) for s_, t_, cond, lab in edges if lab == 'None' and cond[0] == 'discr' and term_has(cond, lambda x: x[0] == 'call' and x[1].endswith('poll_next'))]
    oks = []
    for bb, si, st in b.statements():
        if st['s'] == 'assign' and st['rv']['r'] == 'agg' and st['rv'].get('variant') == 'Ok' and st['rv']['ops'] and 'Result' in str(st['rv'].get('adt')):
            v = og.of_operand(st['rv']['ops'][0], bb, si)
            oks.append((bb, si, v))
    trues = [(bb, si) for bb, si, v in oks if v[0] == 'const' and str(v[2]) in ('1', 'true', 'True')]
    falses = [(bb, si) for bb, si, v in oks if v[0] == 'const' and str(v[2]) in ('0', 'false', 'False')]
    other = [(bb, si) for bb, si, v in oks if v[0] != 'const']
    ok = bool(done) and bool(token) and bool(ended) and not other and len(trues) >= 2
    for o in trues:
        ok = ok and P.every_path_passes(None, o, via_edges=done + token, from_entry=True)
        ok = ok and not any(P.can_reach((t_, 0), o) for _s, t_ in ended)
    # Done and the token lead to Ok(true), the ended stream to Ok(false), without passing another result
    for es, goals, what in ((done, trues, 'Done'), (token, trues, 'token'), (ended, falses, 'ended stream')):
        for s_, t_ in es:
            others = [x for x in trues + falses if x not in goals]
            if not any(P.can_reach((t_, 0), g, avoid_pos=others) or P.norm((t_, 0))[0] == g[0] for g in goals):
                ok = False
            if any(P.can_reach((t_, 0), x, avoid_pos=goals) for x in others) and what != 'Done':
                ok = False
    rep.check(ok, 'R20.6', 'AsyncWaitForAcknowledgments::poll/result-table', 'Done | token => Ok(true); ended stream => Ok(false)',
              'the asynchronous wait does not report Ok(true) exactly for state Done and for the completion token, and Ok(false) for an ended completion stream '
              '(Ok(true) sites: %d, Ok(false) sites: %d, computed: %d): success is reported without the acknowledgments, or completion is reported as failure' % (len(trues), len(falses), len(other)), b.where())

    # ------------------------------------------------------------ R20.7 the acknowledgment has to be asked for (shared with C02 R02.14)
    from rules.C02 import rule_heartbeat_solicits
    rule_heartbeat_solicits(rep, fx, 'R20.7')


def _leaf_consts(t):
    out = []

    def rec(x):
        if isinstance(x, tuple):
            if x and x[0] == 'const':
                out.append(x)
                return
            for y in x:
                rec(y)
    rec(t)
    return out


def rule_20_9(rep, fx):
    """The waiter's own step: who is taken off the pending set, and what it answers (added after mutation round 4: the removal in the reader-lost arm could be deleted unnoticed)."""
    rep.rule('R20.9', 'AckWaiter::reader_acked_or_lost takes the reader off readers_pending on every path of the reader-lost arm (None) and of the acknowledged arm (Some(b) with '
                      'wait_until < b), nowhere else, and answers readers_pending.is_empty() evaluated after that removal')
    b = fx.find('rtps::writer::AckWaiter::reader_acked_or_lost')
    rep.analysed(b)
    og = Origins(b, summaries=True)
    P = Pos(b)
    edges = list(switch_edges(b, fx, og))
    none_e = [(s_, t_) for s_, t_, c, lab in edges if lab == 'None' and c[0] == 'discr' and c[1] == ('param', 3)]
    acked_e = []
    for s_, t_, c, lab in edges:
        if c[0] == 'call' and c[1].rsplit('::', 1)[-1] in ('lt', 'gt', 'le', 'ge') and term_has(c, lambda x: x[0] == 'field' and x[1] == 'wait_until') and term_has(c, lambda x: x == ('param', 3)):
            m = c[1].rsplit('::', 1)[-1]
            first_is_s = term_has(c[2][0], lambda x: x[0] == 'field' and x[1] == 'wait_until')
            # S < B, written either way round (the inclusive/exclusive direction itself is R20.1)
            strict_true = (m == 'lt' and first_is_s) or (m == 'gt' and not first_is_s)
            nonstrict_false = (m == 'ge' and first_is_s) or (m == 'le' and not first_is_s)
            if (strict_true and lab is True) or (nonstrict_false and lab is False):
                acked_e.append((s_, t_))
    removes = [(bb, 'term') for bb, t in b.calls() if callee_res(t).endswith('::remove') and
               term_has(og.of_operand(t['args'][0], bb, 'term'), lambda x: x[0] == 'field' and x[1] == 'readers_pending') and
               term_has(og.of_operand(t['args'][1], bb, 'term'), lambda x: x == ('param', 2))]
    if not none_e or not acked_e:
        raise CheckBroken('R20.9: arms of AckWaiter::reader_acked_or_lost not found (None %d, acknowledged %d)' % (len(none_e), len(acked_e)))
    rets = [(r, 'term') for r in b.return_blocks()]
    for name, es, why in (('reader-lost', none_e, 'a reader that was lost (unmatched, or its participant timed out) stays pending: the wait cannot complete before its timeout, and the '
                                                    'asynchronous wait never completes'),
                          ('acknowledged', acked_e, 'a reader that has acknowledged everything waited for stays pending: the wait never completes')):
        ok = bool(removes)
        for s_, t_ in es:
            for r in rets:
                if not P.every_path_passes((t_, 0), r, via_pos=removes) and (t_, 'term') not in removes:
                    ok = False
        rep.check(ok, 'R20.9', 'reader_acked_or_lost/%s-removed' % name, '%s arm => readers_pending.remove(guid) on every path' % name,
                  'AckWaiter::reader_acked_or_lost: in the %s arm a path returns without taking the reader off readers_pending: %s' % (name, why), b.where())
    ok = all(P.every_path_passes(None, rp, via_edges=none_e + acked_e, from_entry=True) for rp in removes)
    rep.check(ok, 'R20.9', 'reader_acked_or_lost/removed-only-then', 'remove only under None or wait_until < acked_before',
              'AckWaiter::reader_acked_or_lost takes a reader off the pending set although it is neither lost nor has acknowledged everything waited for: wait_for_acknowledgments '
              'can say yes while a reader is behind', b.where())
    # the form of the answer (is_empty / len() == 0, not negated) is R20.3; here: the set is queried after the removal
    ie = [(bb, 'term') for bb, t in b.calls() if callee_res(t).rsplit('::', 1)[-1] in ('is_empty', 'len') and
          term_has(og.of_operand(t['args'][0], bb, 'term'), lambda x: x[0] == 'field' and x[1] == 'readers_pending')]
    ok = bool(ie)
    for r in b.return_blocks():
        v = og.of_local(0, r, 'term')
        ok = ok and term_has(v, lambda x: x[0] == 'call' and x[1].rsplit('::', 1)[-1] in ('is_empty', 'len') and term_has(x, lambda y: y[0] == 'field' and y[1] == 'readers_pending'))
    for rp in removes:
        for r in rets:
            if not P.every_path_passes(rp, r, via_pos=ie):
                ok = False
    rep.check(ok, 'R20.9', 'reader_acked_or_lost/answer', 'the answer is computed from readers_pending as it is after the removal',
              'AckWaiter::reader_acked_or_lost does not answer with the emptiness of the pending set as it is after this step: completion is reported late, never, or too early', b.where())
