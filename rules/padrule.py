"""Pad discipline of the hand-written CDR codecs that align by hand (read_pad / write_pad helpers).

speedy does not align; the codecs of multi-string parameter values (ContentFilterProperty, the security Property /
BinaryProperty / Tag / DataHolder and the qos Property / DataTag sequences) insert the CDR alignment themselves:
before every 4-aligned item that follows a variable-length item they call `read_pad(r, L, 4)` / `write_pad(w, L, 4)`
with L = the length of the item just read / written. A wrong L shifts every later field; reader and writer then
disagree from the third element on, which no fixed two-element test vector shows.

Rule, per codec function, decided on every CFG path between two stream operations (store-aware path evaluation,
loops crossed through their back edge):
  (a) every pad call P: for each stream operation Q that can immediately precede it,
        Q reads / writes a variable-length value X  =>  L is len(X) / serialized_len(X) of that very X
        Q is a 4-byte primitive (read_u32 / write_u32) or the function entry  =>  L is the constant 0
      and the alignment argument is the constant 4;
  (b) no path from a variable-length value operation to the next stream operation avoids a pad call.
"""
from rdv.core import CheckBroken, callee_res, strip_generics
from rdv.sympath import SymPath, term_find

LEN_FNS = ('len', 'serialized_len')


def classify(t):
    r = strip_generics(callee_res(t))
    d = strip_generics(t['f'].get('def') or '')
    last = r.rsplit('::', 1)[-1]
    if last in ('read_pad', 'write_pad') and 'speedy_pl_cdr_helpers' in r:
        return 'pad'
    if d.startswith('speedy::Reader::') or d.startswith('speedy::Writer::') or r.startswith('speedy::Reader::') or r.startswith('speedy::Writer::'):
        if last in ('read_value', 'write_value'):
            return 'val'
        if last in ('read_u32', 'write_u32', 'read_i32', 'write_i32', 'read_f32', 'write_f32'):
            return 'fix4'
        if last in ('endianness', 'context', 'context_mut', 'can_read_at_least', 'peek_u8', 'peek_u16', 'peek_u32'):
            return None
        return 'other'
    return None


def obj(t):
    """The object a (shared) reference argument designates: its snapshot value, else the pointer term itself."""
    if t[0] == 'ref' and len(t) > 3:
        return t[3]
    return t


def derives_from_call(t, name_suffix, bb):
    return bool(term_find(t, lambda x: x[0] == 'call' and len(x) > 3 and x[3] == bb and x[1].endswith(name_suffix)))


def codec_bodies(fx):
    out = []
    for b in fx.bodies:
        if any(classify(t) == 'pad' for _bb, t in b.calls()):
            out.append(b)
    return out


def run_rule(rep, fx, rid, cfg):
    pre = '' if cfg == 'default' else cfg + ':'
    bodies = codec_bodies(fx)
    n_pads = 0
    for b in bodies:
        rep.analysed(b)
        sp = SymPath(b, fx, max_paths=20000)
        ops = {}
        for bb, t in b.calls():
            k = classify(t)
            if k:
                ops[bb] = k
        short = b.key
        pads = sorted(bb for bb, k in ops.items() if k == 'pad')
        for pi, P in enumerate(pads):
            n_pads += 1
            tP = b.blocks[P]['term']
            bad = []
            n_paths = 0
            preds = [q for q in ops if q != P and ops[q] != 'pad']
            starts = [(q, ops[q]) for q in preds]
            if 0 not in ops:
                starts.append((0, 'entry'))
            for Q, kind in starts:
                avoid = set(ops) - {Q, P}
                for path in sp.paths(Q, P, through_heads=True, avoid=avoid):
                    n_paths += 1
                    st = sp.run(path, 'term')
                    L = sp.operand(st, tP['args'][1])
                    A = sp.operand(st, tP['args'][2])
                    if A != ('c', 4):
                        bad.append('alignment argument is not 4')
                    if kind in ('fix4', 'entry'):
                        if L != ('c', 0):
                            bad.append('after %s the stream is aligned, but the pad length is %s' % ('the function entry' if kind == 'entry' else 'a 4-byte primitive (bb%d)' % Q, str(L)[:80]))
                        continue
                    if kind == 'other':
                        bad.append('preceded by a stream operation of unknown size (bb%d)' % Q)
                        continue
                    tQ = b.blocks[Q]['term']
                    qname = strip_generics(callee_res(tQ)).rsplit('::', 1)[-1]
                    if not (L[0] == 'call' and L[1].rsplit('::', 1)[-1] in LEN_FNS and len(L[2]) == 1):
                        bad.append('pad length after %s (bb%d) is not the length of the value just %s: %s' % (qname, Q, 'read' if qname.startswith('read') else 'written', str(L)[:100]))
                        continue
                    o = obj(L[2][0])
                    if qname.startswith('read'):
                        good = derives_from_call(o, qname, Q)
                    else:
                        # re-evaluate Q's own argument at Q (state at the start of the path = at Q's block)
                        stq = sp.run(path[:1], 'term')
                        qa = sp.operand(stq, tQ['args'][1])
                        if qa[0] == 'ref' and len(qa) == 3:
                            qa = ('ref', qa[1], qa[2], sp.read_key(stq, qa[1]))
                        good = obj(qa) == o or (qa[0] == 'ref' and L[2][0][0] == 'ref' and qa[1] == L[2][0][1])
                    if not good:
                        bad.append('pad length after %s (bb%d) is the length of another value than the one just %s' % (qname, Q, 'read' if qname.startswith('read') else 'written'))
            rep.check(not bad and n_paths > 0, rid, '%s%s/pad#%d' % (pre, short, pi + 1), '%d path(s) from the preceding stream operation(s): L = length of the value just processed (or 0 when aligned)' % n_paths,
                      '%s: %s' % (short, '; '.join(sorted(set(bad))[:3]) or 'no path reaches this pad call'), b.where(P))
        # (b) a variable-length value is never followed by another stream operation without a pad in between
        missing = []
        for Q, kind in ops.items():
            if kind != 'val':
                continue
            for N, k2 in ops.items():
                if k2 == 'pad' or (N == Q and Q not in sp.heads and not any(Q in blocks for _h, blocks, _b in [])):
                    if k2 == 'pad':
                        continue
                avoid = set(ops) - {Q, N}
                if N == Q:
                    # a cycle Q -> Q without a pad (loop over values)
                    cyc = [p_ for s_ in b.succs(Q) if s_ not in avoid and not b.is_cleanup(s_) for p_ in ([()] if s_ == Q else sp.paths(s_, Q, through_heads=True, avoid=avoid))]
                    if cyc:
                        missing.append((Q, N))
                    continue
                if sp.paths(Q, N, through_heads=True, avoid=avoid):
                    missing.append((Q, N))
        rep.check(not missing, rid, '%s%s/pad-present' % (pre, short), 'every variable-length value is followed by a pad before the next stream operation',
                  '%s: a variable-length value (bb%s) can be followed by the next stream operation (bb%s) without alignment padding in between' % (
                      short, missing[0][0] if missing else '', missing[0][1] if missing else ''), b.where())
    return len(bodies), n_pads
