"""C15  Discovery data and QoS survive the wire and tolerate unknown parameters.

Table agreement: for every PL-CDR type the (ParameterId, wire type, multiplicity) table the
serializer emits equals the table the deserializer consumes; emission depends only on the
presence / variant of the field (never on its value); defaults of absent optionals; unknown
parameters cannot fail the parse. Byte-level CDR of each parameter value is not decided.
"""
from rdv import pltables
from rdv.core import (CheckBroken, Origins, Pos, call_matches, callee_res, natural_loops, norm_path, primary_edges,
                      strip_generics, switch_edges, term_has, term_leaves, term_str)

CONFIGS = ['default', 'security']
LEVEL = 'other'

TYPES = [
    ('SpdpDiscoveredParticipantData', 'discovery::spdp_participant_data::SpdpDiscoveredParticipantData'),
    ('DiscoveredReaderData', 'discovery::sedp_messages::DiscoveredReaderData'),
    ('DiscoveredWriterData', 'discovery::sedp_messages::DiscoveredWriterData'),
    ('DiscoveredTopicData', 'discovery::sedp_messages::DiscoveredTopicData'),
    ('QosPolicies', 'dds::qos::QosPolicies'),
]
# RTPS 2.5 table 9.14 defaults of parameters this implementation reads as optional
DEFAULTS = {'PID_EXPECTS_INLINE_QOS': 0, 'PID_PARTICIPANT_MANUAL_LIVELINESS_COUNT': 0}
# asymmetries that are intended, each with its reason (discovered on the pinned tree and confirmed by reading)
ALLOWED_WRITE_ONLY = {
}
ALLOWED_READ_ONLY = {
}


def bodies_named(fx, ty, names):
    out = []
    for b in fx.bodies:
        if b.kind not in ('fn', 'assoc_fn') or b.name not in names:
            continue
        st = strip_generics(b.impl_self or '')
        if st == ty:
            out.append(b)
    return out


def transitive(fx, body, names, seen=None):
    """body plus the bodies of nested to_parameter_list / from_parameter_list calls."""
    seen = seen if seen is not None else []
    if body in seen:
        return seen
    seen.append(body)
    for b in [body] + fx.closures_of(body):
        for bb, t in b.calls():
            last = strip_generics(callee_res(t)).rsplit('::', 1)[-1]
            if last in names:
                tg, _dyn = fx.call_targets(t)
                for k in tg:
                    for nb in fx.by_key.get(k, []):
                        if nb.kind in ('fn', 'assoc_fn'):
                            transitive(fx, nb, names, seen)
    return seen


def run_config(rep, fx, cfg):
    n_types = 0
    n_params = 0
    for short, ty in TYPES:
        ser = bodies_named(fx, ty, ('to_parameter_list',))
        des = bodies_named(fx, ty, ('from_pl_cdr_bytes', 'from_parameter_list'))
        if not ser or not des:
            if short == 'DiscoveredTopicData':
                ser = ser or bodies_named(fx, ty, ('to_pl_cdr_bytes',))
            if not ser or not des:
                raise CheckBroken('%s: serializer/deserializer not found in config %s (ser=%d des=%d)' % (short, cfg, len(ser), len(des)))
        n_types += 1
        S = []
        for b in transitive(fx, ser[0], ('to_parameter_list',)):
            rep.analysed(b)
            S.extend(pltables.emissions(fx, b))
        D = []
        for b in transitive(fx, des[0], ('from_parameter_list', 'from_pl_cdr_bytes')):
            rep.analysed(b)
            D.extend(pltables.consumptions(fx, b))
        if len(S) < 3 or len(D) < 3:
            raise CheckBroken('%s: tables too small to be credible (emitted %d, consumed %d)' % (short, len(S), len(D)))
        sp = {}
        for e in S:
            sp.setdefault(e['pid'], []).append(e)
        dp = {}
        for c in D:
            dp.setdefault(c['pid'], []).append(c)
        for pid in sorted(set(sp) | set(dp), key=str):
            n_params += 1
            key = '%s/%s' % (short, pid)
            if (key, 'seen') in rep.coverage_extra.setdefault('_seen', set()):
                pass
            if pid is None:
                rep.violation('R15.1', key, 'a parameter is emitted or consumed with a ParameterId that is not a named PID_ constant', (sp.get(pid) or dp.get(pid))[0]['where'])
                continue
            if pid not in dp:
                ok = (short, pid) in ALLOWED_WRITE_ONLY
                rep.check(ok, 'R15.1', key, ALLOWED_WRITE_ONLY.get((short, pid), ''),
                          '%s writes %s (%s) but its deserializer never reads it: the field is lost on the wire' % (short, pid, sp[pid][0]['ty']), sp[pid][0]['where'])
                continue
            if pid not in sp:
                ok = (short, pid) in ALLOWED_READ_ONLY or all(c['mult'] != 'first' for c in dp[pid])
                # an optional parameter that we never write is harmless for our own round trip only if its absence decodes to the same value; list it
                rep.check((short, pid) in ALLOWED_READ_ONLY, 'R15.1', key, ALLOWED_READ_ONLY.get((short, pid), ''),
                          '%s reads %s (%s, %s) but its serializer never writes it%s' % (short, pid, dp[pid][0]['ty'], dp[pid][0]['mult'],
                                                                                         ': its own output cannot be parsed back' if not ok else ': the field does not survive a round trip'),
                          dp[pid][0]['where'])
                continue
            e, c = sp[pid][0], dp[pid][0]
            ok_ty = e['ty'] == c['ty'] and e['ty'] is not None
            compat = {('first', 'first'), ('first', 'option'), ('option', 'option'), ('all', 'all'), ('first', 'all')}
            # several emissions of one PID under different variants (e.g. ownership kind) count as optional
            emult = e['mult'] if len(sp[pid]) == 1 else ('option' if any(x['mult'] != 'first' for x in sp[pid]) else e['mult'])
            ok_m = (emult, c['mult']) in compat
            rep.check(ok_ty, 'R15.1', key + '/type', '%s as %s' % (pid, e['ty']),
                      '%s: %s is written as %s but read as %s' % (short, pid, e['ty'], c['ty']), e['where'])
            rep.check(ok_m, 'R15.1', key + '/multiplicity', 'written %s, read %s' % (emult, c['mult']),
                      '%s: %s is written with multiplicity "%s" but read as "%s" (mandatory/optional/list mismatch)' % (short, pid, emult, c['mult']), e['where'])
            for xi, x in enumerate(sp[pid]):
                # a parameter may be left out for exactly the value the reader re-creates when it is absent (`if v != c { emit }` with `None => c` on the other side)
                if x['value_conds'] and len(x['value_conds']) == len(x.get('value_cond_terms') or []) and \
                        all(_recreated(fx, dp[pid], pid, cond, lab) for cond, lab in x['value_cond_terms']):
                    x = dict(x)
                    x['value_conds'] = []
                rep.check(not x['value_conds'], 'R15.1', key + ('/presence-only#%d' % (xi + 1) if x['value_conds'] and len(sp[pid]) > 1 else '/presence-only'),
                          'emission depends only on presence / variant of the field',
                          '%s: whether %s is written depends on a VALUE (%s): for that value the parameter is missing on the wire and the field does not survive '
                          '(defaults are not re-created by the reader)' % (short, pid, '; '.join(x['value_conds'])), x['where'])
            # default
            if pid in DEFAULTS and c['mult'] == 'option':
                rep.check(c['default'] == DEFAULTS[pid], 'R15.2', key + '/default', 'absent => %r' % DEFAULTS[pid],
                          '%s: absent %s defaults to %r, RTPS prescribes %r' % (short, pid, c['default'], DEFAULTS[pid]), c['where'])
    return n_types, n_params


def run(rep, facts, tier):
    rep.explanation = ('Per PL-CDR type the set of (ParameterId constant, wire type, multiplicity) emitted by to_parameter_list (operands of Parameter::new and the type argument of '
                       'write_to_vec_with_ctx, including nested to_parameter_list calls) is compared with the set consumed by from_pl_cdr_bytes / from_parameter_list (constant and type '
                       'argument of get_first/option/all_from_pl_map); emissions may depend only on presence/variant of the field; defaults of absent optionals; the parameter-list '
                       'reader has no exit that depends on the parameter id other than the sentinel.')
    rep.assume('byte-level CDR of each parameter value (speedy derive) is not decided', 'wrapper pairs Locator/repr::Locator and String/StringWithNul are representation-equivalent')
    rep.rule('R15.1', 'PID tables agree: every parameter written is read with the same wire type and a compatible multiplicity and vice versa; whether a parameter is written depends only '
                      'on the presence / variant of its field, never on its value')
    rep.rule('R15.2', 'defaults: absent optional parameters decode to the defaults RTPS prescribes (expects_inline_qos = false, manual_liveliness_count = 0)')
    rep.rule('R15.4', 'pad discipline of hand-aligned value codecs (ContentFilterProperty, Property/BinaryProperty/Tag/DataHolder, qos Property/DataTag): every read_pad/write_pad(.., L, 4) has '
                      'L = length of the value read/written immediately before on every path (0 after a 4-byte primitive or at entry), and no variable-length value is followed by another '
                      'stream operation without a pad; reader and writer therefore skip/emit the same padding for any number of elements')
    rep.rule('R15.5', 'PID <-> field agreement: a value read with parameter id P is stored into the field (directly or through a simple constructor, by argument position) that the '
                      'serializer took the value of P from')
    rep.rule('R15.3', 'unknown parameters: ParameterList::read_from skips every parameter by its length and stops only at the sentinel; deserializers look parameters up by id')
    tot_t = tot_p = 0
    for cfg in CONFIGS:
        if cfg not in facts:
            continue
        t, p = run_config(rep, facts[cfg], cfg)
        tot_t += t
        tot_p += p
        n5 = rule_15_5(rep, facts[cfg], cfg)
        rep.coverage_extra.setdefault('pid_field_pairs', {})[cfg] = n5
        from rules import padrule
        nb, npads = padrule.run_rule(rep, facts[cfg], 'R15.4', cfg)
        rep.coverage_extra.setdefault('pad_codecs', {})[cfg] = {'functions': nb, 'pad_calls': npads}
        if cfg == 'default':
            rep.floor('R15.4', npads, 10, 'read_pad/write_pad calls in hand-aligned codecs (default features)')
        else:
            rep.floor('R15.4', npads, 26, 'read_pad/write_pad calls in hand-aligned codecs (security features)')
    # the same parameter in both feature configurations is one obligation
    seen = set()
    uniq_i, uniq_v = [], []
    for i in rep.instances:
        k = (i['rule'], i['key'])
        if k in seen:
            continue
        seen.add(k)
        uniq_i.append(i)
    seen = set()
    for v in rep.violations:
        if v['key'] in seen:
            continue
        seen.add(v['key'])
        uniq_v.append(v)
    rep.instances[:] = uniq_i
    rep.violations[:] = uniq_v
    rep.coverage_extra.pop('_seen', None)
    rep.floor('R15.1', tot_p, 80, 'parameters in the PL-CDR tables (both configurations)')
    rep.coverage_extra['types'] = tot_t
    rep.coverage_extra['parameters'] = tot_p

    # ------------------------------------------------------------ R15.3
    fx = facts['default']
    rf = [b for b in fx.bodies if b.name == 'read_from' and 'ParameterList' in (b.impl_self or '') and b.kind in ('fn', 'assoc_fn')]
    if len(rf) != 1:
        raise CheckBroken('ParameterList::read_from not found (%d)' % len(rf))
    b = rf[0]
    rep.analysed(b)
    og = Origins(b, summaries=False)
    P = Pos(b)
    # decisions on the parameter id: only equality with the sentinel (and PAD) may appear
    bad = []
    for s_, t_, cond, lab in switch_edges(b, fx, og):
        if term_has(cond, lambda x: x[0] == 'const' and 'ParameterId::PID_' in str(x[2])):
            names = [str(x[2]).rsplit('::', 1)[-1] for x in term_leaves(cond) if x[0] == 'const' and 'ParameterId::PID_' in str(x[2])]
            if any(n not in ('PID_SENTINEL', 'PID_PAD') for n in names):
                bad.append(names)
    rep.check(not bad, 'R15.3', 'ParameterList::read_from/id-agnostic', 'only the sentinel (and pad) ids are tested while reading',
              'ParameterList::read_from takes decisions on specific parameter ids %s: an unknown parameter could change the parse' % bad, b.where())
    sent = [(s_, t_) for s_, t_, cond, lab in switch_edges(b, fx, og) if term_has(cond, lambda x: x[0] == 'const' and str(x[2]).endswith('PID_SENTINEL'))]
    rep.check(bool(sent), 'R15.3', 'ParameterList::read_from/sentinel', 'the loop ends at PID_SENTINEL', 'the parameter list reader does not stop at the sentinel', b.where())
    # value bytes are read by the length field (skipping works for any id)
    lens = [t for bb, t in b.calls() if callee_res(t).rsplit('::', 1)[-1] in ('read_vec', 'read_bytes', 'read_value', 'skip_bytes') or 'read_vec' in callee_res(t)]
    rep.check(bool(lens), 'R15.3', 'ParameterList::read_from/by-length', 'parameter values are read by their length field', 'parameter values are not read generically by length', b.where())
    for g in ('get_first_from_pl_map', 'get_option_from_pl_map', 'get_all_from_pl_map'):
        gb = [x for x in fx.bodies if x.name == g]
        if not gb:
            raise CheckBroken('%s not found' % g)
        x = gb[0]
        rep.analysed(x)
        ogx = Origins(x, summaries=False)
        ok = any(callee_res(t).endswith('::get') and any(ogx.of_operand(a, bb, 'term')[0] == 'param' for a in t['args'][1:]) for bb, t in x.calls())
        rep.check(ok, 'R15.3', '%s/by-id' % g, 'looks the parameter up by id in the map', '%s does not look its parameter up by id' % g, x.where())

    rule_15_7(rep, facts['default'])
    rule_15_9(rep, facts['default'])
    for cfg in CONFIGS:
        if cfg in facts:
            rule_15_8(rep, facts[cfg], cfg)

    # ------------------------------------------------------------ R15.6 crossed roles (shared lint, rdv/swaplint.py)
    from rdv import swaplint
    swaplint.run_rule(rep, facts['default'], 'R15.6', ['discovery::', 'dds::qos', 'serialization::', 'messages::submessages::elements::parameter'])


def ctor_field_map(fx, callee_key):
    """For a simple constructor (returns an aggregate whose fields are its parameters): {param index: field name}."""
    out = {}
    for cb in fx.by_key.get(callee_key, []):
        og = Origins(cb, summaries=False)
        for bb, si, st in cb.statements():
            if st['s'] == 'assign' and st['rv']['r'] == 'agg' and st['rv'].get('kind') == 'adt' and st['rv'].get('fields'):
                for f, o in zip(st['rv']['fields'], st['rv']['ops']):
                    tm = og.of_operand(o, bb, si)
                    if tm[0] == 'param':
                        out[tm[1]] = f
    return out


def pid_field_maps(fx, short, ty):
    """-> (S: pid -> set(field names the value is taken from), D: [(field, pid, where)] leaf mappings of the deserializer)."""
    ser = bodies_named(fx, ty, ('to_parameter_list',)) or bodies_named(fx, ty, ('to_pl_cdr_bytes',))
    des = bodies_named(fx, ty, ('from_pl_cdr_bytes', 'from_parameter_list'))
    S = {}
    for b in transitive(fx, ser[0], ('to_parameter_list',)):
        for e in pltables.emissions(fx, b):
            S.setdefault(e['pid'], set()).update(e['fields'])
    D = []

    def pids_of(tm):
        return sorted(set(pltables.pid_of(a) for x in term_leaves(tm) if x[0] == 'call' and x[1].rsplit('::', 1)[-1] in pltables.GETTERS for a in x[2] if pltables.pid_of(a)))
    for b in transitive(fx, des[0], ('from_parameter_list', 'from_pl_cdr_bytes')):
        og = Origins(b, summaries=False)
        for bb, si, st in b.statements():
            if not (st['s'] == 'assign' and st['rv']['r'] == 'agg' and st['rv'].get('kind') == 'adt' and st['rv'].get('fields')):
                continue
            adt = strip_generics(str(st['rv'].get('adt')))
            if adt.startswith(('std::', 'core::', 'alloc::')):
                continue
            for f, o in zip(st['rv']['fields'], st['rv']['ops']):
                tm = og.of_operand(o, bb, si)
                ps = pids_of(tm)
                if len(ps) == 1:
                    D.append((f, ps[0], b.where(bb, si)))
        # constructor calls fed with parameter values
        for bb, t in b.calls():
            r = strip_generics(callee_res(t))
            if not r.endswith('::new') or r.startswith(('std::', 'core::', 'alloc::')):
                continue
            fm = ctor_field_map(fx, norm_path(callee_res(t)))
            for i, a in enumerate(t['args']):
                ps = pids_of(og.of_operand(a, bb, 'term'))
                if len(ps) == 1 and (i + 1) in fm:
                    D.append((fm[i + 1], ps[0], b.where(bb)))
    return S, D


# deserializer field <- PID pairs whose serializer source is named differently on purpose (read on the pinned tree)
FIELD_ALIASES = {}


def rule_15_5(rep, fx, cfg):
    pre = '' if cfg == 'default' else cfg + ':'
    n = 0
    for short, ty in TYPES:
        try:
            S, D = pid_field_maps(fx, short, ty)
        except IndexError:
            continue
        by_pid = {}
        for f, pid, where in D:
            by_pid.setdefault(pid, []).append((f, where))
        owner = {}
        for pid, fs in S.items():
            for f in fs:
                owner.setdefault(f, set()).add(pid)
        for pid, dests in sorted(by_pid.items(), key=lambda kv: str(kv[0])):
            if pid not in S or not S[pid]:
                continue
            n += 1
            src = S[pid]
            hit = [f for f, _w in dests if f in src or (short, pid, f) in FIELD_ALIASES]
            # a destination that is the source field of a *different* parameter
            stray = [f for f, _w in dests if f not in src and any(q != pid for q in owner.get(f, ()))]
            ok = bool(hit) and not stray
            rep.check(ok, 'R15.5', '%s%s/%s' % (pre, short, pid), 'read into the field it was written from (%s)' % ', '.join(sorted(set(hit))),
                      '%s: %s is written from %s but read into %s: the value lands in another field, the data does not survive although every parameter is read with the '
                      'right id and type' % (short, pid, sorted(src), sorted(set(f for f, _w in dests))), dests[0][1])
    return n


PID_ADT = 'structure::parameter_id::ParameterId'


def _pure_copy(t):
    """The term is a plain copy chain (fields, derefs, refs, variant views, `?` continuations) with no arithmetic, no constant and no call other than the reads it ends in."""
    return not term_has(t, lambda x: x[0] in ('bin', 'un', 'cast', 'const', 'phi', 'unknown', 'index'))


def rule_15_7(rep, fx):
    """A parameter is identified by its full 16-bit id: the vendor-specific (0x8000) and must-understand (0x4000) bits are part of the id space (RTPS 9.6.2.2.1), so a
    vendor parameter 0x8002 is not PID_PARTICIPANT_LEASE_DURATION 0x0002. Nothing between the wire and the lookup may transform the id."""
    rep.rule('R15.7', 'parameter identity: the id read from the wire reaches the lookup map untransformed (ParameterId::read_from, Parameter::read_from, ParameterList::to_map key = '
                      'p.parameter_id, get_*_from_pl_map look up the id they are given), ParameterId derives Eq/Ord over its one u16 field, and the id is written back untransformed; '
                      'so an unknown or vendor-specific parameter can never be filed under a known id')
    og0 = lambda b: Origins(b, transparent=True, summaries=False)
    # 1. ParameterId codec: value <- read_value, write_value(value)
    rd = [b for b in fx.bodies if b.name == 'read_from' and strip_generics(b.impl_self or '') == PID_ADT]
    wr = [b for b in fx.bodies if b.name == 'write_to' and strip_generics(b.impl_self or '') == PID_ADT]
    if len(rd) != 1 or len(wr) != 1:
        raise CheckBroken('ParameterId read_from/write_to not found (%d/%d)' % (len(rd), len(wr)))
    for b, what in ((rd[0], 'read'), (wr[0], 'write')):
        rep.analysed(b)
        arith = [(bb, si) for bb, si, st in b.statements() if st['s'] == 'assign' and st['rv']['r'] in ('bin', 'un', 'cast')]
        calls = [callee_res(t).rsplit('::', 1)[-1] for _bb, t in b.calls() if callee_res(t).rsplit('::', 1)[-1] not in ('branch', 'from_residual')]
        ok = not arith and calls in (['read_value'], ['read_u16'], ['write_value'], ['write_u16'])
        rep.check(ok, 'R15.7', 'ParameterId/%s' % what, 'one 16-bit %s, no arithmetic' % what, 'ParameterId::%s transforms the id (%s, %d arithmetic statements)' % (b.name, calls, len(arith)), b.where())
    # 2. Parameter::read_from keeps the id it read
    prd = [b for b in fx.bodies if b.name == 'read_from' and strip_generics(b.impl_self or '').endswith('elements::parameter::Parameter')]
    if len(prd) != 1:
        raise CheckBroken('Parameter::read_from not found')
    b = prd[0]
    rep.analysed(b)
    og = og0(b)
    okp = False
    for bb, si, st in b.statements():
        if st['s'] == 'assign' and st['rv']['r'] == 'agg' and (st['rv'].get('fields') or []) and 'parameter_id' in st['rv']['fields']:
            v = og.of_operand(st['rv']['ops'][st['rv']['fields'].index('parameter_id')], bb, si)
            okp = _pure_copy(v) and term_has(v, lambda x: x[0] == 'call' and x[1].endswith('read_value'))
    rep.check(okp, 'R15.7', 'Parameter::read_from/id', 'parameter_id = the value read, unchanged', 'Parameter::read_from does not store the id exactly as read', b.where())
    # 3. the lookup map is keyed by p.parameter_id and holds p
    tm = fx.find('messages::submessages::elements::parameter_list::ParameterList::to_map')
    n_entry = 0
    for b in [tm] + fx.closures_of(tm):
        rep.analysed(b)
        og = og0(b)
        for bb, t in b.calls():
            cr = callee_res(t)
            if cr.endswith(('BTreeMap::<K, V, A>::entry', 'BTreeMap::<K, V, A>::insert')):
                n_entry += 1
                k = og.of_operand(t['args'][1], bb, 'term')
                ok = _pure_copy(k) and not term_has(k, lambda x: x[0] == 'call') and k[0] == 'field' and k[1] == 'parameter_id'
                rep.check(ok, 'R15.7', 'ParameterList::to_map/key', 'map key = p.parameter_id (plain copy)',
                          'ParameterList::to_map files a parameter under a key that is not its own parameter_id unchanged (%s): ids that differ only in the vendor / must-understand '
                          'bits collide, and an unknown parameter is taken for a known one' % term_str(k)[:120], b.where(bb))
    rep.floor('R15.7', n_entry, 1, 'map insertions in ParameterList::to_map')
    # 4. the key type compares the whole id
    for tr in ('std::cmp::PartialEq', 'std::cmp::Ord', 'std::cmp::PartialOrd'):
        im = [i for i in fx.impls if strip_generics(i.get('self_ty') or '') == PID_ADT and i.get('trait_def') == tr]
        rep.check(len(im) == 1 and bool(im[0].get('derived')), 'R15.7', 'ParameterId/%s-derived' % tr.rsplit('::', 1)[-1], 'derived over the single u16 field',
                  'ParameterId no longer derives %s: map lookups compare whatever the hand-written impl compares' % tr, '')
    adt = fx.adt(PID_ADT)
    flds = [f['name'] if isinstance(f, dict) else f for f in (adt['variants'][0]['fields'] if adt and adt.get('variants') else [])]
    rep.check(flds == ['value'], 'R15.7', 'ParameterId/fields', 'one field `value`', 'ParameterId has fields %s' % flds, '')
    # 5. the getters look up exactly the id handed to them
    for g in ('get_first_from_pl_map', 'get_option_from_pl_map', 'get_all_from_pl_map'):
        x = [y for y in fx.bodies if y.name == g][0]
        ogx = og0(x)
        gets = [(bb, t) for bb, t in x.calls() if callee_res(t).endswith('BTreeMap::<K, V, A>::get')]
        ok = len(gets) >= 1 and all(_strip_refs(ogx.of_operand(t['args'][1], bb, 'term'))[0] == 'param' for bb, t in gets)
        rep.check(ok, 'R15.7', '%s/key' % g, 'map.get(&pid) with the pid parameter itself', '%s does not look up exactly the id it is given' % g, x.where())


def _strip_refs(t):
    while isinstance(t, tuple) and t and t[0] in ('ref', 'deref') and len(t) > 1 and isinstance(t[1], tuple):
        t = t[1]
    return t


def rule_15_8(rep, fx, cfg):
    """A length that goes into a 16-bit (or narrower) wire field must be range-checked: `len as u16` wraps silently for a long value and the rest of the list is then read
    as parameters (or not at all)."""
    if cfg == 'default':
        rep.rule('R15.8', 'narrow length fields: in every hand-written serializer, a value written with write_u16 / write_i16 / write_u8 that derives from the length of a collection '
                          'comes through a checked conversion (try_from whose failure is an error), never through a narrowing `as` cast; Parameter::write_to is the one instance '
                          '(the 16-bit parameter length)')
    pre = ''
    n = 0
    for b in fx.bodies:
        if b.j.get('test') or b.j.get('from_macro') or b.kind not in ('fn', 'assoc_fn'):
            continue
        og = None
        for bb, t in b.calls():
            cr = callee_res(t)
            if cr.rsplit('::', 1)[-1] not in ('write_u16', 'write_i16', 'write_u8') or 'speedy' not in cr or len(t['args']) < 2:
                continue
            if og is None:
                og = Origins(b, transparent=False, summaries=False)
            v = og.of_operand(t['args'][1], bb, 'term')
            if not term_has(v, lambda z: z[0] == 'call' and z[1].rsplit('::', 1)[-1] in ('len', 'len_serialized', 'count')):
                continue
            n += 1
            rep.analysed(b)
            # the length must pass a try_from on its way (the cast, if any, sits outside it: widening); a narrowing cast directly over the length is the defect
            def narrowing_cast_over_len(z):
                return z[0] == 'cast' and term_has(z, lambda y: y[0] == 'call' and y[1].rsplit('::', 1)[-1] in ('len', 'len_serialized', 'count')) and \
                    not term_has(z, lambda y: y[0] == 'call' and y[1].endswith('::try_from'))
            checked = term_has(v, lambda z: z[0] == 'call' and z[1].endswith('::try_from')) and not term_has(v, narrowing_cast_over_len)
            rep.check(checked, 'R15.8', '%s%s/%s' % (pre, b.key, cr.rsplit('::', 1)[-1]), 'length converted with try_from (failure is an error)',
                      '%s writes a length into a narrow wire field through an unchecked narrowing conversion (%s): a value longer than the field can express wraps the length around, '
                      'and what is written does not parse back' % (b.key, term_str(v)[:100]), b.where(bb))
    if cfg == 'default':
        rep.floor('R15.8', n, 1, 'narrow length fields written by hand-written serializers')


LOC = 'structure::locator::Locator'
REPR = 'structure::locator::repr::Locator'


def rule_15_9(rep, fx):
    """Every locator parameter (unicast / multicast / metatraffic lists of participants and endpoints) goes through the pair Locator <-> repr::Locator. The variant is decided
    by the wire `kind` alone, in both directions, by tables that are inverse to each other."""
    rep.rule('R15.9', 'locator wire form: From<repr::Locator> for Locator decides the variant from repr.kind only (one switch; each arm builds its variant directly as an aggregate, '
                      'no further value-dependent decision or conversion call producing the result), From<Locator> for repr::Locator assigns each variant its kind constant, and the two '
                      'tables are inverse: INVALID <-> Invalid, RESERVED <-> Reserved, UDP_V4 <-> UdpV4, UDP_V6 <-> UdpV6, anything else <-> Other{kind}; the UDP payloads are built from '
                      'address / port of the same repr')
    kinds = {}
    for k, v in fx.consts.items():
        if k.startswith('structure::locator::kind::') and v.get('val') is not None:
            kinds[int(v['val'])] = k.rsplit('::', 1)[-1]
    want = {'INVALID': 'Invalid', 'RESERVED': 'Reserved', 'UDP_V4': 'UdpV4', 'UDP_V6': 'UdpV6'}
    fr = fx.find('<%s as std::convert::From<%s>>::from' % (LOC, REPR))
    rep.analysed(fr)
    og = Origins(fr, summaries=False)
    sw = [bb for bb in sorted(fr.live_blocks()) if fr.blocks[bb]['term']['t'] == 'switch']
    table = {}
    ok_shape = False
    extra = []
    if sw:
        t = fr.blocks[sw[0]]['term']
        x = og.of_operand(t['x'], sw[0], 'term')
        ok_shape = x == ('field', 'kind', ('param', 1))
        P = Pos(fr)
        arms = [(a[0], a[1]) for a in t['arms']] + [('otherwise', t['otherwise'])]
        for val, tg in arms:
            if isinstance(val, int) and val >= 2 ** 31:
                val -= 2 ** 32
            reach = P.reach((tg, 0), include_start=True)
            blocks = set(bb for bb, _k in reach)
            vs = set()
            for bb in blocks:
                for si, st in enumerate(fr.blocks[bb]['st']):
                    if st['s'] == 'assign' and st['lhs']['l'] == 0 and not st['lhs'].get('p'):
                        vs.add(st['rv'].get('variant') if st['rv']['r'] == 'agg' else 'non-aggregate:%s' % st['rv']['r'])
                tt = fr.blocks[bb]['term']
                if tt['t'] == 'call' and tt.get('dest', {}).get('l') == 0 and not tt['dest'].get('p'):
                    vs.add('call:%s' % callee_res(tt).rsplit('::', 1)[-1])
                if tt['t'] == 'switch' and bb != sw[0]:
                    extra.append(bb)
            table[kinds.get(val, val) if val != 'otherwise' else 'otherwise'] = sorted(vs, key=str)
    exp = {k: [v] for k, v in want.items()}
    exp['otherwise'] = ['Other']
    okf = ok_shape and table == exp and not extra
    rep.check(okf, 'R15.9', 'Locator::from(repr)/kind-table', 'variant decided by repr.kind only: %s' % table,
              'From<repr::Locator> for Locator does not map the wire kind to the variant one-to-one (table %s, further decisions in blocks %s): a locator can come back as a different '
              'variant than the one that was written, depending on its value' % (table, extra), fr.where())
    # payload provenance of the two UDP variants
    okp = True
    for bb, si, st in fr.statements():
        if st['s'] == 'assign' and st['lhs']['l'] == 0 and st['rv']['r'] == 'agg' and st['rv'].get('variant') in ('UdpV4', 'UdpV6'):
            v = og.of_operand(st['rv']['ops'][0], bb, si)
            okp = okp and term_has(v, lambda x: x[0] == 'call' and x[1].endswith(('SocketAddrV4::new', 'SocketAddrV6::new'))) and \
                term_has(v, lambda x: x == ('field', 'port', ('param', 1))) and term_has(v, lambda x: x[0] == 'field' and x[1] == 'address' and x[2] == ('param', 1))
    rep.check(okp, 'R15.9', 'Locator::from(repr)/udp-payload', 'SocketAddrV4/V6::new(address of repr, port of repr)', 'the UDP locator read back is not built from address and port of the same wire locator', fr.where())
    # the other direction
    to = [b for b in fx.bodies if b.name == 'from' and strip_generics(b.impl_self or '') == REPR and b.kind in ('fn', 'assoc_fn')]
    if len(to) != 1:
        raise CheckBroken('From<Locator> for repr::Locator not found (%d)' % len(to))
    to = to[0]
    rep.analysed(to)
    ogt = Origins(to, summaries=False)
    sw2 = [bb for bb in sorted(to.live_blocks()) if to.blocks[bb]['term']['t'] == 'switch' and ogt.of_operand(to.blocks[bb]['term']['x'], bb, 'term')[0] == 'discr']
    t2 = {}
    if sw2:
        tt = to.blocks[sw2[0]]['term']
        adt = fx.adt(LOC)
        names = [v['name'] for v in adt['variants']]
        P2 = Pos(to)
        for val, tg in [(a[0], a[1]) for a in tt['arms']] + [('otherwise', tt['otherwise'])]:
            vname = fx.variant_name(LOC, val) if val != 'otherwise' else None
            if vname is None:
                rest = [n for n in names if n not in [fx.variant_name(LOC, a[0]) for a in tt['arms']]]
                vname = rest[0] if len(rest) == 1 else 'otherwise'
            ks = set()
            for bb, _k in P2.reach((tg, 0), include_start=True):
                for st in to.blocks[bb]['st']:
                    if st['s'] != 'assign':
                        continue
                    ops = [st['rv']['x']] if st['rv']['r'] == 'use' else (st['rv'].get('ops') or [] if st['rv']['r'] == 'agg' else [])
                    for o in ops:
                        if o.get('o') == 'const':
                            nm = str(o['k'].get('def') or o['k'].get('path') or '')
                            for kn in want:
                                if nm.endswith('kind::' + kn):
                                    ks.add(kn)
            t2[vname] = sorted(ks)
    exp2 = {v: [k] for k, v in want.items()}
    ok2 = all(t2.get(v) == [k] for k, v in want.items()) and t2.get('Other', []) == []
    rep.check(ok2, 'R15.9', 'repr::Locator::from(Locator)/kind-table', 'variant -> kind constant: %s' % t2,
              'From<Locator> for repr::Locator does not give each variant its own kind constant (table %s, expected %s and Other -> its own kind field)' % (t2, exp2), to.where())


def _recreated(fx, consumers, pid, cond, lab):
    """`cond` (with outcome `lab` leading to the emission) is `field != c`, and a deserializer that reads `pid` builds the same-named field from the constant c on a path
    that took the None edge of its lookup of `pid`."""
    from rdv.core import Origins, Pos, switch_edges, term_has, term_leaves
    if cond[0] != 'bin' or cond[1] not in ('Ne', 'Eq') or (cond[1] == 'Ne') != bool(lab):
        return False
    k = [x for x in (cond[2], cond[3]) if x[0] == 'const' and x[1] == 'int']
    v = [x for x in (cond[2], cond[3]) if x[0] != 'const']
    if len(k) != 1 or len(v) != 1:
        return False
    c = k[0][2]
    fields = [y[1] for y in term_leaves(v[0]) if y[0] == 'field' and not str(y[1]).isdigit()]
    f = None
    t = v[0]
    while isinstance(t, tuple) and t and t[0] in ('field', 'variant', 'deref', 'ref', 'copy'):
        if t[0] == 'field' and not str(t[1]).isdigit():
            f = t[1]
            break
        t = t[2] if t[0] in ('field', 'variant') else t[1]
    if f is None:
        return False
    for cons in consumers:
        b = fx.find(cons['fn']) if cons.get('fn') else None
        if b is None:
            continue
        og = Origins(b, summaries=False)
        P = Pos(b)
        none_e = [(s_, t_) for s_, t_, cnd, lb in switch_edges(b, fx, og) if lb == 'None' and cnd[0] == 'discr' and pid in str(cnd[1])]
        if not none_e:
            continue
        for bb, si, st in b.statements():
            if st['s'] == 'assign' and st['rv']['r'] == 'agg' and f in (st['rv'].get('fields') or []):
                op = st['rv']['ops'][st['rv']['fields'].index(f)]
                if op.get('o') == 'const' and op['k'].get('c') == 'int' and op['k'].get('v') == c and \
                        P.every_path_passes(None, (bb, si), via_edges=none_e, from_entry=True):
                    return True
    return False
