"""C01  Reliable reader hands over each writer's samples in order, once, without holes.

Provenance and guard rules. Ordering over arbitrary histories of DATA/GAP/HEARTBEAT is not
decided; each rule is a necessary condition whose violation yields a duplicate, a hole or a
wrong field.
"""
from rdv.core import (CheckBroken, Origins, Pos, call_matches, callee_res, capture_terms, norm_path, primary_edges,
                      resolve_captures, strip_generics, switch_edges, term_has, term_leaves, term_str)

CONFIGS = ['default']
LEVEL = 'other'


def has_field(t, name):
    return term_has(t, lambda x: x[0] == 'field' and x[1] == name)


def has_call(t, suffix):
    return term_has(t, lambda x: x[0] == 'call' and x[1].endswith(suffix))


def param_names(b):
    return {d.get('arg'): d['name'] for d in b.j.get('dbg', []) if d.get('arg')}


def run(rep, facts, tier):
    fx = facts['default']
    rep.explanation = ('Provenance + guard rules on the hand-over path: the reliable window is (last_read, max(reliable_before, last_read+1)) exclusive on both ends; the read '
                       'pointer is advanced to exactly the change just returned; the reliable marker is always the writer proxy\'s ack_base; duplicates are dropped before the cache; '
                       'CacheChange fields come from the submessage that delivered them; exclusive "before" bounds are decremented when used as inclusive range ends.')
    rep.assume('ack_base semantics (lowest SN neither received nor irrelevant) are maintained by C03\'s rules', 'history / resource limits of the reader are not exceeded')
    rep.rule('R01.1', 'window bounds: get_changes_in_range_reliable ranges over (Excluded(last_read_sn[guid] | 0), Excluded(max(reliable_before(guid), lo + 1)))')
    rep.rule('R01.2', 'read pointer: the (guid, sn) inserted into last_read_sn are writer_guid / sequence_number of the change the query returned in the same iteration')
    rep.rule('R01.3', 'marker provenance: every mark_reliably_received_before(g, x) in rtps::reader passes x = ack_base of the proxy of the same writer g')
    rep.rule('R01.4', 'duplicate guard: received_changes_add / make_cache_change are reached only if !should_ignore_change(sn) (or the SPDP reader exception, or no proxy / stateless)')
    rep.rule('R01.5', 'field provenance: CacheChange::new gets (source_guid_prefix + writer_id, writer_sn, payload) of the DATA/DATAFRAG being processed')
    rep.rule('R01.6', 'exclusive-bound discipline: an exclusive "..._before" bound used as the end of an inclusive sequence-number range is decremented by one')

    # ------------------------------------------------------------ R01.1 (shared with C06 R06.4)
    rule_reliable_window(rep, fx, 'R01.1')

    # ------------------------------------------------------------ R01.2
    tk = fx.find('dds::with_key::simpledatareader::SimpleDataReader::try_take_one_with')
    rep.analysed(tk)
    og = Origins(tk, summaries=True)
    n = 0
    for bb, t in tk.calls():
        if callee_res(t).endswith('BTreeMap::<K, V, A>::insert') or callee_res(t).endswith('::insert'):
            r = og.of_operand(t['args'][0], bb, 'term')
            if not has_field(r, 'last_read_sn'):
                continue
            n += 1
            k = og.of_operand(t['args'][1], bb, 'term')
            v = og.of_operand(t['args'][2], bb, 'term')
            okk = k[0] == 'field' and k[1] == 'writer_guid' and has_call(k, '::next') and has_call(k, 'try_take_undecoded')
            okv = v[0] == 'field' and v[1] == 'sequence_number' and has_call(v, '::next') and has_call(v, 'try_take_undecoded')
            same = okk and okv and k[2] == v[2]
            rep.check(same, 'R01.2', 'try_take_one_with/pointer#%d' % n, 'last_read_sn[cc.writer_guid] = cc.sequence_number of the change just taken',
                      'the read pointer is advanced with (%s, %s), not with writer_guid/sequence_number of the change the query returned: samples would be skipped or repeated' % (
                          term_str(k)[:60], term_str(v)[:60]), tk.where(bb))
    rep.floor('R01.2', n, 2, 'read-pointer updates in try_take_one_with')

    # ------------------------------------------------------------ R01.3
    n = 0
    for b, bb, t in fx.callers_of('TopicCache::mark_reliably_received_before'):
        if not b.key.startswith('rtps::reader::'):
            rep.violation('R01.3', '%s/outside-reader' % b.key, 'mark_reliably_received_before is called outside rtps::reader', b.where(bb))
            continue
        n += 1
        rep.analysed(b)
        og = Origins(b, summaries=True)
        gterm = resolve_captures(fx, b, og.of_operand(t['args'][1], bb, 'term'))
        x = resolve_captures(fx, b, og.of_operand(t['args'][2], bb, 'term'))
        ok = x[0] == 'field' and x[1] == 'ack_base' or (x[0] == 'phi' and all(y[0] == 'field' and y[1] == 'ack_base' or y[0] in ('call', 'const') for y in x[1]) and has_field(x, 'ack_base'))
        rep.check(ok, 'R01.3', '%s/marker-value' % b.key, 'x = writer_proxy.ack_base', 'the reliable marker is moved to %s, which is not the writer proxy\'s ack_base' % term_str(x)[:100], b.where(bb))
        # the proxy is the one of writer g
        proxy = x[2] if x[0] == 'field' else None
        same = True
        if proxy is not None and proxy[0] != 'param':
            gs = str(gterm)
            same = term_has(proxy, lambda y: y == gterm) or gs in str(proxy)
        elif proxy is not None and proxy[0] == 'param' and b.kind == 'closure':
            # worker closure of with_mutable_writer_proxy(writer_guid, |this, proxy| ..) / matched_writer(guid).map(|wp| ..): check the application site
            same = False
            parent = norm_path(b.j.get('parent') or '')
            for pb in fx.by_key.get(parent, []):
                pog = Origins(pb, summaries=True)
                for pbb, pt in pb.calls():
                    for ai, a in enumerate(pt['args']):
                        ta = pog.of_operand(a, pbb, 'term')
                        if ta[0] == 'agg' and ta[1] == b.key:
                            others = [pog.of_operand(o, pbb, 'term') for o in pt['args'][:ai]]
                            cap = capture_terms(fx, b).get('writer_guid')
                            gt = gterm[2] if gterm[0] == 'captured' else gterm
                            if any(o == gt or term_has(o, lambda y: y == gt) for o in others):
                                same = True
        rep.check(same, 'R01.3', '%s/marker-writer' % b.key, 'marker of writer g moved from the proxy of the same g',
                  'the marker of one writer is moved using another writer\'s proxy', b.where(bb))
    rep.floor('R01.3', n, 3, 'calls of mark_reliably_received_before')
    mk = fx.find('structure::dds_cache::TopicCache::mark_reliably_received_before')
    rep.analysed(mk)

    # ------------------------------------------------------------ R01.4
    pr = fx.find('rtps::reader::Reader::process_received_data')
    rep.analysed(pr)
    og = Origins(pr, summaries=True)
    P = Pos(pr)
    sn_param = [i for i, nm in param_names(pr).items() if nm == 'writer_sn']
    if not sn_param:
        raise CheckBroken('process_received_data: parameter writer_sn not found')
    SN = ('param', sn_param[0])
    edges = list(switch_edges(pr, fx, og))
    notdup = [(s_, t_) for s_, t_, cond, lab in edges if cond[0] == 'call' and cond[1].endswith('should_ignore_change') and lab is False]
    sn_ok = all(cond[2][1] == SN for s_, t_, cond, lab in edges if cond[0] == 'call' and cond[1].endswith('should_ignore_change'))
    spdp = [(s_, t_) for s_, t_, cond, lab in edges if cond[0] == 'call' and cond[1].endswith('::eq') and lab is True and
            term_has(cond, lambda x: x[0] == 'const' and str(x[2]).endswith('SPDP_BUILTIN_PARTICIPANT_READER'))]
    noproxy = [(s_, t_) for s_, t_, cond, lab in edges if cond[0] == 'discr' and lab == 'None' and has_call(cond, 'matched_writer_mut')]
    stateless = [(s_, t_) for s_, t_, cond, lab in edges if (cond == ('field', 'like_stateless', ('param', 1)) and lab is True) or
                 (cond[0] == 'un' and cond[1] == 'Not' and cond[2] == ('field', 'like_stateless', ('param', 1)) and lab is False)]
    rep.check(bool(notdup) and sn_ok, 'R01.4', 'process_received_data/test', 'should_ignore_change(writer_sn) is evaluated', 'should_ignore_change is not evaluated on the received sequence number', pr.where())
    for bb, t in pr.calls():
        if call_matches(t, 'RtpsWriterProxy::received_changes_add'):
            ok = P.every_path_passes(None, (bb, 'term'), via_edges=notdup + spdp, from_entry=True)
            rep.check(ok, 'R01.4', 'process_received_data/received_changes_add', 'only for a change that is not a duplicate (SPDP reader excepted)',
                      'a duplicate / already acknowledged change can be recorded as received again', pr.where(bb))
            a1 = og.of_operand(t['args'][1], bb, 'term')
            rep.check(a1 == SN, 'R01.4', 'process_received_data/received_changes_add/sn', 'records writer_sn', 'received_changes_add records %s instead of the received sequence number' % term_str(a1), pr.where(bb))
        if call_matches(t, 'Reader::make_cache_change'):
            ok = P.every_path_passes(None, (bb, 'term'), via_edges=notdup + spdp + noproxy + stateless, from_entry=True)
            rep.check(ok, 'R01.4', 'process_received_data/make_cache_change', 'a duplicate never reaches the topic cache',
                      'a duplicate change can be added to the topic cache: it would be handed over twice', pr.where(bb))
    # R01.14 reception recorded (mutation triage: deleting the received_changes_add call left every rule silent, the rules above only constrain calls that exist)
    rep.rule('R01.14', 'reception recorded: in process_received_data, once the writer proxy was found, every path that reaches make_cache_change has called '
                       'received_changes_add(proxy, writer_sn, ..): the frontier (ack_base) only moves over recorded numbers, so an unrecorded sample is stored but never handed '
                       'over by a reliable reader, and is requested again for ever')
    found = [(s_, t_) for s_, t_, cond, lab in edges if cond[0] == 'discr' and lab == 'Some' and has_call(cond, 'matched_writer_mut')]
    adds = [(bb, 'term') for bb, t in pr.calls() if call_matches(t, 'RtpsWriterProxy::received_changes_add') and og.of_operand(t['args'][1], bb, 'term') == SN and
            has_call(og.of_operand(t['args'][0], bb, 'term'), 'matched_writer_mut')]
    mks = [(bb, 'term') for bb, t in pr.calls() if call_matches(t, 'Reader::make_cache_change')]
    ok = bool(found) and bool(adds) and bool(mks)
    for s_, t_ in found:
        for m in mks:
            if P.can_reach((t_, 0), m, avoid_pos=adds):
                ok = False
    rep.check(ok, 'R01.14', 'process_received_data/reception-recorded', 'proxy found => received_changes_add(writer_sn) before make_cache_change, on every path',
              'process_received_data can store a sample of a matched writer without recording its sequence number in the writer proxy: the reliable frontier never passes it', pr.where())
    rule_stored(rep, fx)
    rule_marker_ownership(rep, fx)
    # R01.16 / R01.17: the way from the datagram to this Reader (shared with C02 R02.24 / R02.25)
    from rules import dispatch
    dispatch.run_rule(rep, fx, 'R01.16', 'default', floor=1)
    dispatch.run_kinds(rep, fx, 'R01.17', 'default')
    dispatch.run_fresh_state(rep, fx, 'R01.18')
    si = fx.find('rtps::rtps_writer_proxy::RtpsWriterProxy::should_ignore_change')
    rep.analysed(si)
    ogs = Origins(si, summaries=True)
    t0 = ogs.of_local(0, si.return_blocks()[0], 'term')

    def atom(t):
        if t[0] == 'call' and t[1].endswith('::lt') and t[2][0] == ('param', 2) and t[2][1] == ('field', 'ack_base', ('param', 1)):
            return 'lt'
        if t[0] == 'call' and t[1].endswith('::gt') and t[2][1] == ('param', 2) and t[2][0] == ('field', 'ack_base', ('param', 1)):
            return 'lt'
        if t[0] == 'call' and t[1].endswith('::contains_key') and has_field(t[2][0], 'changes') and t[2][1] == ('param', 2):
            return 'contains'
        return None
    # `a || b`: a switch on one atom whose true edge yields true, the other atom is the remaining value (either order)
    sw_atoms = set(atom(cond) for _s, _t, cond, _l in switch_edges(si, fx, ogs)) - {None}
    alts = t0[1] if t0[0] == 'phi' else (t0,)
    val_atoms = set(atom(a) for a in alts) - {None}
    consts = [a for a in alts if a[0] == 'const']
    okf = (sw_atoms | val_atoms) == {'lt', 'contains'} and len(sw_atoms) == 1 and len(val_atoms) == 1 and all(c == ('const', 'int', 1) for c in consts) and len(consts) >= 1
    rep.check(okf, 'R01.4', 'should_ignore_change/formula', 'seqnum < ack_base || changes.contains_key(seqnum)', 'should_ignore_change is not `sn < ack_base || changes.contains_key(sn)`', si.where())

    # ------------------------------------------------------------ R01.5
    mc = fx.find('rtps::reader::Reader::make_cache_change')
    rep.analysed(mc)
    og = Origins(mc, summaries=False)
    pn = param_names(mc)
    want = ['writer_guid', 'writer_sn', 'write_options', 'data']
    for bb, t in mc.calls():
        if call_matches(t, 'CacheChange::new'):
            got = []
            for a in t['args']:
                ta = og.of_operand(a, bb, 'term')
                got.append(pn.get(ta[1]) if ta[0] == 'param' else term_str(ta)[:30])
            rep.check(got == want, 'R01.5', 'make_cache_change/fields', 'CacheChange::new(writer_guid, writer_sn, write_options, data)',
                      'CacheChange is built from %s instead of (writer_guid, writer_sn, write_options, data)' % got, mc.where(bb))
    ogp = Origins(pr, summaries=False)
    pnp = param_names(pr)
    for bb, t in pr.calls():
        if call_matches(t, 'Reader::make_cache_change'):
            got = []
            for a in t['args'][1:]:
                ta = ogp.of_operand(a, bb, 'term')
                got.append(pnp.get(ta[1]) if ta[0] == 'param' else term_str(ta)[:30])
            wantp = [pn.get(i) for i in range(2, 2 + len(got))]
            wantp = ['dds_data' if w == 'data' else w for w in wantp]
            rep.check(got == wantp, 'R01.5', 'process_received_data/pass-through', 'arguments passed on unchanged',
                      'process_received_data passes %s to make_cache_change (expected %s)' % (got, wantp), pr.where(bb))
    n = 0
    for key in ('rtps::reader::Reader::handle_data_msg', 'rtps::reader::Reader::handle_datafrag_msg'):
        b = fx.find(key)
        rep.analysed(b)
        ogb = Origins(b, summaries=True)
        for bb, t in b.calls():
            if call_matches(t, 'Reader::process_received_data'):
                n += 1
                names = {v: k for k, v in pnp.items()}
                wg = ogb.of_operand(t['args'][names['writer_guid'] - 1], bb, 'term')
                ws = ogb.of_operand(t['args'][names['writer_sn'] - 1], bb, 'term')
                ts = ogb.of_operand(t['args'][names['receive_timestamp'] - 1], bb, 'term')
                okg = has_field(wg, 'source_guid_prefix') and has_field(wg, 'writer_id') and term_has(wg, lambda x: x == ('param', 2) or x[0] == 'param')
                oks = ws[0] == 'field' and ws[1] == 'writer_sn' and ws[2][0] == 'param'
                rep.check(okg, 'R01.5', '%s/writer-guid' % key.rsplit('::', 1)[-1], 'GUID(mr_state.source_guid_prefix, submessage.writer_id)',
                          'the writer identity of the sample is %s, not (source_guid_prefix, writer_id) of the submessage' % term_str(wg)[:100], b.where(bb))
                rep.check(oks, 'R01.5', '%s/writer-sn' % key.rsplit('::', 1)[-1], 'submessage.writer_sn',
                          'the sequence number of the sample is %s, not writer_sn of the submessage' % term_str(ws)[:100], b.where(bb))
    rep.floor('R01.5', n, 2, 'calls of process_received_data')

    # ------------------------------------------------------------ R01.6 (shared with C03 R03.6)
    rule_exclusive_bound(rep, fx, 'R01.6')

    rule_01_9(rep, fx)
    from rules.C05 import rule_frag_amount
    rule_frag_amount(rep, fx, 'R01.10')

    # ------------------------------------------------------------ R01.8 (shared with C08 R08.9)
    from rules.C08 import rule_sort_before_limit
    rule_sort_before_limit(rep, fx, 'R01.8')

    # ------------------------------------------------------------ reception bookkeeping (shared with C03; a necessary condition of C01 as well: the reliable marker
    # handed to the topic cache is ack_base, so a frontier that runs ahead of what was received or declared unavailable hands over sample n before a lower one)
    from rdv import report as _report
    _report.borrow(rep, facts, tier, 'C03', {'R03.1': 'R01.11', 'R03.11': 'R01.12', 'R03.12': 'R01.13'})
    # a key-hash-only change that cannot be resolved is skipped by the DataReader and its number is never handed over (seed C01f was reported by ./check C08 only)
    _report.borrow(rep, facts, tier, 'C08', {'R08.15': 'R01.20'})
    # what the Reader takes for "complete but unusable" (and skips for good) rests on the assembler's answer (after seed C01g)
    _report.borrow(rep, facts, tier, 'C05', {'R05.18': 'R01.21', 'R05.1': 'R01.22'})

    # ------------------------------------------------------------ R01.7 (shared with C14 R14.5)
    from rules import numberset
    numberset.run_rule(rep, fx, 'R01.7')


def rule_exclusive_bound(rep, fx, rid):
    """An exclusive `*_before` bound used as the end of an inclusive range must be decremented (shared: C01 R01.6, C03 R03.6)."""
    n = 0
    sites = []
    for pat in ('range_inclusive', 'SequenceNumberRange::new', 'FragmentNumberRange::new', 'RangeInclusive::new', 'ops::RangeInclusive::<Idx>::new'):
        for x in fx.callers_of(pat):
            if not any(x[0] is y[0] and x[1] == y[1] for y in sites) and not x[0].key.endswith('::range_inclusive'):
                sites.append(x)
    for b, bb, t in sites:
        og = Origins(b, summaries=False)
        pn_b = param_names(b)
        hi = og.of_operand(t['args'][1], bb, 'term')
        n += 1
        rep.analysed(b)
        names = set()
        for x in term_leaves(hi):
            if x[0] == 'param' and pn_b.get(x[1]):
                names.add(pn_b[x[1]])
            if x[0] == 'field':
                names.add(x[1])
        excl = [nm for nm in names if nm.endswith('_before') or nm in ('ack_base', 'all_acked_before')]
        def by_one(x):
            if x[0] == 'call' and x[1].rsplit('::', 1)[-1] == 'minus_1':
                return True
            if (x[0] == 'call' and x[1].rsplit('::', 1)[-1] == 'sub' and len(x[2]) == 2) or (x[0] == 'bin' and x[1].startswith('Sub')):
                r_ = x[2][1] if x[0] == 'call' else x[3]
                return r_ == ('const', 'int', 1) or (r_[0] == 'call' and r_[1].endswith('::new') and r_[2] == (('const', 'int', 1),)) or \
                    (r_[0] == 'call' and r_[1].endswith('::from') and r_[2] == (('const', 'int', 1),))
            return False
        dec = term_has(hi, by_one)
        ok = not excl or dec
        ctor = strip_generics(callee_res(t)).rsplit('::', 2)
        ctor = ctor[-1] if ctor[-1] != 'new' else '::'.join(ctor[-2:])
        rep.check(ok, rid, '%s/%s#%d' % (b.key, ctor if ctor != 'range_inclusive' else 'range_inclusive', n), 'end = %s' % term_str(hi)[:80],
                  'inclusive range (.., %s): an exclusive bound (%s) is used as an inclusive end without "- 1": the first sequence number after the range is covered too '
                  '(a still relevant change would be declared irrelevant)' % (term_str(hi)[:60], ', '.join(excl)), b.where(bb))
    rep.floor(rid, n, 4, 'constructions of inclusive sequence-/fragment-number ranges')


def rule_01_9(rep, fx):
    """Source timestamp and writer identity of a sample are message-scoped receiver state: set by INFO_TS / the header of the same message, never left over from an earlier one."""
    rep.rule('R01.9', 'message-scoped receiver state: MessageReceiver.source_timestamp / source_guid_prefix are written only by reset(), the message header and the INFO_TS / INFO_SRC '
                      'handler (timestamp := the submessage\'s own Option, so an invalidating INFO_TS clears it); every received packet passes reset() before its first submessage; the state '
                      'handed to the Reader copies both fields; handle_data_msg / handle_datafrag_msg take the sample\'s source timestamp from that state')
    MR = 'rtps::message_receiver::MessageReceiver'
    allowed = {MR + '::reset', MR + '::handle_parsed_message', MR + '::handle_interpreter_submessage', MR + '::new'}
    writers = {}
    for b in fx.bodies:
        for bb, si, st in b.statements():
            if st['s'] == 'assign' and st['lhs'].get('p'):
                last = st['lhs']['p'][-1]
                if isinstance(last, dict) and last.get('n') in ('source_timestamp', 'source_guid_prefix') and str(last.get('adt', '')).endswith('message_receiver::MessageReceiver'):
                    writers.setdefault(b.key, []).append((last['n'], bb, si))
    extra = sorted(k for k in writers if k not in allowed)
    rep.check(bool(writers) and not extra, 'R01.9', 'MessageReceiver/state-writers', 'written only by %s' % sorted(k.rsplit('::', 1)[-1] for k in writers),
              'MessageReceiver.source_timestamp / source_guid_prefix is also written by %s' % extra, '')
    # INFO_TS: timestamp := field `timestamp` of the submessage
    hi = fx.find(MR + '::handle_interpreter_submessage')
    rep.analysed(hi)
    og = Origins(hi)
    vals = []
    for n, bb, si in writers.get(hi.key, []):
        if n == 'source_timestamp':
            st = hi.blocks[bb]['st'][si]
            vals.append(og._rvalue(st['rv'], bb, si, 0))
    ok_ts = any(term_has(v, lambda x: x[0] == 'field' and x[1] == 'timestamp' and term_has(x, lambda y: y[0] == 'variant' and y[1] == 'InfoTimestamp')) for v in vals) and \
        all(term_has(v, lambda x: x[0] == 'field' and x[1] == 'timestamp') or (v[0] == 'agg' and str(v[1]).endswith('Option::None')) for v in vals)
    # ... unconditionally inside the InfoTimestamp arm
    Ph = Pos(hi)
    arm = [(s_, t_) for s_, t_, cond, lab in switch_edges(hi, fx, og) if lab == 'InfoTimestamp']
    ts_stores = [(bb, si) for n, bb, si in writers.get(hi.key, []) if n == 'source_timestamp']
    for s_, t_ in arm:
        for r in hi.return_blocks():
            if Ph.can_reach((t_, 0), (r, 'term'), avoid_pos=ts_stores):
                ok_ts = False
    ok_ts = ok_ts and bool(arm)
    rep.check(ok_ts, 'R01.9', 'handle_interpreter_submessage/info-ts', 'source_timestamp := InfoTimestamp.timestamp (None when invalidated)',
              'the INFO_TS handler does not store the submessage\'s own timestamp option (%s)' % [term_str(v)[:50] for v in vals], hi.where())
    # reset() clears both on every path
    rs = fx.find(MR + '::reset')
    rep.analysed(rs)
    ogr = Origins(rs)
    Pr = Pos(rs)
    cleared = {}
    for n, bb, si in writers.get(rs.key, []):
        v = ogr._rvalue(rs.blocks[bb]['st'][si]['rv'], bb, si, 0)
        good = (n == 'source_timestamp' and v[0] == 'agg' and str(v[1]).endswith('Option::None')) or (n == 'source_guid_prefix' and 'UNKNOWN' in str(v))
        if good and all(Pr.every_path_passes(None, (r, 'term'), via_pos=[(bb, si)], from_entry=True) for r in rs.return_blocks()):
            cleared[n] = True
    rep.check(cleared == {'source_timestamp': True, 'source_guid_prefix': True}, 'R01.9', 'reset/clears', 'reset(): source_timestamp := None, source_guid_prefix := UNKNOWN',
              'MessageReceiver::reset does not clear %s: a sample in a later datagram without INFO_TS inherits the timestamp (or source) of an earlier datagram' % sorted(
                  {'source_timestamp', 'source_guid_prefix'} - set(cleared)), rs.where())
    # every packet passes reset() before any submessage is handled
    hp = fx.find(MR + '::handle_received_packet')
    pm = fx.find(MR + '::handle_parsed_message')
    rep.analysed(hp, pm)
    ok_reset = False
    for b in (hp, pm):
        P = Pos(b)
        resets = [(bb, 'term') for bb, t in b.calls() if callee_res(t).endswith('MessageReceiver::reset')]
        subs = [(bb, 'term') for bb, t in b.calls() if callee_res(t).endswith(('handle_submessage', 'handle_parsed_message', 'handle_writer_submessage', 'handle_reader_submessage', 'handle_interpreter_submessage'))]
        if resets and subs and all(P.every_path_passes(None, s_, via_pos=resets, from_entry=True) for s_ in subs):
            ok_reset = True
    rep.check(ok_reset, 'R01.9', 'handle_received_packet/reset-first', 'reset() precedes the handling of the first submessage',
              'a received packet can be processed without reset(): timestamp / source of the previous datagram leak into its samples', hp.where())
    cp = fx.find(MR + '::clone_partial_message_receiver_state')
    ogc = Origins(cp)
    okc = False
    for bb, si, st in cp.statements():
        if st['s'] == 'assign' and st['rv']['r'] == 'agg' and str(st['rv'].get('adt')).endswith('MessageReceiverState'):
            f = dict(zip(st['rv']['fields'], [ogc.of_operand(o, bb, si) for o in st['rv']['ops']]))
            okc = f.get('source_timestamp') == ('field', 'source_timestamp', ('param', 1)) and f.get('source_guid_prefix') == ('field', 'source_guid_prefix', ('param', 1))
    rep.check(okc, 'R01.9', 'clone_partial_message_receiver_state/fields', 'source_timestamp and source_guid_prefix copied from the same-named fields',
              'the state handed to the Reader does not carry the receiver\'s source_timestamp / source_guid_prefix', cp.where())
    for nm in ('handle_data_msg', 'handle_datafrag_msg'):
        b = fx.find('rtps::reader::Reader::' + nm)
        rep.analysed(b)
        ogb = Origins(b)
        okb = False
        for bb, t in b.calls():
            if callee_res(t).endswith('WriteOptionsBuilder::source_timestamp'):
                a = ogb.of_operand(t['args'][1], bb, 'term')
                okb = okb or term_has(a, lambda x: x[0] == 'field' and x[1] == 'source_timestamp' and term_has(x, lambda y: y[0] == 'param'))
        rep.check(okb, 'R01.9', '%s/source-timestamp' % nm, 'WriteOptions.source_timestamp from mr_state.source_timestamp',
                  'Reader::%s does not take the sample\'s source timestamp from the message receiver state' % nm, b.where())


def rule_reliable_window(rep, fx, rid):
    """Bounds of the reliable hand-over window (shared: C01 R01.1, C06 R06.4: with both bounds excluded, start == end makes BTreeMap::range panic)."""
    g = fx.find('structure::dds_cache::TopicCache::get_changes_in_range_reliable')
    rep.analysed(g)
    n = 0
    for c in fx.closures_of(g):
        og = Origins(c, summaries=True)
        for bb, t in c.calls():
            if not callee_res(t).endswith('::range'):
                continue
            n += 1
            rep.analysed(c)
            a = resolve_captures(fx, c, og.of_operand(t['args'][1], bb, 'term'))
            ok = a[0] == 'agg' and a[1] == 'tuple' and len(a[2]) == 2
            lo = hi = None
            if ok:
                lo_b, hi_b = a[2]
                ok = lo_b[0] == 'agg' and lo_b[1].endswith('Bound::Excluded') and hi_b[0] == 'agg' and hi_b[1].endswith('Bound::Excluded')
                if ok:
                    lo, hi = lo_b[2][0], hi_b[2][0]
            rep.check(ok, rid, 'get_changes_in_range_reliable/bounds-kind', '(Excluded(lo), Excluded(hi))',
                      'the reliable window is not exclusive on both ends: Included(lo) re-delivers the last sample read, Included(hi) delivers past the reliable marker', c.where(bb))
            if lo is not None:
                ok_lo = has_call(lo, '::unwrap_or') and has_field(lo, 'last_read_sn') or (has_call(lo, '::unwrap_or') and term_has(lo, lambda x: x[0] == 'captured' and x[1] == 'last_read_sn'))
                ok_lo = ok_lo and (has_call(lo, 'SequenceNumber::zero') or term_has(lo, lambda x: x == ('const', 'int', 0)))
                rep.check(ok_lo, rid, 'get_changes_in_range_reliable/lower', 'lo = last_read_sn.get(guid) | zero', 'the lower bound is not the per-writer read pointer (or zero): %s' % term_str(lo)[:120], c.where(bb))
                ok_hi = hi[0] == 'call' and hi[1].endswith('cmp::max') and any(has_call(x, 'reliable_before') or has_field(x, 'received_reliably_before') for x in hi[2]) and \
                    any(has_call(x, 'plus_1') and (has_field(x, 'last_read_sn') or term_has(x, lambda y: y[0] == 'captured' and y[1] == 'last_read_sn')) for x in hi[2])
                rep.check(ok_hi, rid, 'get_changes_in_range_reliable/upper', 'hi = max(reliable_before(guid), lo + 1)',
                          'the upper bound is not max(reliable_before(guid), lo+1): samples past a hole could be handed over (%s)' % term_str(hi)[:140], c.where(bb))
    rep.floor(rid, n, 1, 'range() over the per-writer sequence-number map')
    rb = fx.find('structure::dds_cache::TopicCache::reliable_before')
    og = Origins(rb, summaries=True)
    t0 = og.of_local(0, rb.return_blocks()[0], 'term')
    rep.check(has_field(t0, 'received_reliably_before') and term_has(t0, lambda x: x == ('param', 2)), rid, 'reliable_before/lookup',
              'received_reliably_before.get(writer) | default', 'reliable_before does not look the marker up by the given writer', rb.where())


def rule_stored(rep, fx):
    """From the accepted DATA to the two indexes of the topic cache the reliable query reads (mutation triage: deleting the add_change call, or the marker update after it,
    left every check silent - R01.1..R01.5 constrain how the stores are read and what may be written, not that the write happens)."""
    rep.rule('R01.15', 'a received sample is stored under its number and the marker follows: make_cache_change hands CacheChange::new(writer_guid, writer_sn, write_options, data) of '
                       'its own parameters with its receive timestamp to TopicCache::add_change on every path and, unless stateless-like, updates the marker of that writer from '
                       'its proxy (mark_reliably_received_before(writer_guid, proxy.all_ackable_before())); add_change is add_change_internal of the same arguments; for a number '
                       'not yet known (find_by_sn = None) add_change_internal records (writer_guid, sequence_number) -> instant in sequence_numbers (insert_sn) and instant -> '
                       'change in changes on every path, and for a known number it records nothing (at most once)')
    TC = 'structure::dds_cache::TopicCache::'
    m = fx.find('rtps::reader::Reader::make_cache_change')
    rep.analysed(m)
    og = Origins(m, summaries=False)
    P = Pos(m)
    names = param_names(m)
    want = [k for nm in ('writer_guid', 'writer_sn', 'write_options', 'data') for k, v in names.items() if v == nm]
    ts = [k for k, v in names.items() if v == 'receive_timestamp']
    adds = []
    for bb, t in m.calls():
        if call_matches(t, 'TopicCache::add_change'):
            cc = og.of_operand(t['args'][2], bb, 'term')
            when = _unref(og.of_operand(t['args'][1], bb, 'term'))
            good = cc[0] == 'call' and cc[1].endswith('CacheChange::new') and [a for a in cc[2]] == [('param', k) for k in want] and len(want) == 4 and ts and when == ('param', ts[0])
            adds.append((bb, good))
    ok = len(adds) == 1 and adds[0][1] and all(P.every_path_passes(None, (r, 'term'), via_pos=[(adds[0][0], 'term')], from_entry=True) for r in m.return_blocks())
    rep.check(ok, 'R01.15', 'make_cache_change/stored', 'add_change(receive_timestamp, CacheChange::new(writer_guid, writer_sn, write_options, data)) on every path',
              'make_cache_change does not put the received change (writer, number, options and data as handed in) into the topic cache on every path: the sample is acknowledged '
              'and never handed over', m.where(adds[0][0]) if adds else m.where())
    edges = list(switch_edges(m, fx, og))
    stateful = [(s_, t_) for s_, t_, cond, lab in edges if (cond == ('field', 'like_stateless', ('param', 1)) and lab is False) or
                (cond[0] == 'un' and cond[1] == 'Not' and cond[2] == ('field', 'like_stateless', ('param', 1)) and lab is True)]
    marks = []
    for c in fx.closures_of(m):
        ogc = Origins(c, summaries=False)
        for bb, t in c.calls():
            if call_matches(t, 'TopicCache::mark_reliably_received_before'):
                g = resolve_captures(fx, c, ogc.of_operand(t['args'][1], bb, 'term'), summaries=False)
                x = ogc.of_operand(t['args'][2], bb, 'term')
                gp = [k for k, v in names.items() if v == 'writer_guid']
                if term_has(g, lambda y: gp and y == ('param', gp[0])) and x[0] == 'call' and x[1].endswith('all_ackable_before') and _unref(x[2][0]) == ('param', 2):
                    marks.append(c.key)
    maps = []
    for bb, t in m.calls():
        if callee_res(t).endswith('Option::<T>::map') or callee_res(t).endswith(('::map', '::inspect')):
            rc = og.of_operand(t['args'][0], bb, 'term')
            cl = str(og.of_operand(t['args'][1], bb, 'term'))
            if rc[0] == 'call' and rc[1].endswith('matched_writer') and any(k in cl for k in marks):
                gp = [k for k, v in names.items() if v == 'writer_guid']
                if gp and _unref(rc[2][1]) == ('param', gp[0]):
                    maps.append((bb, 'term'))
    # the direct form: if let Some(wp) = self.matched_writer(writer_guid) { tc.mark_reliably_received_before(writer_guid, wp.all_ackable_before()) }
    gp = [k for k, v in names.items() if v == 'writer_guid']
    for bb, t in m.calls():
        if call_matches(t, 'TopicCache::mark_reliably_received_before') and gp:
            g = _unref(og.of_operand(t['args'][1], bb, 'term'))
            x = og.of_operand(t['args'][2], bb, 'term')
            if g == ('param', gp[0]) and x[0] == 'call' and x[1].endswith('all_ackable_before') and \
                    term_has(x, lambda y: y[0] == 'call' and y[1].endswith('matched_writer') and _unref(y[2][1]) == ('param', gp[0])):
                found_e = [(s_, t_) for s_, t_, cond, lab in edges if lab == 'Some' and cond[0] == 'discr' and cond[1][0] == 'call' and cond[1][1].endswith('matched_writer')]
                # reached on every path on which the proxy exists
                if found_e and not any(P.can_reach((t_, 0), (r, 'term'), avoid_pos=[(bb, 'term')]) for s_, t_ in found_e for r in m.return_blocks()):
                    marks.append('direct')
                    look = [(lb, 'term') for lb, lt in m.calls() if call_matches(lt, 'Reader::matched_writer')]
                    maps.extend(look)
    okm = bool(stateful) and bool(marks) and bool(maps)
    for s_, t_ in stateful:
        for r in m.return_blocks():
            if P.can_reach((t_, 0), (r, 'term'), avoid_pos=maps):
                okm = False
    rep.check(okm, 'R01.15', 'make_cache_change/marker-follows', 'stateful => matched_writer(writer_guid).map(|wp| mark_reliably_received_before(writer_guid, wp.all_ackable_before()))',
              'after storing a sample make_cache_change does not move the reliable marker of that writer to its proxy\'s frontier on every path of a stateful reader: in-order '
              'samples sit in the cache until some later HEARTBEAT or GAP happens to move the marker', m.where())
    a = fx.find(TC + 'add_change')
    rep.analysed(a)
    og = Origins(a, summaries=False)
    P = Pos(a)
    ai = [(bb, 'term') for bb, t in a.calls() if call_matches(t, 'TopicCache::add_change_internal') and
          [_unref(og.of_operand(x, bb, 'term')) for x in t['args']] == [('param', 1), ('param', 2), ('param', 3)]]
    ok = len(ai) == 1 and all(P.every_path_passes(None, (r, 'term'), via_pos=ai, from_entry=True) for r in a.return_blocks())
    rep.check(ok, 'R01.15', 'add_change/forwards', 'add_change_internal(self, instant, cache_change) on every path', 'TopicCache::add_change does not forward its arguments to add_change_internal on every path', a.where())
    i = fx.find(TC + 'add_change_internal')
    rep.analysed(i)
    og = Origins(i, summaries=False)
    P = Pos(i)
    edges = list(switch_edges(i, fx, og))
    new_e = [(s_, t_) for s_, t_, cond, lab in edges if lab == 'None' and cond[0] == 'discr' and cond[1][0] == 'call' and cond[1][1].endswith('find_by_sn') and _unref(cond[1][2][1]) == ('param', 3)]
    dup_e = [(s_, t_) for s_, t_, cond, lab in edges if lab == 'Some' and cond[0] == 'discr' and cond[1][0] == 'call' and cond[1][1].endswith('find_by_sn')]
    isn = [(bb, 'term') for bb, t in i.calls() if call_matches(t, 'TopicCache::insert_sn') and _unref(og.of_operand(t['args'][1], bb, 'term')) == ('param', 2) and _unref(og.of_operand(t['args'][2], bb, 'term')) == ('param', 3)]
    ich = [(bb, 'term') for bb, t in i.calls() if callee_res(t).endswith('::insert') and og.of_operand(t['args'][0], bb, 'term') == ('field', 'changes', ('param', 1)) and
           _unref(og.of_operand(t['args'][1], bb, 'term')) == ('param', 2) and _unref(og.of_operand(t['args'][2], bb, 'term')) == ('param', 3)]
    ok = len(new_e) == 1 and len(dup_e) == 1 and len(isn) == 1 and len(ich) == 1
    why = 'shape (%d/%d/%d/%d)' % (len(new_e), len(dup_e), len(isn), len(ich))
    if ok:
        for r in i.return_blocks():
            if P.can_reach((new_e[0][1], 0), (r, 'term'), avoid_pos=isn) or P.can_reach((new_e[0][1], 0), (r, 'term'), avoid_pos=ich):
                ok = False
                why = 'a new number can return without both inserts'
        if any(P.can_reach((dup_e[0][1], 0), x) for x in isn + ich):
            ok = False
            why = 'a known number is inserted again'
        if not (P.every_path_passes(None, isn[0], via_edges=new_e, from_entry=True) and P.every_path_passes(None, ich[0], via_edges=new_e, from_entry=True)):
            ok = False
            why = 'an insert is reachable without the find_by_sn test'
    rep.check(ok, 'R01.15', 'add_change_internal/indexes', 'unknown number => insert_sn(instant, change) and changes.insert(instant, change); known number => nothing',
              'add_change_internal does not keep its two indexes (%s): a sample that is in one and not in the other is never returned by the reliable query, or a duplicate is '
              'stored twice' % why, i.where())
    s_ = fx.find(TC + 'insert_sn')
    rep.analysed(s_)
    og = Origins(s_, summaries=False)
    ins = [(bb, t) for bb, t in s_.calls() if callee_res(t).endswith('::insert')]
    ok = len(ins) == 1
    if ok:
        bb, t = ins[0]
        recv, k, v = (og.of_operand(x, bb, 'term') for x in t['args'])
        ok = term_has(recv, lambda y: y[0] == 'call' and y[1].endswith('::entry') and y[2][0] == ('field', 'sequence_numbers', ('param', 1)) and _unref(y[2][1]) == ('field', 'writer_guid', ('param', 3))) and \
            _unref(k) == ('field', 'sequence_number', ('param', 3)) and _unref(v) == ('param', 2) and \
            all(Pos(s_).every_path_passes(None, (r, 'term'), via_pos=[(bb, 'term')], from_entry=True) for r in s_.return_blocks())
    rep.check(ok, 'R01.15', 'insert_sn/keyed', 'sequence_numbers[cc.writer_guid][cc.sequence_number] = instant', 'insert_sn does not file the instant under the writer and sequence number of the change', s_.where())


def _unref(t):
    while isinstance(t, tuple) and t and t[0] in ('ref', 'deref', 'copy') and len(t) > 1 and isinstance(t[1], tuple):
        t = t[1]
    return t


def rule_marker_ownership(rep, fx):
    """Whose frontier is the marker? (raised F25, a known finding: one TopicCache per topic name serves every Reader of the participant, and the marker in it is keyed
    by the writer alone.)"""
    rep.rule('R01.19', 'the reliable marker a DataReader is served by is the frontier of its own Reader: either a TopicCache is never shared between Readers, or the cell '
                       'mark_reliably_received_before writes is keyed by something that identifies the Reader as well as the writer. Decided structurally: DDSCache hands out one '
                       'Arc per topic name (entry(..).or_insert(..) followed by clone()), the callers of mark_reliably_received_before pass the frontier of a Reader-local writer '
                       'proxy, and the key of the insert is compared with the parameters of the function')
    ac = fx.find('structure::dds_cache::DDSCache::add_new_topic')
    rep.analysed(ac)
    og = Origins(ac, summaries=False)
    shared = any(callee_res(t).rsplit('::', 1)[-1] in ('or_insert', 'or_insert_with', 'or_default') for _, t in ac.calls()) and \
        term_has(og.of_local(0, ac.return_blocks()[0], 'term'), lambda x: x[0] == 'call' and x[1].rsplit('::', 1)[-1] in ('or_insert', 'or_insert_with', 'or_default', 'entry'))
    mk = fx.find('structure::dds_cache::TopicCache::mark_reliably_received_before')
    ogm = Origins(mk, summaries=False)
    key_params = set()
    n_ins = 0
    for bb, t in mk.calls():
        if callee_res(t).endswith('::insert') and has_field(ogm.of_operand(t['args'][0], bb, 'term'), 'received_reliably_before'):
            n_ins += 1
            k = ogm.of_operand(t['args'][1], bb, 'term')
            key_params |= {x[1] for x in term_leaves(k) if x[0] == 'param'}
    names = param_names(mk)
    # value = frontier of a proxy owned by the calling Reader
    local_frontier = 0
    for b in fx.bodies:
        if not b.key.startswith('rtps::reader::Reader::'):
            continue
        ogb = None
        for bb, t in b.calls():
            if call_matches(t, 'TopicCache::mark_reliably_received_before'):
                ogb = ogb or Origins(b, summaries=True)
                v = ogb.of_operand(t['args'][2], bb, 'term')
                if b.kind == 'closure':
                    v = resolve_captures(fx, b, v, summaries=True)
                if term_has(v, lambda x: (x[0] == 'field' and x[1] == 'ack_base') or (x[0] == 'call' and x[1].endswith('all_ackable_before'))):
                    local_frontier += 1
    only_writer = n_ins >= 1 and key_params <= {k for k, v in names.items() if v in ('writer', 'writer_guid')}
    ok = not (shared and only_writer and local_frontier > 0)
    rep.check(ok, 'R01.19', 'TopicCache::mark_reliably_received_before/marker-shared-by-readers',
              'cache per Reader, or marker keyed by (reader, writer)',
              'the reliable marker is one cell per writer in a TopicCache that every Reader of the topic in the participant shares (DDSCache::add_new_topic returns the existing '
              'Arc), and %d call sites store the frontier of their own writer proxy into it: a GAP or HEARTBEAT that moves one Reader forward (a GAP addressed to that Reader only, '
              'e.g. for samples written for another reader, or a late joiner) makes every other DataReader of the topic skip samples it has not received yet, and a slower Reader '
              'moves the marker back' % local_frontier, mk.where())
    rep.floor('R01.19', local_frontier, 4, 'mark_reliably_received_before call sites in rtps::Reader fed from the Reader\'s own writer proxy')
