"""C19  Only CA-issued identities authenticate; forgeries cannot block them.

Pairing (state swapped out of the handshake machine is written back on every exit) and
dominance (verification calls dominate every transition to a trusted state) on the
security-feature MIR. X.509 chain semantics, DH and the signature algorithms are not decided.
"""
from rdv.core import (CheckBroken, Origins, Pos, call_matches, callee_res, infeasible_edges, norm_path, primary_edges, resolve_captures,
                      strip_generics, switch_edges, term_has, term_leaves, term_str)

CONFIGS = ['security']
LEVEL = 'other'

AUTH = 'security::authentication::authentication_builtin::'


def has_call(t, suffix):
    return term_has(t, lambda x: x[0] == 'call' and x[1].endswith(suffix))


def has_field(t, name):
    return term_has(t, lambda x: x[0] == 'field' and x[1] == name)


def find_method(fx, name):
    bs = [b for b in fx.bodies if b.name == name and b.key.startswith(AUTH) and b.kind in ('fn', 'assoc_fn')]
    if len(bs) != 1:
        raise CheckBroken('%s not found uniquely in authentication_builtin (%d)' % (name, len(bs)))
    return bs[0]


def ok_edges_of(edges, callee_suffix, extra=None):
    """Continue/Ok edges of `?`/match applied (possibly through map_err) to a call of callee_suffix."""
    out = []
    for s_, t_, cond, lab in edges:
        if lab in ('Continue', 'Ok') and cond[0] == 'discr':
            base = cond[1]
            while base[0] == 'call' and base[1].endswith(('::map_err', 'Try::branch')):
                base = base[2][0]
            if base[0] == 'call' and base[1].endswith(callee_suffix):
                if extra is None or extra(base):
                    out.append((s_, t_))
    return out


def eq_edges_of(edges, field):
    """Edges on which `<state>.field == <message>.field` holds (false edge of ne / true edge of eq)."""
    out = []
    for s_, t_, cond, lab in edges:
        if cond[0] == 'call' and cond[1].endswith(('::ne', '::eq')) and len(cond[2]) == 2:
            a, b = cond[2]
            if has_field(a, field) and has_field(b, field):
                # one side from the stored state, the other from the received token
                sa = term_has(a, lambda x: x[0] == 'variant' and x[1].startswith('Pending'))
                sb = term_has(b, lambda x: x[0] == 'variant' and x[1].startswith('Pending'))
                if sa != sb:
                    if (cond[1].endswith('::ne') and lab is False) or (cond[1].endswith('::eq') and lab is True):
                        out.append((s_, t_))
    return out


def peer_edges_of(edges):
    """Edges on which the participant GUID (prefix) inside the received c.pdata equals the GUID prefix remembered for the remote participant the handshake is with."""
    out = []
    for s_, t_, cond, lab in edges:
        if cond[0] == 'call' and cond[1].endswith(('::ne', '::eq')) and len(cond[2]) == 2:
            a, b = cond[2]
            for x, y in ((a, b), (b, a)):
                if has_field(x, 'participant_guid') and has_call(x, 'from_pl_cdr_bytes') and has_field(y, 'guid_prefix') and not has_call(y, 'from_pl_cdr_bytes'):
                    if (cond[1].endswith('::ne') and lab is False) or (cond[1].endswith('::eq') and lab is True):
                        out.append((s_, t_))
    return out


CHECK_NAMES = ('ca', 'guid', 'sig', 'c1', 'c2', 'peer')


def _local_check_edges(fx, b, edges):
    """Success edges of the five verification steps that are taken inside body `b` itself (captures of a closure resolved into its parent)."""
    if b.kind in ('closure', 'coroutine'):
        edges = [(s_, t_, resolve_captures(fx, b, cond), lab) for s_, t_, cond, lab in edges]
    return {
        'ca': ok_edges_of(edges, 'Certificate::verify_signed_by_certificate', lambda c: has_field(c[2][1], 'identity_ca')),
        'guid': ok_edges_of(edges, 'validate_remote_guid'),
        'sig': ok_edges_of(edges, 'Certificate::verify_signed_data_with_algorithm'),
        'c1': eq_edges_of(edges, 'challenge1'),
        'c2': eq_edges_of(edges, 'challenge2'),
        'peer': peer_edges_of(edges),
    }


def _ok_results(b):
    return [(bb, si) for bb, si, st in b.statements() if st['s'] == 'assign' and st['lhs']['l'] == 0 and not st['lhs'].get('p')
            and st['rv']['r'] == 'agg' and st['rv'].get('variant') == 'Ok']


def guaranteed_by(fx, k, rep=None):
    """Verification steps a Result-returning closure guarantees: X is guaranteed iff every path from its entry to an Ok(..) result passes a success edge of X."""
    ogk = Origins(k, summaries=True)
    ek = list(switch_edges(k, fx, ogk))
    infk = infeasible_edges(k, fx, ogk, ek)
    loc = _local_check_edges(fx, k, ek)
    oks = _ok_results(k)
    Pk = Pos(k)
    out = set()
    if not oks:
        return out
    for x in CHECK_NAMES:
        if loc[x] and all(Pk.every_path_passes(None, o, via_edges=list(loc[x]) + list(infk), from_entry=True) for o in oks):
            out.add(x)
    if rep is not None:
        rep.analysed(k)
    return out


def check_edges(fx, b, og, edges, rep=None):
    """Success edges of the verification steps in `b`: taken in `b` itself, or the Ok edge of a call of a closure of `b` that guarantees the step
    (a verification phase wrapped in `(|| -> Result<..> { .. })()` so that its failure can be handled in one place)."""
    out = {x: list(v) for x, v in _local_check_edges(fx, b, edges).items()}
    memo = {}
    for s_, t_, cond, lab in edges:
        if lab in ('Continue', 'Ok') and cond[0] == 'discr':
            base = cond[1]
            while base[0] == 'call' and base[1].endswith(('::map_err', 'Try::branch')):
                base = base[2][0]
            if base[0] != 'call':
                continue
            ks = [k for k in fx.by_key.get(norm_path(base[1]), []) if k.kind == 'closure' and k.key.startswith(b.key + '::')]
            if len(ks) != 1:
                continue
            k = ks[0]
            if k.key not in memo:
                memo[k.key] = guaranteed_by(fx, k, rep)
            for x in memo[k.key]:
                out[x].append((s_, t_))
    return out


def _is_state_place(pl):
    names = [e.get('n') for e in (pl.get('p') or []) if isinstance(e, dict)]
    return names[-2:] == ['handshake', 'state'] or bool(names and names[-1] == 'state' and 'handshake' in names)


def state_restorers(fx):
    """Keys of plugin methods that store one of their parameters into handshake.state (and nothing else there)."""
    out = set()
    for b in fx.bodies:
        if not b.key.startswith(AUTH) or b.kind not in ('fn', 'assoc_fn'):
            continue
        st_sites = [(bb, si, st) for bb, si, st in b.statements() if st['s'] == 'assign' and _is_state_place(st['lhs'])]
        if not st_sites:
            continue
        ogb = Origins(b, summaries=True)
        if all(st['rv']['r'] == 'use' and term_leaves_are_params(ogb.of_operand(st['rv']['x'], bb, si)) for bb, si, st in st_sites):
            out.add(b.key)
    return out


def term_leaves_are_params(t):
    while t[0] in ('deref', 'ref', 'move', 'copy') and len(t) > 1 and isinstance(t[1], tuple):
        t = t[1]
    return t[0] == 'param'


def _is_swapped_out_state(v):
    """The local the state was swapped into (a `mut(..)` clobber of the dummy), or an aggregate of one Pending* variant whose every field comes from the same-named
    field of that local viewed as the same variant."""
    if v[0] == 'mutated':
        return True
    if v[0] == 'agg' and '::BuiltinHandshakeState::' in str(v[1]):
        variant = str(v[1]).rsplit('::', 1)[-1]
        ops = v[2]
        if not ops:
            return False
        for o in ops:
            name = o[0] if (isinstance(o, tuple) and len(o) == 2 and isinstance(o[0], str) and isinstance(o[1], tuple)) else None
            t = o[1] if name else o
            if not term_has(t, lambda x: x[0] == 'variant' and x[1] == variant):
                return False
            if name and not has_field(t, name):
                return False
        return True
    return False


def run(rep, facts, tier):
    fx = facts['security']
    rep.explanation = ('In the builtin authentication plugin: (pairing) the handshake state swapped out at the start of process_handshake is written back on every exit; '
                       '(dominance) every transition to a Completed* state and every computation of the shared secret lies behind the Ok continuations of the certificate-chain '
                       'check against the Identity CA, the GUID binding check, the challenge equalities and the signature verification of that arm; begin_handshake_reply '
                       'verifies the certificate and the GUID binding before leaving its state; no verification result is discarded.')
    rep.assume('X.509 chain verification, ECDH and signature algorithms are correct', 'replay across sessions beyond the challenge equalities is not decided')
    rep.rule('R19.1', 'state pairing: after mem::swap takes the handshake state out, every path to a return stores a state back into handshake.state')
    rep.rule('R19.2', 'verify before trust: every store of CompletedWithFinalMessage* and every compute_shared_secret is dominated by verify_signed_by_certificate(identity_ca) '
                      '(or the certificate verified in the previous step), validate_remote_guid, the equality of the certified GUID prefix (from c.pdata) with the prefix remembered for '
                      'the remote participant the handshake is with, the challenge equalities and the signature verification')
    rep.rule('R19.3', 'no verification result in the authentication module is discarded')

    ph = find_method(fx, 'process_handshake')
    rep.analysed(ph)
    og = Origins(ph, summaries=True)
    P = Pos(ph)
    edges = list(switch_edges(ph, fx, og))
    infeas = infeasible_edges(ph, fx, og, edges)
    chk = check_edges(fx, ph, og, edges, rep)

    # ---------------------------------------------------------------- R19.1
    swaps = [(bb, 'term') for bb, t in ph.calls() if callee_res(t).endswith('mem::swap') and
             (has_field(og.of_operand(t['args'][0], bb, 'term'), 'state') or has_field(og.of_operand(t['args'][1], bb, 'term'), 'state'))]
    if len(swaps) != 1:
        raise CheckBroken('process_handshake: expected one mem::swap on handshake.state, found %d' % len(swaps))
    stores = []
    for bb, si, st in ph.statements():
        if st['s'] == 'assign' and _is_state_place(st['lhs']):
            stores.append((bb, si))
    # helper methods that put a state handed to them back into handshake.state
    restorers = state_restorers(fx)
    restore_calls = [(bb, t) for bb, t in ph.calls() if norm_path(callee_res(t)) in restorers]
    for bb, t in restore_calls:
        stores.append((bb, 'term'))
    rets = [(r, 'term') for r in ph.return_blocks()]
    arm_edges = [(s_, t_, lab) for s_, t_, cond, lab in primary_edges(ph, edges)
                 if cond[0] == 'discr' and 'BuiltinHandshakeState' in (cond[2] or '')]
    if not arm_edges:
        raise CheckBroken('process_handshake: match on the handshake state not found')
    sw_blocks = set(s_ for s_, _t, _l in arm_edges)
    # exits between the swap and the match
    pre = any(P.can_reach(swaps[0], r, avoid_pos=stores + [(sb, 'term') for sb in sw_blocks], avoid_edges=infeas) for r in rets)
    rep.check(not pre, 'R19.1', 'process_handshake/pre-match', 'no exit between taking the state out and dispatching on it',
              'process_handshake can return (e.g. via `?`) after swapping the state out and before the match, leaving the dummy state PendingRequestSend behind', ph.where(swaps[0][0]))
    # An exit that leaves the dummy behind is tolerable only once the message has been proven genuine (behind the success of the signature
    # verification of that arm): a forged, altered, replayed or out-of-order message can then not take it.
    committed = list(infeas) + list(chk['sig'])
    seen_arms = set()
    for s_, tg, lab in sorted(set(arm_edges), key=lambda x: str(x[2])):
        name = lab if isinstance(lab, str) else 'other'
        if (name, tg) in seen_arms:
            continue
        seen_arms.add((name, tg))
        leak = [r for r in rets if P.can_reach((tg, 0), r, avoid_pos=stores, avoid_edges=committed) or P.norm((tg, 0)) == P.norm(r)]
        rep.check(not leak, 'R19.1', 'process_handshake/arm:%s' % name, 'every exit of the arm that a rejected message can take writes a state back',
                  'in state %s an exit of process_handshake (error returns / `?`) leaves the dummy state PendingRequestSend in place of the state that was swapped out: '
                  'after one rejected message the genuine handshake can never complete' % name, ph.where(tg))
    # what is put back is what was taken out
    for bb, t in restore_calls:
        v = og.of_operand(t['args'][-1], bb, 'term')
        ok = _is_swapped_out_state(v)
        rep.check(ok, 'R19.1', 'process_handshake/restores-what-was-taken@%d' % restore_calls.index((bb, t)), 'the state handed back is the one swapped out (or rebuilt field by field from it)',
                  'process_handshake hands back a state that is not the one it swapped out: %s' % term_str(v)[:200], ph.where(bb))

    # ---------------------------------------------------------------- R19.2
    ca_ok, guid_ok, sig_ok, c1_ok, c2_ok = chk['ca'], chk['guid'], chk['sig'], chk['c1'], chk['c2']
    n_sites = 0
    for bb, si, st in ph.statements():
        if st['s'] == 'assign' and st['rv']['r'] == 'agg' and (st['rv'].get('variant') or '').startswith('CompletedWithFinalMessage'):
            n_sites += 1
            variant = st['rv']['variant']
            if variant.endswith('Sent'):
                need = [('identity CA check of the peer certificate', ca_ok), ('GUID binding check', guid_ok), ('certified GUID is the GUID of this remote', chk['peer']), ('challenge1 echo', c1_ok), ('reply signature', sig_ok)]
            else:
                need = [('challenge1 echo', c1_ok), ('challenge2 echo', c2_ok), ('final signature', sig_ok)]
            for what, es in need:
                ok = bool(es) and P.every_path_passes(None, (bb, si), via_edges=es + infeas, from_entry=True)
                rep.check(ok, 'R19.2', 'process_handshake/%s/%s' % (variant, what.replace(' ', '-')), 'dominated by %s' % what,
                          'the handshake can reach %s without the %s having succeeded on every path' % (variant, what), ph.where(bb, si))
    rep.floor('R19.2', n_sites, 2, 'transitions to CompletedWithFinalMessage*')
    for bb, t in ph.calls():
        if callee_res(t).endswith('compute_shared_secret'):
            for what, es in (('signature verification', sig_ok), ('challenge1 echo', c1_ok)):
                ok = bool(es) and P.every_path_passes(None, (bb, 'term'), via_edges=es + infeas, from_entry=True)
                rep.check(ok, 'R19.2', 'process_handshake/shared-secret@%s/%s' % (ph.blocks[bb]['term'].get('line', 0) and 'site%d' % [b_ for b_, t_ in ph.calls() if callee_res(t_).endswith('compute_shared_secret')].index(bb), what.replace(' ', '-')),
                          'shared secret only after %s' % what, 'a shared secret can be computed without the %s having succeeded' % what, ph.where(bb))
    # the final-message arm trusts the certificate stored by begin_handshake_reply: check that one
    br = find_method(fx, 'begin_handshake_reply')
    rep.analysed(br)
    og2 = Origins(br, summaries=True)
    P2 = Pos(br)
    e2 = list(switch_edges(br, fx, og2))
    inf2 = infeasible_edges(br, fx, og2, e2)
    ca2 = ok_edges_of(e2, 'Certificate::verify_signed_by_certificate', lambda c: has_field(c[2][1], 'identity_ca'))
    guid2 = ok_edges_of(e2, 'validate_remote_guid')
    n2 = 0
    for bb, si, st in br.statements():
        if st['s'] == 'assign' and st['rv']['r'] == 'agg' and st['rv'].get('variant') == 'PendingFinalMessage':
            n2 += 1
            for what, es in (('identity CA check of the peer certificate', ca2), ('GUID binding check', guid2), ('certified GUID is the GUID of this remote', peer_edges_of(e2))):
                ok = bool(es) and P2.every_path_passes(None, (bb, si), via_edges=es + inf2, from_entry=True)
                rep.check(ok, 'R19.2', 'begin_handshake_reply/PendingFinalMessage/%s' % what.replace(' ', '-'), 'dominated by %s' % what,
                          'begin_handshake_reply can accept a request (state PendingFinalMessage) without the %s having succeeded' % what, br.where(bb, si))
            # the certificate remembered for the final step is the verified one
            v = og2.of_operand(st['rv']['ops'][st['rv']['fields'].index('remote_id_certificate')], bb, si)
            okc = has_call(v, 'Certificate::from_pem')
            rep.check(okc, 'R19.2', 'begin_handshake_reply/remembered-certificate', 'the certificate stored for the final step is the one parsed from the request',
                      'the certificate stored for verifying the final message is not the request certificate that was checked', br.where(bb, si))
    rep.floor('R19.2', n2, 1, 'transition to PendingFinalMessage')
    # the GUID prefix the comparison uses is the one validate_remote_identity was given for this remote
    vr = find_method(fx, 'validate_remote_identity')
    rep.analysed(vr)
    ogv = Origins(vr, summaries=True)
    okp = False
    for bb, si, st in vr.statements():
        if st['s'] == 'assign' and st['rv'].get('r') == 'agg' and (st['rv'].get('adt') or '').endswith('RemoteParticipantInfo') and 'guid_prefix' in (st['rv'].get('fields') or []):
            v = ogv.of_operand(st['rv']['ops'][st['rv']['fields'].index('guid_prefix')], bb, si)
            okp = v == ('param', 5)
    rep.check(okp, 'R19.2', 'validate_remote_identity/remembers-remote-guid', 'RemoteParticipantInfo.guid_prefix = the prefix validate_remote_identity was given',
              'validate_remote_identity does not remember the GUID prefix of the remote participant it creates the identity handle for: the handshake cannot tell whose GUID the '
              'certificate has to be bound to', vr.where())

    # ---------------------------------------------------------------- R19.3
    n_calls = 0
    targets = ('verify_signed_by_certificate', 'verify_signed_data_with_algorithm', 'validate_remote_guid', 'verify_signature')
    for b in fx.bodies:
        if not b.key.startswith('security::authentication::'):
            continue
        for bb, t in b.calls():
            if not call_matches(t, *targets):
                continue
            n_calls += 1
            d = t['dest']
            l = d['l']
            used = bool(d.get('p')) or l == 0
            for bb2 in b.live_blocks():
                blk = b.blocks[bb2]
                for st in blk['st']:
                    if st['s'] == 'assign' and _reads_local(st['rv'], l):
                        used = True
                tt = blk['term']
                if tt['t'] in ('call', 'tailcall') and any(a.get('o') in ('copy', 'move') and a['pl']['l'] == l for a in tt['args']):
                    used = True
                if tt['t'] == 'switch' and tt['x'].get('o') in ('copy', 'move') and tt['x']['pl']['l'] == l:
                    used = True
            # consumed by `?`/match: there must be a switch on its discriminant
            ogb = Origins(b, summaries=True)
            gated = any(lab in ('Continue', 'Ok', 'Break', 'Err') and cond[0] == 'discr' and term_has(cond, lambda x: x[0] == 'call' and len(x) > 3 and x[3] == bb)
                        for _s, _t, cond, lab in switch_edges(b, fx, ogb))
            rep.check(used and (gated or l == 0), 'R19.3', '%s/%s@%d' % (b.key, callee_res(t).rsplit('::', 1)[-1], n_calls), 'result decides control flow',
                      'the result of %s does not decide control flow (discarded or neutralised)' % callee_res(t).rsplit('::', 1)[-1], b.where(bb))
    rep.floor('R19.3', n_calls, 5, 'verification calls in security::authentication')

    # ------------------------------------------------------------ R19.4
    rule_19_4(rep, fx)
    rule_19_5(rep, fx)
    rule_19_7(rep, fx)
    rule_19_8(rep, fx)
    rule_19_9(rep, fx)
    rule_19_10(rep, fx)
    rule_19_11(rep, fx)

    # ------------------------------------------------------------ R19.6 crossed roles (shared lint, rdv/swaplint.py)
    from rdv import swaplint
    swaplint.run_rule(rep, facts['security'], 'R19.6', ['security::authentication', 'security::certificate'])


def _reads_local(rv, l):
    r = rv['r']
    ops = []
    if r in ('use', 'cast', 'repeat'):
        ops = [rv['x']]
    elif r == 'bin':
        ops = [rv['a'], rv['b']]
    elif r == 'un':
        ops = [rv['a']]
    elif r == 'agg':
        ops = rv['ops']
    elif r in ('ref', 'discr', 'rawptr'):
        return rv['pl']['l'] == l
    return any(o.get('o') in ('copy', 'move') and o['pl']['l'] == l for o in ops)


STATE_ADT = 'security::authentication::authentication_builtin::BuiltinHandshakeState'
EXPECTED_STATES = {
    'begin_handshake_request': {'PendingRequestSend'},
    'begin_handshake_reply': {'PendingRequestMessage'},
    'process_handshake': {'PendingReplyMessage', 'PendingFinalMessage'},
}


def rule_19_4(rep, fx):
    """Out-of-order / replayed messages: each handshake entry point may succeed only from the state(s) in which that message is expected."""
    rep.rule('R19.4', 'state guards: begin_handshake_request succeeds only from PendingRequestSend, begin_handshake_reply only from PendingRequestMessage, process_handshake only from '
                      'PendingReplyMessage / PendingFinalMessage: the set of handshake states from whose switch edge an Ok(..) result is reachable equals the expected set, and the '
                      'state switch is passed on every path to an Ok(..) result (a request replayed after the reply must not restart the exchange)')
    adt = fx.adt(STATE_ADT)
    if not adt:
        raise CheckBroken('BuiltinHandshakeState not in the ADT table')
    allv = set(v['name'] for v in adt['variants'])
    for name, expected in EXPECTED_STATES.items():
        bs = [b for b in fx.bodies if b.key.endswith('authentication::' + name) and 'authentication_builtin' in b.key]
        if len(bs) != 1:
            raise CheckBroken('%s: %d bodies' % (name, len(bs)))
        b = bs[0]
        rep.analysed(b)
        og = Origins(b)
        P = Pos(b)
        edges = list(switch_edges(b, fx, og))
        st_edges = [(s_, t_, cond, lab) for s_, t_, cond, lab in primary_edges(b, edges) if cond[0] == 'discr' and STATE_ADT in str(cond[2])]
        infeas = infeasible_edges(b, fx, og, edges)
        oks = [(bb, si) for bb, si, st in b.statements() if st['s'] == 'assign' and st['lhs']['l'] == 0 and not st['lhs'].get('p')
               and st['rv']['r'] == 'agg' and st['rv'].get('variant') == 'Ok']
        if not st_edges or not oks:
            rep.violation('R19.4', '%s/shape' % name, '%s: no switch on the handshake state (%d) or no Ok(..) result (%d) found' % (name, len(st_edges), len(oks)), b.where())
            continue
        switch_blocks = sorted(set(e[0] for e in st_edges))
        accepting = set()
        for s_, t_, cond, lab in st_edges:
            labs = {lab} if isinstance(lab, str) else (allv - set(lab[1]) if isinstance(lab, tuple) and lab[0] == 'not' else set())
            # `matches!(state, V)` lowers to: arm blocks set a bool, the join switches on it. Follow that one constant.
            extra = []
            consts = {}
            for st in b.blocks[t_]['st']:
                if st['s'] == 'assign' and not st['lhs'].get('p') and st['rv']['r'] == 'use' and st['rv']['x'].get('o') == 'const' and st['rv']['x']['k'].get('c') == 'int':
                    consts[st['lhs']['l']] = int(st['rv']['x']['k']['v'])
            if consts:
                for sb in b.live_blocks():
                    tt = b.blocks[sb]['term']
                    if tt['t'] == 'switch' and tt['x'].get('o') in ('copy', 'move') and not tt['x']['pl'].get('p') and tt['x']['pl']['l'] in consts:
                        v = consts[tt['x']['pl']['l']]
                        arm_vals = [a[0] for a in tt['arms']]
                        for a in tt['arms']:
                            if a[0] != v:
                                extra.append((sb, a[1]))
                        if v in arm_vals:
                            extra.append((sb, tt['otherwise']))
            if any(P.can_reach((t_, 0), o, avoid_edges=list(infeas) + extra) or P.norm((t_, 0)) == P.norm(o) for o in oks):
                accepting |= labs
        rep.check(accepting == expected, 'R19.4', '%s/accepting-states' % name, 'Ok reachable exactly from %s' % sorted(expected),
                  '%s can succeed from handshake state(s) %s; the message it handles is expected only in %s: a replayed or out-of-order message is accepted, overwrites the pending '
                  'exchange and the genuine handshake can no longer complete' % (name, sorted(accepting), sorted(expected)), b.where(switch_blocks[0]))
        dom = all(P.every_path_passes(None, o, via_pos=[(sb, 'term') for sb in switch_blocks], from_entry=True) for o in oks)
        rep.check(dom, 'R19.4', '%s/guard-dominates' % name, 'every Ok(..) result is behind the state switch',
                  '%s has a path to an Ok(..) result that does not test the handshake state' % name, b.where())


def rule_19_5(rep, fx):
    """GUID <-> certificate binding (DDS Security 9.3.3): the first 48 bits of the participant GUID are derived from the SHA-256 of the DER of the certificate's SUBJECT name."""
    rep.rule('R19.5', 'GUID binding input: guid_start_from_certificate hashes Certificate::subject_name_der(cert) of the certificate it is given, and subject_name_der encodes the '
                      'X.509 subject name (not the issuer or any other name); validate_remote_guid compares the announced GUID with that value for the presented certificate')
    sd = fx.find('security::certificate::Certificate::subject_name_der')
    rep.analysed(sd)
    og = Origins(sd)
    names = [callee_res(t) for _bb, t in sd.calls() if callee_res(t).startswith('x509_certificate::X509Certificate::')]
    encs = [(bb, t) for bb, t in sd.calls() if callee_res(t).endswith('::encode_ref')]
    ok = names == ['x509_certificate::X509Certificate::subject_name'] and len(encs) == 1 and \
        term_has(og.of_operand(encs[0][1]['args'][0], encs[0][0], 'term'), lambda x: x[0] == 'call' and x[1].endswith('X509Certificate::subject_name'))
    rep.check(ok, 'R19.5', 'Certificate::subject_name_der/subject', 'DER of X509Certificate::subject_name()',
              'Certificate::subject_name_der does not encode the certificate\'s subject name (it reads %s): the GUID is then bound to something every certificate of the same CA shares, '
              'and a participant can take over the GUID of another one' % [n.rsplit('::', 1)[-1] for n in names], sd.where())
    g = [x for x in fx.bodies if x.key.endswith('authentication::guid_start_from_certificate')]
    if len(g) != 1:
        raise CheckBroken('guid_start_from_certificate not found')
    g = g[0]
    rep.analysed(g)
    ogg = Origins(g)
    hashes = [(bb, t) for bb, t in g.calls() if callee_res(t).endswith('Sha256::hash')]
    okg = len(hashes) == 1 and term_has(ogg.of_operand(hashes[0][1]['args'][0], hashes[0][0], 'term'),
                                        lambda x: x[0] == 'call' and x[1].endswith('Certificate::subject_name_der') and x[2] and x[2][0] == ('param', 1))
    rep.check(okg, 'R19.5', 'guid_start_from_certificate/hash-input', 'SHA-256 of subject_name_der(the given certificate)',
              'guid_start_from_certificate does not hash the subject name DER of the certificate it was given', g.where())
    v = [x for x in fx.bodies if x.key.endswith('authentication::validate_remote_guid')]
    okv = False
    if len(v) == 1:
        rep.analysed(v[0])
        ogv = Origins(v[0])
        for bb, t in v[0].calls():
            if callee_res(t).endswith('::eq') or callee_res(t).endswith('::ne'):
                a = [ogv.of_operand(x, bb, 'term') for x in t['args']]
                if any(term_has(y, lambda z: z[0] == 'call' and z[1].endswith('guid_start_from_certificate')) for y in a) and any(term_has(y, lambda z: z[0] == 'param') and not
                       term_has(y, lambda z: z[0] == 'call' and z[1].endswith('guid_start_from_certificate')) for y in a):
                    okv = True
    rep.check(okv, 'R19.5', 'validate_remote_guid/compares', 'announced GUID start == guid_start_from_certificate(presented certificate)',
              'validate_remote_guid does not compare the announced GUID with the value derived from the presented certificate', v[0].where() if v else '')
    # ... and the comparison decides (mutation triage: `==` -> `!=` here and the deleted copy of the hash bytes below both survived): no Ok from the mismatch edge, every
    # Ok behind the match edge
    if len(v) == 1:
        vb = v[0]
        Pv = Pos(vb)
        ev = list(switch_edges(vb, fx, ogv))

        def _binding(cond):
            return cond[0] == 'call' and cond[1].endswith(('::eq', '::ne')) and term_has(cond, lambda z: z[0] == 'call' and z[1].endswith('guid_start_from_certificate'))
        match = [(s_, t_) for s_, t_, cond, lab in ev if _binding(cond) and lab is cond[1].endswith('::eq')]
        mism = [(s_, t_) for s_, t_, cond, lab in ev if _binding(cond) and lab is not cond[1].endswith('::eq')]
        oks = [(bb, si) for bb, si, st in vb.statements() if st['s'] == 'assign' and st['lhs']['l'] == 0 and not st['lhs'].get('p') and st['rv']['r'] == 'agg' and st['rv'].get('variant') == 'Ok']
        okd = bool(match) and bool(mism) and bool(oks) and all(Pv.every_path_passes(None, o, via_edges=match, from_entry=True) for o in oks) and \
            not any(Pv.can_reach((t_, 0), o) for s_, t_ in mism for o in oks)
        rep.check(okd, 'R19.5', 'validate_remote_guid/decides', 'Ok(()) only behind the match edge, never from the mismatch edge',
                  'validate_remote_guid answers Ok for a GUID that does not match the presented certificate (or not only for one that does): any participant can claim the GUID of '
                  'another', vb.where())
    # the six bytes returned are bytes of that hash
    Pg = Pos(g)
    cps = []
    for bb, t in g.calls():
        if callee_res(t).endswith('copy_from_slice') or callee_res(t).endswith('clone_from_slice'):
            src = ogg.of_operand(t['args'][1], bb, 'term')
            if term_has(src, lambda x: x[0] == 'call' and x[1].endswith('Sha256::hash')):
                cps.append((bb, 'term'))
    oks = [(bb, si) for bb, si, st in g.statements() if st['s'] == 'assign' and st['lhs']['l'] == 0 and not st['lhs'].get('p') and st['rv']['r'] == 'agg' and st['rv'].get('variant') == 'Ok']
    direct = [o for o in oks if term_has(ogg.of_operand(g.blocks[o[0]]['st'][o[1]]['rv']['ops'][0], o[0], o[1]), lambda x: x[0] == 'call' and x[1].endswith('Sha256::hash'))]
    okh = bool(oks) and all(o in direct or (cps and Pg.every_path_passes(None, o, via_pos=cps, from_entry=True)) for o in oks)
    rep.check(okh, 'R19.5', 'guid_start_from_certificate/output-is-hash', 'the value returned carries bytes of the subject-name hash on every path',
              'guid_start_from_certificate returns a value that is not filled from the hash of the subject name (e.g. the zero-initialised buffer): every certificate then maps to '
              'the same GUID start and the binding binds nothing', g.where())


TOKEN_CALLS = ('::extract_request', '::extract_reply', '::extract_final')


def _from_token(t):
    return term_has(t, lambda x: x[0] == 'call' and x[1].endswith(TOKEN_CALLS))


def rule_19_7(rep, fx):
    """Every comparison of a received token field with a locally stored / computed value decides: from its mismatch edge no Ok(..) result is reachable.
    And the hash of message 1 carried through the exchange by the replier is the one it computed itself."""
    rep.rule('R19.7', 'mismatch never succeeds: in begin_handshake_reply and process_handshake (verification closures included) every ==/!= between a field of the received '
                      'token and a locally stored or computed value leads, on its mismatch edge, only to error results; the hash(C1) that begin_handshake_reply signs, echoes and '
                      'stores is the one it computed over the received C1 fields (message 1 is unsigned: this hash is what binds its content to the later signatures)')
    n = 0
    for name in ('begin_handshake_reply', 'process_handshake'):
        top = find_method(fx, name)
        for b in [top] + [k for k in fx.closures_of(top) if k.kind == 'closure']:
            og = Origins(b, summaries=True)
            edges = list(switch_edges(b, fx, og))
            infeas = infeasible_edges(b, fx, og, edges)
            oks = _ok_results(b)
            P = Pos(b)
            seen = set()
            for s_, t_, cond, lab in edges:
                if not (cond[0] == 'call' and cond[1].endswith(('::eq', '::ne')) and len(cond[2]) == 2):
                    continue
                a, c = cond[2]
                if _from_token(a) == _from_token(c):
                    continue
                mismatch = (cond[1].endswith('::eq') and lab is False) or (cond[1].endswith('::ne') and lab is True)
                if not mismatch:
                    continue
                tok = a if _from_token(a) else c
                fld = [x for x in _fields_of(tok) if not str(x).isdigit()]
                key = '%s/%s' % (b.key.split('authentication::')[-1], fld[0] if fld else 'value')
                if key in seen:
                    continue
                seen.add(key)
                other = c if tok is a else a
                # a comparison that only chooses between two supported algorithms is not a verification (both outcomes are legitimate)
                if other[0] == 'const' and not term_has(other, lambda x: x[0] in ('field', 'call')):
                    continue
                n += 1
                leak = [o for o in oks if P.can_reach((t_, 0), o, avoid_edges=infeas) or P.norm((t_, 0)) == P.norm(o)]
                rep.check(not leak, 'R19.7', key + '/mismatch-rejects', 'the mismatch edge reaches no Ok(..) result',
                          '%s: the received %s is compared with the local value but a mismatch can still end in Ok(..): the comparison does not decide (an altered message is accepted)'
                          % (b.key.split('authentication::')[-1], fld[0] if fld else 'value'), b.where(s_))
    rep.floor('R19.7', n, 11, 'token-vs-local comparisons in the handshake functions')
    # provenance of the hash(C1) carried forward by the replier
    br = find_method(fx, 'begin_handshake_reply')
    og = Origins(br, summaries=True)
    m = 0
    for bb, si, st in br.statements():
        if st['s'] == 'assign' and st['rv']['r'] == 'agg' and st['rv'].get('variant') == 'PendingFinalMessage':
            v = og.of_operand(st['rv']['ops'][st['rv']['fields'].index('hash_c1')], bb, si)
            m += 1
            ok = has_call(v, 'Sha256::hash') and not _from_token_field(v, 'hash_c1')
            rep.check(ok, 'R19.7', 'begin_handshake_reply/stored-hash_c1', 'PendingFinalMessage.hash_c1 = Sha256::hash(received C1 fields)',
                      'begin_handshake_reply stores a hash_c1 that is (or may be) the one received in the unsigned request instead of the one computed over the received C1 fields: %s'
                      % term_str(v)[:160], br.where(bb, si))
    # the "hash_c1" property of the signed data and of the reply token
    for bb, t in br.calls():
        if callee_res(t).endswith('BinaryProperty::with_propagate') and len(t['args']) >= 2:
            nm = og.of_operand(t['args'][0], bb, 'term')
            if term_has(nm, lambda x: x[0] == 'const' and 'hash_c1' in str(x[-1])):
                v = og.of_operand(t['args'][1], bb, 'term')
                m += 1
                ok = has_call(v, 'Sha256::hash') and not _from_token_field(v, 'hash_c1')
                rep.check(ok, 'R19.7', 'begin_handshake_reply/signed-hash_c1', 'the "hash_c1" property of the signed reply content = Sha256::hash(received C1 fields)',
                          'begin_handshake_reply signs a hash_c1 that is (or may be) the received one: %s' % term_str(v)[:160], br.where(bb))
    rep.floor('R19.7', m, 2, 'uses of hash(C1) in begin_handshake_reply (state + signed content)')


def _fields_of(t):
    out = []

    def walk(x):
        if isinstance(x, tuple):
            if x and x[0] == 'field':
                out.append(x[1])
            for y in x:
                walk(y)
    walk(t)
    return out


def _from_token_field(t, field):
    return term_has(t, lambda x: x[0] == 'field' and x[1] == field and _from_token(x))


ECHOED = ('challenge1', 'challenge2', 'dh1', 'dh2', 'hash_c1', 'hash_c2')


def rule_19_8(rep, fx):
    """Echo completeness (sibling agreement of the two arms of process_handshake): everything the pending state remembers about the exchange and the received
    token echoes back is compared."""
    rep.rule('R19.8', 'echo completeness: for each pending state handled by process_handshake, every field of that state (challenge1/2, dh1/2 or their public part, hash_c1/2) '
                      'that the received token carries too is compared with the token\'s value (R19.7 makes the mismatch reject); the reply arm and the final arm thus check the '
                      'same kinds of echoes')
    adt = fx.adt(STATE_ADT)
    ph = find_method(fx, 'process_handshake')
    pairs = set()      # (variant, state field, token field)
    for b in [ph] + [k for k in fx.closures_of(ph) if k.kind == 'closure']:
        og = Origins(b, summaries=True)
        for s_, t_, cond, lab in switch_edges(b, fx, og):
            if not (cond[0] == 'call' and cond[1].endswith(('::eq', '::ne')) and len(cond[2]) == 2):
                continue
            c = resolve_captures(fx, b, cond) if b.kind == 'closure' else cond
            x, y = c[2]
            if _from_token(x) == _from_token(y):
                continue
            tok, loc = (x, y) if _from_token(x) else (y, x)
            tfs = [f for f in _fields_of(tok) if f in ECHOED]
            vs = []
            term_has(loc, lambda z: z[0] == 'variant' and str(z[1]).startswith('Pending') and not vs.append(z[1]))
            for v in vs:
                for sf in _fields_of(loc):
                    for tf in tfs:
                        pairs.add((v, sf, tf))
    n = 0
    for v in adt['variants']:
        if v['name'] not in EXPECTED_STATES['process_handshake']:
            continue
        for f in v['fields']:
            sf = f['name'] if isinstance(f, dict) else f
            tf = sf[:-len('_public')] if sf.endswith('_public') else sf
            if tf not in ECHOED:
                continue
            n += 1
            rep.check((v['name'], sf, tf) in pairs, 'R19.8', 'process_handshake/%s/%s' % (v['name'], sf), 'compared with the token\'s %s' % tf,
                      'process_handshake, state %s: the received token\'s `%s` is never compared with the `%s` remembered in the state, although the other echoes are: a message in '
                      'which only this value was replaced is accepted' % (v['name'], tf, sf), ph.where())
    rep.floor('R19.8', n, 9, 'echoed fields of the two pending states')


# ----------------------------------------------------------------------------- R19.9 (added after mutation round 4): the discovery-side driver of the handshake

SD = 'discovery::secure_discovery::SecureDiscovery::'

# state in which a handshake message arrives -> (handler, plugin call, outcome that means success, state afterwards, message sent back, remote authenticated now)
# (DDS Security 1.1 section 8.3.2.11.x, figure 10: request -> reply -> final)
DRIVER = {
    'PendingRequestMessage': ('handshake_on_pending_request_message', 'begin_handshake_reply', 'PendingHandshakeMessage', 'PendingFinalMessage', True, False),
    'PendingReplyMessage': ('handshake_on_pending_reply_message', 'process_handshake', 'OkFinalMessage', 'CompletedWithFinalMessageSent', True, True),
    'PendingFinalMessage': ('handshake_on_pending_final_message', 'process_handshake', 'Ok', 'CompletedWithFinalMessageReceived', False, True),
}


def _snake(name):
    out = ''
    for ch in name:
        out += ('_' + ch.lower()) if ch.isupper() and out else ch.lower()
    return out


def _agg_variant(t):
    for x in _subterms19(t):
        if x[0] == 'agg' and isinstance(x[1], str) and 'DiscHandshakeState::' in x[1]:
            return x[1].rsplit('::', 1)[-1]
    return None


def _subterms19(t):
    out = [t]
    if isinstance(t, tuple):
        for x in t[1:]:
            if isinstance(x, tuple):
                if x and isinstance(x[0], str):
                    out.extend(_subterms19(x))
                else:
                    for y in x:
                        if isinstance(y, tuple):
                            out.extend(_subterms19(y))
    return out


def rule_19_9(rep, fx):
    rep.rule('R19.9', 'the discovery-side driver follows the handshake: participant_stateless_message_read hands a handshake message to the handler of the state the exchange with that '
                      'remote is in (Pending<X>Message -> handshake_on_pending_<x>_message, PendingRequestSend -> a new request, CompletedWithFinalMessageSent -> the final message again, '
                      'otherwise nothing); each handler asks the plugin (begin_handshake_reply / process_handshake) and, exactly on the outcome that means success, sends and stores the '
                      'answer, moves to the next state (request -> PendingFinalMessage, reply -> CompletedWithFinalMessageSent, final -> CompletedWithFinalMessageReceived; the same '
                      'state the plugin stores) and reports the remote as authenticated only from the reply and final handlers; on any other result the state stays as it is and, where '
                      'an own message is waiting to be resent, a rejected message resets its resend counter (forgeries cannot use up the resends)')
    b = fx.find(SD + 'participant_stateless_message_read')
    rep.analysed(b)
    og = Origins(b, summaries=True)
    P = Pos(b)
    edges = list(switch_edges(b, fx, og))
    state_edges = [(s_, t_, lab) for s_, t_, cond, lab in edges if cond[0] == 'discr' and has_call(cond, 'get_handshake_state') and cond[1][0] != 'call']
    variants = [lab for _s, _t, lab in state_edges if isinstance(lab, str)]
    if len(variants) < 6:
        raise CheckBroken('R19.9: the match on the handshake state in participant_stateless_message_read has %d named arms, expected 6' % len(variants))
    # admission: the dispatch is reached exactly for handshake messages meant for this participant
    adm_cls = [(s_, t_) for s_, t_, cond, lab in edges if cond[0] == 'call' and cond[1].rsplit('::', 1)[-1] in ('eq', 'ne') and has_field(cond, 'message_class_id') and
               term_has(cond, lambda x: x[0] == 'const' and str(x[-1]).endswith('GMCLASSID_SECURITY_AUTH_HANDSHAKE')) and
               ((cond[1].endswith('eq') and lab is True) or (cond[1].endswith('ne') and lab is False))]
    adm_me = [(s_, t_) for s_, t_, cond, lab in edges if (cond[0] == 'call' and cond[1].endswith('is_stateless_msg_for_local_participant') and lab is True) or
              (cond[0] == 'un' and has_call(cond, 'is_stateless_msg_for_local_participant') and lab is False)]
    sw = sorted(set(s_ for s_, _t, _l in state_edges))
    okadm = bool(adm_cls) and bool(adm_me) and all(P.every_path_passes(None, (x, 'term'), via_edges=adm_cls, from_entry=True) and
                                                   P.every_path_passes(None, (x, 'term'), via_edges=adm_me, from_entry=True) for x in sw)
    # and nothing else keeps a handshake message for us from the dispatch
    rej = [(s_, t_) for s_, t_, cond, lab in edges if (s_, t_) not in adm_cls and (s_, t_) not in adm_me and
           ((cond[0] == 'call' and cond[1].rsplit('::', 1)[-1] in ('eq', 'ne') and has_field(cond, 'message_class_id')) or
            (cond[0] in ('call', 'un') and has_call(cond, 'is_stateless_msg_for_local_participant')) or (cond[0] == 'call' and cond[1].endswith('is_stateless_msg_for_local_participant')))]
    for x in sw:
        if not P.can_reach((0, 0), (x, 'term'), avoid_edges=rej) and x != 0:
            okadm = False
    rep.check(okadm, 'R19.9', 'participant_stateless_message_read/admission', 'dispatch <=> for this participant and class id == GMCLASSID_SECURITY_AUTH_HANDSHAKE',
              'participant_stateless_message_read does not reach the dispatch on the handshake state exactly for messages that are meant for this participant and carry the handshake '
              'class id (a test is missing or inverted): handshake messages are dropped, or other messages are fed to the handshake', b.where())
    own = [(bb, t) for bb, t in b.calls() if callee_res(t).startswith(SD) and bb > 0 and
           callee_res(t).rsplit('::', 1)[-1] not in ('get_handshake_state', 'is_stateless_msg_for_local_participant')]
    for s_, t_, lab in state_edges:
        if not isinstance(lab, str):
            continue
        if lab in DRIVER:
            want = DRIVER[lab][0]
            if want != 'handshake_on_' + _snake(lab):
                raise CheckBroken('R19.9: handler name table out of step with the state names')
        elif lab == 'PendingRequestSend':
            want = 'try_sending_new_handshake_request_message'
        elif lab == 'CompletedWithFinalMessageSent':
            want = 'resend_final_handshake_message'
        else:
            want = None
        others = [t2 for _s2, t2, l2 in state_edges if t2 != t_]
        reach = b.reachable(t_, avoid_blocks=others) | {t_}
        got = sorted(set(callee_res(t).rsplit('::', 1)[-1] for bb, t in own if bb in reach))
        ok = got == ([want] if want else [])
        if ok and want:
            cb = [(bb, 'term') for bb, t in own if bb in reach]
            for r in b.return_blocks():
                if not P.every_path_passes((t_, 0), (r, 'term'), via_pos=cb) and (t_, 'term') not in cb:
                    ok = False
            # the message (or its sender) is what the handler gets
            for bb, t in own:
                if bb in reach:
                    a1 = og.of_operand(t['args'][1], bb, 'term')
                    ok = ok and term_has(a1, lambda x: x == ('param', 2))
        rep.check(ok, 'R19.9', 'participant_stateless_message_read/%s' % lab, '%s -> %s' % (lab, want or 'nothing'),
                  'participant_stateless_message_read: in handshake state %s the message is handled by %s, expected %s on every path: the three-message handshake with a genuine participant '
                  'cannot complete (or a completed one is disturbed)' % (lab, got or 'nothing', want or 'nothing'), b.where())
    # handlers
    for state, (hname, pcall, outcome, nxt, sends, authd) in sorted(DRIVER.items()):
        h = fx.find(SD + hname)
        rep.analysed(h)
        oh = Origins(h, summaries=True)
        Ph = Pos(h)
        eh = list(switch_edges(h, fx, oh))
        res_edges = [(s_, t_, cond, lab) for s_, t_, cond, lab in primary_edges(h, eh) if cond[0] == 'discr' and has_call(cond, pcall)]
        ok_e = [(s_, t_) for s_, t_, cond, lab in res_edges if lab == 'Ok' and cond[1][0] == 'call']
        err_e = [(s_, t_) for s_, t_, cond, lab in res_edges if lab == 'Err' and cond[1][0] == 'call']
        out_e = [(s_, t_) for s_, t_, cond, lab in res_edges if lab == outcome and cond[1][0] != 'call']
        if not ok_e or not err_e or not out_e:
            raise CheckBroken('R19.9: %s: match on the result of %s not found (Ok %d, Err %d, %s %d)' % (hname, pcall, len(ok_e), len(err_e), outcome, len(out_e)))
        ups = [(bb, t) for bb, t in h.calls() if call_matches(t, 'SecureDiscovery::update_handshake_state')]
        auth = [(bb, t) for bb, t in h.calls() if call_matches(t, 'SecureDiscovery::on_remote_participant_authenticated')]
        writes = [(bb, t) for bb, t in h.calls() if callee_res(t).endswith('DataWriter::<D, SA>::write') or callee_res(t).endswith('::write') and 'DataWriter' in callee_res(t)]
        stores = [(bb, t) for bb, t in h.calls() if callee_res(t).endswith('::insert') and has_field(oh.of_operand(t['args'][0], bb, 'term'), 'stored_authentication_messages')]

        def dominated(bb, es):
            return Ph.every_path_passes(None, (bb, 'term'), via_edges=es, from_entry=True)
        # success region: the innermost switch edge on the plugin result that dominates the state update
        ok = len(ups) == 1
        vname = None
        if ok:
            ubb, ut = ups[0]
            vname = _agg_variant(oh.of_operand(ut['args'][2], ubb, 'term'))
            ok = vname == nxt and dominated(ubb, ok_e) and dominated(ubb, out_e)
            dom = [(s_, t_) for s_, t_, cond, lab in res_edges if dominated(ubb, [(s_, t_)])]
            inner = [e for e in dom if all(e == e2 or Ph.every_path_passes(None, (e[0], 'term'), via_edges=[e2], from_entry=True) for e2 in dom)]
            ok = ok and len(inner) == 1
            if ok:
                st = inner[0][1]
                must = [('state update', [(ubb, 'term')])]
                if sends:
                    must.append(('answer sent', [(bb, 'term') for bb, _t in writes]))
                    must.append(('answer stored for resending', [(bb, 'term') for bb, _t in stores]))
                if authd:
                    must.append(('remote reported authenticated', [(bb, 'term') for bb, _t in auth]))
                for what, pos in must:
                    good = bool(pos)
                    for r in h.return_blocks():
                        if not Ph.every_path_passes((st, 0), (r, 'term'), via_pos=pos) and (st, 'term') not in pos:
                            good = False
                    rep.check(good, 'R19.9', '%s/success/%s' % (hname, what.replace(' ', '-')), 'on %s: %s on every path' % (outcome, what),
                              '%s: after the plugin accepted the message (%s) a path returns without: %s; the handshake with a genuine participant stalls in state %s'
                              % (hname, outcome, what, state), h.where())
        rep.check(ok, 'R19.9', '%s/next-state' % hname, '%s -> %s exactly on Ok(%s)' % (state, nxt, outcome),
                  '%s does not move the exchange to %s exactly when %s returns Ok with outcome %s (it sets %s, or sets it on another result, or not once): discovery and plugin disagree on '
                  'where the handshake is, so the next genuine message is handled in the wrong state' % (hname, nxt, pcall, outcome, vname), h.where())
        # the plugin stores the state of the same name
        pb = find_method(fx, pcall)
        same = any(st.get('s') == 'assign' and st['rv'].get('r') == 'agg' and (st['rv'].get('variant') == nxt) and 'BuiltinHandshakeState' in (st['rv'].get('adt') or '')
                   for _bb, _si, st in pb.statements())
        rep.check(same, 'R19.9', '%s/plugin-agrees' % hname, '%s builds BuiltinHandshakeState::%s' % (pcall, nxt),
                  'the plugin function %s never builds the state %s that discovery assumes after it succeeded' % (pcall, nxt), pb.where())
        # no progress and no authentication on any other result
        okn = all(dominated(bb, out_e) and dominated(bb, ok_e) for bb, _t in auth) and (bool(auth) == authd)
        rep.check(okn, 'R19.9', '%s/authenticated-only-on-success' % hname, 'on_remote_participant_authenticated %s' % ('only under Ok(%s)' % outcome if authd else 'not called'),
                  '%s reports the remote participant as authenticated on a path where the plugin did not return Ok(%s)%s' % (hname, outcome, '' if authd else ' (the request handler must not report it at all)'),
                  h.where())
        # a rejected message does not use up the resends of the own pending message
        if state != 'PendingRequestMessage':
            rs = [(bb, 'term') for bb, t in h.calls() if call_matches(t, 'SecureDiscovery::reset_stored_message_resend_counter')]
            good = bool(rs)
            for s_, t_ in err_e:
                for r in h.return_blocks():
                    if not Ph.every_path_passes((t_, 0), (r, 'term'), via_pos=rs) and (t_, 'term') not in rs:
                        good = False
            rep.check(good, 'R19.9', '%s/rejected-resets-resends' % hname, 'Err from %s => reset_stored_message_resend_counter' % pcall,
                      '%s: a message the plugin rejects does not reset the resend counter of the own message that is waiting for its answer: forged messages can use up the resends, '
                      'after which the genuine handshake cannot complete' % hname, h.where())


def rule_19_10(rep, fx):
    """The replier's key pair is of the kind the initiator asked for (otherwise the two sides cannot derive one shared secret)."""
    rep.rule('R19.10', 'key agreement kinds agree: in begin_handshake_reply a DH key pair is generated by DHKeys::new_<kind>_keys only behind the equal edge of a comparison of the '
                       'received c.kagree_algo with the algorithm name that DHKeys::kagree_algo_name_str gives for the variant this constructor builds (Modp <-> DH+MODP, EC <-> ECDH); '
                       'any other name is refused')
    ks = [b for b in fx.bodies if b.name == 'kagree_algo_name_str' and b.key.startswith(AUTH)]
    if len(ks) != 1:
        raise CheckBroken('R19.10: DHKeys::kagree_algo_name_str not found')
    k = ks[0]
    rep.analysed(k)
    name_of = {}
    for s_, t_, cond, lab in switch_edges(k, fx, Origins(k)):
        if isinstance(lab, str) and cond[0] == 'discr':
            bb = t_
            for _ in range(4):
                for st in k.blocks[bb]['st']:
                    if st.get('s') == 'assign' and st['lhs'].get('l') == 0 and not st['lhs'].get('p'):
                        x = st['rv'].get('x', {})
                        d = (x.get('k') or {}).get('def')
                        if d:
                            name_of[lab] = d
                t = k.blocks[bb]['term']
                if lab in name_of or t['t'] != 'goto':
                    break
                bb = t['target']
    makers = {}
    for b in fx.bodies:
        if b.key.startswith(AUTH + 'DHKeys::new_') and b.kind in ('fn', 'assoc_fn'):
            vs = set(st['rv'].get('variant') for _bb, _si, st in b.statements() if st.get('s') == 'assign' and st['rv'].get('r') == 'agg' and
                     (st['rv'].get('adt') or '').endswith('DHKeys') and st['rv'].get('variant'))
            if len(vs) == 1:
                makers[b.key] = vs.pop()
                rep.analysed(b)
    if len(name_of) < 2 or len(makers) < 2:
        raise CheckBroken('R19.10: algorithm names %s / key constructors %s not recovered' % (name_of, makers))
    b = find_method(fx, 'begin_handshake_reply')
    og = Origins(b, summaries=True)
    P = Pos(b)
    edges = list(switch_edges(b, fx, og))
    n = 0
    for bb, t in b.calls():
        c = callee_res(t)
        if c not in makers:
            continue
        n += 1
        want = name_of.get(makers[c])
        guard = []
        for s_, t_, cond, lab in edges:
            if cond[0] == 'call' and cond[1].endswith(('::eq', '::ne')) and has_field(cond, 'c_kagree_algo') and has_call(cond, 'extract_request') and \
                    term_has(cond, lambda x: x == ('const', 'item', want)):
                if (cond[1].endswith('::eq') and lab is True) or (cond[1].endswith('::ne') and lab is False):
                    guard.append((s_, t_))
        ok = bool(guard) and P.every_path_passes(None, (bb, 'term'), via_edges=guard, from_entry=True)
        rep.check(ok, 'R19.10', 'begin_handshake_reply/%s' % c.rsplit('::', 1)[-1], '%s only when the request names %s' % (c.rsplit('::', 1)[-1], (want or '?').rsplit('::', 1)[-1]),
                  'begin_handshake_reply generates a %s key pair on a path where the received c.kagree_algo was not found equal to %s: the replier answers with a key of another kind than '
                  'the initiator uses, no common shared secret exists and two genuine participants cannot authenticate' % (makers[c], (want or '?').rsplit('::', 1)[-1]), b.where())
    if n < 2:
        raise CheckBroken('R19.10: begin_handshake_reply generates %d kinds of DH keys, expected 2' % n)


def rule_19_11(rep, fx):
    """A handshake token is read as a request / reply / final message only if it says so itself (added after seed C19g: a comparison that dropped the `+Req` / `+Reply` /
    `+Final` suffix let a relabelled final message through; the kind is not covered by any signature, so only this comparison ties a message to its step)."""
    rep.rule('R19.11', 'message kind is checked: BuiltinHandshakeMessageToken::extract_request / extract_reply / extract_final return Ok only behind the equal edge of a whole-value '
                       '==/!= between the class_id of the token and HANDSHAKE_REQUEST / REPLY / FINAL_CLASS_ID respectively (no helper that compares a part of it)')
    n = 0
    for kind in ('request', 'reply', 'final'):
        bs = [b for b in fx.bodies if b.name == 'extract_' + kind and 'BuiltinHandshakeMessageToken' in b.key and b.kind in ('fn', 'assoc_fn')]
        if len(bs) != 1:
            raise CheckBroken('R19.11: extract_%s not found' % kind)
        b = bs[0]
        n += 1
        rep.analysed(b)
        og = Origins(b, summaries=True)
        P = Pos(b)
        want = 'HANDSHAKE_%s_CLASS_ID' % kind.upper()
        guard = []
        for s_, t_, c, lab in switch_edges(b, fx, og):
            if c[0] == 'call' and c[1].rsplit('::', 1)[-1] in ('eq', 'ne') and len(c[2]) == 2:
                x, y = c[2]
                def is_cid(t):
                    return term_has(t, lambda z: z[0] == 'field' and z[1] == 'class_id' and term_has(z, lambda w: w == ('param', 1))) and \
                        not term_has(t, lambda z: z[0] == 'call' and z[1].rsplit('::', 1)[-1] not in ('as_ref', 'deref', 'as_bytes', 'as_slice', 'borrow', 'clone', 'as_str'))
                def is_const(t):
                    return term_has(t, lambda z: z[0] == 'const' and str(z[-1]).endswith('::' + want)) and \
                        not term_has(t, lambda z: z[0] == 'call' and z[1].rsplit('::', 1)[-1] not in ('as_ref', 'deref', 'as_bytes', 'as_slice', 'borrow', 'clone', 'as_str'))
                if (is_cid(x) and is_const(y)) or (is_cid(y) and is_const(x)):
                    m = c[1].rsplit('::', 1)[-1]
                    if (m == 'eq' and lab is True) or (m == 'ne' and lab is False):
                        guard.append((s_, t_))
        oks = _ok_results(b)
        ok = bool(guard) and bool(oks) and all(P.every_path_passes(None, o, via_edges=guard, from_entry=True) for o in oks)
        rep.check(ok, 'R19.11', 'extract_%s/class-id' % kind, 'Ok only when class_id == %s' % want,
                  'BuiltinHandshakeMessageToken::extract_%s can return Ok for a token whose class_id was not found equal to %s as a whole: a message of another kind (or a relabelled one) '
                  'is processed as a %s message; nothing else binds a message to its step of the handshake' % (kind, want, kind), b.where())
    rep.floor('R19.11', n, 3, 'handshake token extractors')
