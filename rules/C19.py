"""C19  Only CA-issued identities authenticate; forgeries cannot block them.

Pairing (state swapped out of the handshake machine is written back on every exit) and
dominance (verification calls dominate every transition to a trusted state) on the
security-feature MIR. X.509 chain semantics, DH and the signature algorithms are not decided.
"""
from rdv.core import (CheckBroken, Origins, Pos, call_matches, callee_res, infeasible_edges, norm_path, primary_edges,
                      strip_generics, switch_edges, term_has, term_leaves, term_str)

CONFIGS = ['security']
LEVEL = 'other'

AUTH = 'security::authentication::authentication_builtin::'


def has_call(t, suffix):
    return term_has(t, lambda x: x[0] == 'call' and x[1].endswith(suffix))


def has_field(t, name):
    return term_has(t, lambda x: x[0] == 'field' and x[1] == name)


def find_method(fx, name):
    bs = [b for b in fx.bodies if b.name == name and b.key.startswith(AUTH) and b.kind in ('fn', 'assoc_fn')]
    if len(bs) != 1:
        raise CheckBroken('%s not found uniquely in authentication_builtin (%d)' % (name, len(bs)))
    return bs[0]


def ok_edges_of(edges, callee_suffix, extra=None):
    """Continue/Ok edges of `?`/match applied (possibly through map_err) to a call of callee_suffix."""
    out = []
    for s_, t_, cond, lab in edges:
        if lab in ('Continue', 'Ok') and cond[0] == 'discr':
            base = cond[1]
            while base[0] == 'call' and base[1].endswith(('::map_err', 'Try::branch')):
                base = base[2][0]
            if base[0] == 'call' and base[1].endswith(callee_suffix):
                if extra is None or extra(base):
                    out.append((s_, t_))
    return out


def eq_edges_of(edges, field):
    """Edges on which `<state>.field == <message>.field` holds (false edge of ne / true edge of eq)."""
    out = []
    for s_, t_, cond, lab in edges:
        if cond[0] == 'call' and cond[1].endswith(('::ne', '::eq')) and len(cond[2]) == 2:
            a, b = cond[2]
            if has_field(a, field) and has_field(b, field):
                # one side from the stored state, the other from the received token
                sa = term_has(a, lambda x: x[0] == 'variant' and x[1].startswith('Pending'))
                sb = term_has(b, lambda x: x[0] == 'variant' and x[1].startswith('Pending'))
                if sa != sb:
                    if (cond[1].endswith('::ne') and lab is False) or (cond[1].endswith('::eq') and lab is True):
                        out.append((s_, t_))
    return out


def run(rep, facts, tier):
    fx = facts['security']
    rep.explanation = ('In the builtin authentication plugin: (pairing) the handshake state swapped out at the start of process_handshake is written back on every exit; '
                       '(dominance) every transition to a Completed* state and every computation of the shared secret lies behind the Ok continuations of the certificate-chain '
                       'check against the Identity CA, the GUID binding check, the challenge equalities and the signature verification of that arm; begin_handshake_reply '
                       'verifies the certificate and the GUID binding before leaving its state; no verification result is discarded.')
    rep.assume('X.509 chain verification, ECDH and signature algorithms are correct', 'replay across sessions beyond the challenge equalities is not decided')
    rep.rule('R19.1', 'state pairing: after mem::swap takes the handshake state out, every path to a return stores a state back into handshake.state')
    rep.rule('R19.2', 'verify before trust: every store of CompletedWithFinalMessage* and every compute_shared_secret is dominated by verify_signed_by_certificate(identity_ca) '
                      '(or the certificate verified in the previous step), validate_remote_guid, the challenge equalities and the signature verification')
    rep.rule('R19.3', 'no verification result in the authentication module is discarded')

    ph = find_method(fx, 'process_handshake')
    rep.analysed(ph)
    og = Origins(ph, summaries=True)
    P = Pos(ph)
    edges = list(switch_edges(ph, fx, og))
    infeas = infeasible_edges(ph, fx, og, edges)

    # ---------------------------------------------------------------- R19.1
    swaps = [(bb, 'term') for bb, t in ph.calls() if callee_res(t).endswith('mem::swap') and
             (has_field(og.of_operand(t['args'][0], bb, 'term'), 'state') or has_field(og.of_operand(t['args'][1], bb, 'term'), 'state'))]
    if len(swaps) != 1:
        raise CheckBroken('process_handshake: expected one mem::swap on handshake.state, found %d' % len(swaps))
    stores = []
    for bb, si, st in ph.statements():
        if st['s'] == 'assign':
            pr = st['lhs'].get('p') or []
            names = [e.get('n') for e in pr if isinstance(e, dict)]
            if names[-2:] == ['handshake', 'state'] or (names and names[-1] == 'state' and 'handshake' in names):
                stores.append((bb, si))
    rets = [(r, 'term') for r in ph.return_blocks()]
    arm_edges = [(s_, t_, lab) for s_, t_, cond, lab in primary_edges(ph, edges)
                 if cond[0] == 'discr' and isinstance(lab, str) and 'BuiltinHandshakeState' in (cond[2] or '')]
    if not arm_edges:
        raise CheckBroken('process_handshake: match on the handshake state not found')
    sw_blocks = set(s_ for s_, _t, _l in arm_edges)
    # exits between the swap and the match
    pre = any(P.can_reach(swaps[0], r, avoid_pos=stores + [(sb, 'term') for sb in sw_blocks], avoid_edges=infeas) for r in rets)
    rep.check(not pre, 'R19.1', 'process_handshake/pre-match', 'no exit between taking the state out and dispatching on it',
              'process_handshake can return (e.g. via `?`) after swapping the state out and before the match, leaving the dummy state PendingRequestSend behind', ph.where(swaps[0][0]))
    for s_, tg, lab in sorted(set(arm_edges), key=lambda x: str(x[2])):
        if not isinstance(lab, str):
            continue
        leak = [r for r in rets if P.can_reach((tg, 0), r, avoid_pos=stores, avoid_edges=infeas)]
        rep.check(not leak, 'R19.1', 'process_handshake/arm:%s' % lab, 'every exit of the arm writes a state back',
                  'in state %s an exit of process_handshake (error returns / `?`) leaves the dummy state PendingRequestSend in place of the state that was swapped out: '
                  'after one rejected message the genuine handshake can never complete' % lab, ph.where(tg))

    # ---------------------------------------------------------------- R19.2
    ca_ok = ok_edges_of(edges, 'Certificate::verify_signed_by_certificate', lambda c: has_field(c[2][1], 'identity_ca'))
    guid_ok = ok_edges_of(edges, 'validate_remote_guid')
    sig_ok = ok_edges_of(edges, 'Certificate::verify_signed_data_with_algorithm')
    c1_ok = eq_edges_of(edges, 'challenge1')
    c2_ok = eq_edges_of(edges, 'challenge2')
    n_sites = 0
    for bb, si, st in ph.statements():
        if st['s'] == 'assign' and st['rv']['r'] == 'agg' and (st['rv'].get('variant') or '').startswith('CompletedWithFinalMessage'):
            n_sites += 1
            variant = st['rv']['variant']
            if variant.endswith('Sent'):
                need = [('identity CA check of the peer certificate', ca_ok), ('GUID binding check', guid_ok), ('challenge1 echo', c1_ok), ('reply signature', sig_ok)]
            else:
                need = [('challenge1 echo', c1_ok), ('challenge2 echo', c2_ok), ('final signature', sig_ok)]
            for what, es in need:
                ok = bool(es) and P.every_path_passes(None, (bb, si), via_edges=es + infeas, from_entry=True)
                rep.check(ok, 'R19.2', 'process_handshake/%s/%s' % (variant, what.replace(' ', '-')), 'dominated by %s' % what,
                          'the handshake can reach %s without the %s having succeeded on every path' % (variant, what), ph.where(bb, si))
    rep.floor('R19.2', n_sites, 2, 'transitions to CompletedWithFinalMessage*')
    for bb, t in ph.calls():
        if callee_res(t).endswith('compute_shared_secret'):
            for what, es in (('signature verification', sig_ok), ('challenge1 echo', c1_ok)):
                ok = bool(es) and P.every_path_passes(None, (bb, 'term'), via_edges=es + infeas, from_entry=True)
                rep.check(ok, 'R19.2', 'process_handshake/shared-secret@%s/%s' % (ph.blocks[bb]['term'].get('line', 0) and 'site%d' % [b_ for b_, t_ in ph.calls() if callee_res(t_).endswith('compute_shared_secret')].index(bb), what.replace(' ', '-')),
                          'shared secret only after %s' % what, 'a shared secret can be computed without the %s having succeeded' % what, ph.where(bb))
    # the final-message arm trusts the certificate stored by begin_handshake_reply: check that one
    br = find_method(fx, 'begin_handshake_reply')
    rep.analysed(br)
    og2 = Origins(br, summaries=True)
    P2 = Pos(br)
    e2 = list(switch_edges(br, fx, og2))
    inf2 = infeasible_edges(br, fx, og2, e2)
    ca2 = ok_edges_of(e2, 'Certificate::verify_signed_by_certificate', lambda c: has_field(c[2][1], 'identity_ca'))
    guid2 = ok_edges_of(e2, 'validate_remote_guid')
    n2 = 0
    for bb, si, st in br.statements():
        if st['s'] == 'assign' and st['rv']['r'] == 'agg' and st['rv'].get('variant') == 'PendingFinalMessage':
            n2 += 1
            for what, es in (('identity CA check of the peer certificate', ca2), ('GUID binding check', guid2)):
                ok = bool(es) and P2.every_path_passes(None, (bb, si), via_edges=es + inf2, from_entry=True)
                rep.check(ok, 'R19.2', 'begin_handshake_reply/PendingFinalMessage/%s' % what.replace(' ', '-'), 'dominated by %s' % what,
                          'begin_handshake_reply can accept a request (state PendingFinalMessage) without the %s having succeeded' % what, br.where(bb, si))
            # the certificate remembered for the final step is the verified one
            v = og2.of_operand(st['rv']['ops'][st['rv']['fields'].index('remote_id_certificate')], bb, si)
            okc = has_call(v, 'Certificate::from_pem')
            rep.check(okc, 'R19.2', 'begin_handshake_reply/remembered-certificate', 'the certificate stored for the final step is the one parsed from the request',
                      'the certificate stored for verifying the final message is not the request certificate that was checked', br.where(bb, si))
    rep.floor('R19.2', n2, 1, 'transition to PendingFinalMessage')

    # ---------------------------------------------------------------- R19.3
    n_calls = 0
    targets = ('verify_signed_by_certificate', 'verify_signed_data_with_algorithm', 'validate_remote_guid', 'verify_signature')
    for b in fx.bodies:
        if not b.key.startswith('security::authentication::'):
            continue
        for bb, t in b.calls():
            if not call_matches(t, *targets):
                continue
            n_calls += 1
            d = t['dest']
            l = d['l']
            used = bool(d.get('p')) or l == 0
            for bb2 in b.live_blocks():
                blk = b.blocks[bb2]
                for st in blk['st']:
                    if st['s'] == 'assign' and _reads_local(st['rv'], l):
                        used = True
                tt = blk['term']
                if tt['t'] in ('call', 'tailcall') and any(a.get('o') in ('copy', 'move') and a['pl']['l'] == l for a in tt['args']):
                    used = True
                if tt['t'] == 'switch' and tt['x'].get('o') in ('copy', 'move') and tt['x']['pl']['l'] == l:
                    used = True
            # consumed by `?`/match: there must be a switch on its discriminant
            ogb = Origins(b, summaries=True)
            gated = any(lab in ('Continue', 'Ok', 'Break', 'Err') and cond[0] == 'discr' and term_has(cond, lambda x: x[0] == 'call' and len(x) > 3 and x[3] == bb)
                        for _s, _t, cond, lab in switch_edges(b, fx, ogb))
            rep.check(used and (gated or l == 0), 'R19.3', '%s/%s@%d' % (b.key, callee_res(t).rsplit('::', 1)[-1], n_calls), 'result decides control flow',
                      'the result of %s does not decide control flow (discarded or neutralised)' % callee_res(t).rsplit('::', 1)[-1], b.where(bb))
    rep.floor('R19.3', n_calls, 5, 'verification calls in security::authentication')

    # ------------------------------------------------------------ R19.4
    rule_19_4(rep, fx)
    rule_19_5(rep, fx)

    # ------------------------------------------------------------ R19.6 crossed roles (shared lint, rdv/swaplint.py)
    from rdv import swaplint
    swaplint.run_rule(rep, facts['security'], 'R19.6', ['security::authentication', 'security::certificate'])


def _reads_local(rv, l):
    r = rv['r']
    ops = []
    if r in ('use', 'cast', 'repeat'):
        ops = [rv['x']]
    elif r == 'bin':
        ops = [rv['a'], rv['b']]
    elif r == 'un':
        ops = [rv['a']]
    elif r == 'agg':
        ops = rv['ops']
    elif r in ('ref', 'discr', 'rawptr'):
        return rv['pl']['l'] == l
    return any(o.get('o') in ('copy', 'move') and o['pl']['l'] == l for o in ops)


STATE_ADT = 'security::authentication::authentication_builtin::BuiltinHandshakeState'
EXPECTED_STATES = {
    'begin_handshake_request': {'PendingRequestSend'},
    'begin_handshake_reply': {'PendingRequestMessage'},
    'process_handshake': {'PendingReplyMessage', 'PendingFinalMessage'},
}


def rule_19_4(rep, fx):
    """Out-of-order / replayed messages: each handshake entry point may succeed only from the state(s) in which that message is expected."""
    rep.rule('R19.4', 'state guards: begin_handshake_request succeeds only from PendingRequestSend, begin_handshake_reply only from PendingRequestMessage, process_handshake only from '
                      'PendingReplyMessage / PendingFinalMessage: the set of handshake states from whose switch edge an Ok(..) result is reachable equals the expected set, and the '
                      'state switch is passed on every path to an Ok(..) result (a request replayed after the reply must not restart the exchange)')
    adt = fx.adt(STATE_ADT)
    if not adt:
        raise CheckBroken('BuiltinHandshakeState not in the ADT table')
    allv = set(v['name'] for v in adt['variants'])
    for name, expected in EXPECTED_STATES.items():
        bs = [b for b in fx.bodies if b.key.endswith('authentication::' + name) and 'authentication_builtin' in b.key]
        if len(bs) != 1:
            raise CheckBroken('%s: %d bodies' % (name, len(bs)))
        b = bs[0]
        rep.analysed(b)
        og = Origins(b)
        P = Pos(b)
        edges = list(switch_edges(b, fx, og))
        st_edges = [(s_, t_, cond, lab) for s_, t_, cond, lab in primary_edges(b, edges) if cond[0] == 'discr' and STATE_ADT in str(cond[2])]
        infeas = infeasible_edges(b, fx, og, edges)
        oks = [(bb, si) for bb, si, st in b.statements() if st['s'] == 'assign' and st['lhs']['l'] == 0 and not st['lhs'].get('p')
               and st['rv']['r'] == 'agg' and st['rv'].get('variant') == 'Ok']
        if not st_edges or not oks:
            rep.violation('R19.4', '%s/shape' % name, '%s: no switch on the handshake state (%d) or no Ok(..) result (%d) found' % (name, len(st_edges), len(oks)), b.where())
            continue
        switch_blocks = sorted(set(e[0] for e in st_edges))
        accepting = set()
        for s_, t_, cond, lab in st_edges:
            labs = {lab} if isinstance(lab, str) else (allv - set(lab[1]) if isinstance(lab, tuple) and lab[0] == 'not' else set())
            # `matches!(state, V)` lowers to: arm blocks set a bool, the join switches on it. Follow that one constant.
            extra = []
            consts = {}
            for st in b.blocks[t_]['st']:
                if st['s'] == 'assign' and not st['lhs'].get('p') and st['rv']['r'] == 'use' and st['rv']['x'].get('o') == 'const' and st['rv']['x']['k'].get('c') == 'int':
                    consts[st['lhs']['l']] = int(st['rv']['x']['k']['v'])
            if consts:
                for sb in b.live_blocks():
                    tt = b.blocks[sb]['term']
                    if tt['t'] == 'switch' and tt['x'].get('o') in ('copy', 'move') and not tt['x']['pl'].get('p') and tt['x']['pl']['l'] in consts:
                        v = consts[tt['x']['pl']['l']]
                        arm_vals = [a[0] for a in tt['arms']]
                        for a in tt['arms']:
                            if a[0] != v:
                                extra.append((sb, a[1]))
                        if v in arm_vals:
                            extra.append((sb, tt['otherwise']))
            if any(P.can_reach((t_, 0), o, avoid_edges=list(infeas) + extra) or P.norm((t_, 0)) == P.norm(o) for o in oks):
                accepting |= labs
        rep.check(accepting == expected, 'R19.4', '%s/accepting-states' % name, 'Ok reachable exactly from %s' % sorted(expected),
                  '%s can succeed from handshake state(s) %s; the message it handles is expected only in %s: a replayed or out-of-order message is accepted, overwrites the pending '
                  'exchange and the genuine handshake can no longer complete' % (name, sorted(accepting), sorted(expected)), b.where(switch_blocks[0]))
        dom = all(P.every_path_passes(None, o, via_pos=[(sb, 'term') for sb in switch_blocks], from_entry=True) for o in oks)
        rep.check(dom, 'R19.4', '%s/guard-dominates' % name, 'every Ok(..) result is behind the state switch',
                  '%s has a path to an Ok(..) result that does not test the handshake state' % name, b.where())


def rule_19_5(rep, fx):
    """GUID <-> certificate binding (DDS Security 9.3.3): the first 48 bits of the participant GUID are derived from the SHA-256 of the DER of the certificate's SUBJECT name."""
    rep.rule('R19.5', 'GUID binding input: guid_start_from_certificate hashes Certificate::subject_name_der(cert) of the certificate it is given, and subject_name_der encodes the '
                      'X.509 subject name (not the issuer or any other name); validate_remote_guid compares the announced GUID with that value for the presented certificate')
    sd = fx.find('security::certificate::Certificate::subject_name_der')
    rep.analysed(sd)
    og = Origins(sd)
    names = [callee_res(t) for _bb, t in sd.calls() if callee_res(t).startswith('x509_certificate::X509Certificate::')]
    encs = [(bb, t) for bb, t in sd.calls() if callee_res(t).endswith('::encode_ref')]
    ok = names == ['x509_certificate::X509Certificate::subject_name'] and len(encs) == 1 and \
        term_has(og.of_operand(encs[0][1]['args'][0], encs[0][0], 'term'), lambda x: x[0] == 'call' and x[1].endswith('X509Certificate::subject_name'))
    rep.check(ok, 'R19.5', 'Certificate::subject_name_der/subject', 'DER of X509Certificate::subject_name()',
              'Certificate::subject_name_der does not encode the certificate\'s subject name (it reads %s): the GUID is then bound to something every certificate of the same CA shares, '
              'and a participant can take over the GUID of another one' % [n.rsplit('::', 1)[-1] for n in names], sd.where())
    g = [x for x in fx.bodies if x.key.endswith('authentication::guid_start_from_certificate')]
    if len(g) != 1:
        raise CheckBroken('guid_start_from_certificate not found')
    g = g[0]
    rep.analysed(g)
    ogg = Origins(g)
    hashes = [(bb, t) for bb, t in g.calls() if callee_res(t).endswith('Sha256::hash')]
    okg = len(hashes) == 1 and term_has(ogg.of_operand(hashes[0][1]['args'][0], hashes[0][0], 'term'),
                                        lambda x: x[0] == 'call' and x[1].endswith('Certificate::subject_name_der') and x[2] and x[2][0] == ('param', 1))
    rep.check(okg, 'R19.5', 'guid_start_from_certificate/hash-input', 'SHA-256 of subject_name_der(the given certificate)',
              'guid_start_from_certificate does not hash the subject name DER of the certificate it was given', g.where())
    v = [x for x in fx.bodies if x.key.endswith('authentication::validate_remote_guid')]
    okv = False
    if len(v) == 1:
        rep.analysed(v[0])
        ogv = Origins(v[0])
        for bb, t in v[0].calls():
            if callee_res(t).endswith('::eq') or callee_res(t).endswith('::ne'):
                a = [ogv.of_operand(x, bb, 'term') for x in t['args']]
                if any(term_has(y, lambda z: z[0] == 'call' and z[1].endswith('guid_start_from_certificate')) for y in a) and any(term_has(y, lambda z: z[0] == 'param') and not
                       term_has(y, lambda z: z[0] == 'call' and z[1].endswith('guid_start_from_certificate')) for y in a):
                    okv = True
    rep.check(okv, 'R19.5', 'validate_remote_guid/compares', 'announced GUID start == guid_start_from_certificate(presented certificate)',
              'validate_remote_guid does not compare the announced GUID with the value derived from the presented certificate', v[0].where() if v else '')
