"""C09  A bad or unintelligible change never wedges a reader.

Loop-progress rules on the read/take call graph: the loop variant is the query's own
arguments (the per-writer read pointer map and the latest-instant), so the rule covers the
reliable and the best-effort branch alike.
"""
from rdv.core import (CheckBroken, Origins, Pos, call_matches, callee_res, natural_loops, norm_path, primary_edges, strip_generics,
                      switch_edges, term_has, term_leaves, term_str)

CONFIGS = ['default']
LEVEL = 'other'

QUERY_FNS = ('SimpleDataReader::try_take_undecoded', 'TopicCache::get_changes_in_range_reliable',
             'TopicCache::get_changes_in_range_best_effort')
ENTRY_NAMES = ('read', 'take', 'read_bare', 'take_bare', 'read_instance', 'take_instance', 'read_next_sample',
               'take_next_sample', 'iterator', 'conditional_iterator', 'into_iterator', 'into_conditional_iterator',
               'try_take_one', 'try_take_one_with', 'poll_next')
READER_TYPES = ('dds::with_key::datareader::', 'dds::no_key::datareader::', 'dds::with_key::simpledatareader::',
                'dds::no_key::simpledatareader::')


def entry_points(fx):
    out = []
    for b in fx.bodies:
        if b.kind not in ('fn', 'assoc_fn') or b.name not in ENTRY_NAMES:
            continue
        k = b.key
        if any(x in k for x in READER_TYPES):
            out.append(b)
    return out


def fields_in(term):
    """Outermost (slot) field names of a term; tuple indices are not slots."""
    tag = term[0]
    if tag == 'field':
        if term[1].isdigit():
            return fields_in(term[2])
        return {term[1]}
    if tag == 'phi':
        out = set()
        for a in term[1]:
            out |= fields_in(a)
        return out
    if tag == 'call':
        out = set()
        for a in term[2]:
            out |= fields_in(a)
        return out
    if tag == 'variant':
        return fields_in(term[2])
    return set()


def run(rep, facts, tier):
    fx = facts['default']
    rep.explanation = ('Every natural loop in the functions reachable from the public read/take/poll_next entry points that re-issues a '
                       'receive-cache query must, on every path back to the query, advance both read pointers the query depends on; '
                       'every non-empty exit does so too; wrappers report "empty" only when the inner query did.')
    rep.assume('user-supplied Decode / DeserializerAdapter implementations terminate',
               'BTreeMap::range / iterators over the topic cache are finite (the cache is finite)')
    rep.rule('R09.1', 'loop progress: on every CFG path from a receive-cache query back to the same query, the per-writer read pointer map '
                      'receives an insert and the latest-instant passed to the query is redefined')
    rep.rule('R09.2', 'errors advance too: every path from the query to a return, other than the query\'s own "nothing available" arm, '
                      'updates both read pointers (a bad change is reported exactly once)')
    rep.rule('R09.3', 'outer loops around try_take_one*/inner poll iterate only while the inner call reports a consumed change; '
                      'the "nothing"/error arms leave the loop')
    rep.rule('R09.4', '"empty means empty": a wrapper of try_take_one* returns Ok(None) only on the inner call\'s own Ok(None)')

    eps = entry_points(fx)
    rep.floor('R09.1', len(eps), 30, 'public read/take/poll_next entry points')
    cg = fx.callgraph()
    fwd = fx.reachable_fns([b.key for b in eps])
    # functions that (transitively) reach a query
    qkeys = [b.key for b in fx.bodies if any(b.key.endswith(q) for q in QUERY_FNS)]
    if len(qkeys) < 3:
        raise CheckBroken('receive-cache query functions not found: %s' % qkeys)
    rev = {}
    for s_, ts in cg.items():
        for t in ts:
            rev.setdefault(t, set()).add(s_)
    back = set(qkeys)
    dq = list(qkeys)
    while dq:
        n = dq.pop()
        for p in rev.get(n, ()):
            if p not in back:
                back.add(p)
                dq.append(p)
    scope = sorted(fwd & back)
    n_base = 0
    n_outer = 0
    consuming = set()   # functions whose non-empty results always advanced the pointers (R09.1/2 hold)
    for key in scope:
        for b in fx.by_key[key]:
            rep.analysed(b)
            og = Origins(b, summaries=True)
            P = Pos(b)
            loops = natural_loops(b)
            direct_q = [(bb, t) for bb, t in b.calls() if call_matches(t, QUERY_FNS[0])]
            # ---------------- base loops / base functions: contain the query call with pointer arguments
            for qb, qt in direct_q:
                n_base += 1
                args = qt['args']
                # argument roles are taken from the callee's own parameter names
                callee = fx.find('SimpleDataReader::try_take_undecoded')
                pnames = {d.get('arg'): d['name'] for d in callee.j.get('dbg', []) if d.get('arg')}
                idx_inst = [i for i, n in pnames.items() if n == 'latest_instant']
                idx_map = [i for i, n in pnames.items() if n == 'last_read_sn']
                if not idx_inst or not idx_map:
                    raise CheckBroken('try_take_undecoded: parameters latest_instant / last_read_sn not found')
                a_inst = args[idx_inst[0] - 1]
                a_map = args[idx_map[0] - 1]
                t_inst = og.of_operand(a_inst, qb, 'term')
                t_map = og.of_operand(a_map, qb, 'term')
                inst_local = a_inst['pl']['l'] if a_inst.get('o') in ('copy', 'move') else None
                # chase one copy: `_32 = copy _13`
                for bb2, si2, st2 in b.statements():
                    if st2['s'] == 'assign' and st2['lhs']['l'] == inst_local and not st2['lhs'].get('p') and bb2 == qb \
                            and st2['rv']['r'] == 'use' and st2['rv']['x'].get('o') in ('copy', 'move') and not st2['rv']['x']['pl'].get('p'):
                        inst_local = st2['rv']['x']['pl']['l']
                map_fields = fields_in(t_map)
                inst_fields = fields_in(t_inst)
                if not map_fields or not inst_fields:
                    raise CheckBroken('%s: cannot resolve the query arguments to read-state fields (%s, %s)' % (
                        b.key, term_str(t_map), term_str(t_inst)))
                # write events
                w_map = []
                for bb, t in b.calls():
                    if call_matches(t, 'BTreeMap::insert') or callee_res(t).endswith('::insert'):
                        r = og.of_operand(t['args'][0], bb, 'term')
                        if fields_in(r) & map_fields:
                            w_map.append((bb, 'term'))
                w_inst_local = []
                w_inst_field = []
                for bb, si, st in b.statements():
                    if st['s'] != 'assign':
                        continue
                    lhs = st['lhs']
                    if lhs['l'] == inst_local and not lhs.get('p') and (bb, si) != (qb, None):
                        # exclude the initial load before the loop: it is not on a path query->query anyway
                        w_inst_local.append((bb, si))
                    pr = lhs.get('p') or []
                    if pr and isinstance(pr[-1], dict) and pr[-1].get('n') in inst_fields:
                        w_inst_field.append((bb, si))
                qpos = (qb, 'term')
                # R09.1: cycle query -> query
                in_loop = any(qb in blocks for _h, blocks, _s in loops)
                if in_loop:
                    ok_map = P.every_path_passes(qpos, qpos, via_pos=w_map)
                    ok_inst = P.every_path_passes(qpos, qpos, via_pos=w_inst_local + w_inst_field)
                    rep.check(ok_map, 'R09.1', '%s/loop@query/map' % b.key,
                              'every path back to the query inserts into %s' % '/'.join(sorted(map_fields)),
                              'a path leads from the receive-cache query back to the same query without inserting into the read pointer map '
                              '(%s): the same change is returned again, forever' % '/'.join(sorted(map_fields)), b.where(qb))
                    rep.check(ok_inst, 'R09.1', '%s/loop@query/instant' % b.key,
                              'every path back to the query redefines %s' % '/'.join(sorted(inst_fields)),
                              'a path leads from the receive-cache query back to the same query without advancing %s '
                              '(best-effort readers would get the same change again, forever)' % '/'.join(sorted(inst_fields)), b.where(qb))
                else:
                    rep.ok('R09.1', '%s/query-not-in-loop' % b.key, 'query is not re-issued inside this function', b.where(qb))
                # R09.2: exits
                none_edges = []
                for sbb, tg, cond, lab in switch_edges(b, fx, og):
                    if lab == 'None' and term_has(cond, lambda x: x[0] == 'call' and x[1].endswith('::next')):
                        none_edges.append((sbb, tg))
                rets = [(r, 'term') for r in b.return_blocks()]
                bad_map = [r for r in rets if not P.every_path_passes(qpos, r, via_pos=w_map, via_edges=none_edges)]
                bad_inst = [r for r in rets if not P.every_path_passes(qpos, r, via_pos=w_inst_field, via_edges=none_edges)]
                rep.check(not bad_map, 'R09.2', '%s/exit/map' % b.key, 'every non-empty exit inserts into the read pointer map',
                          'a change can be returned (value or error) without the read pointer map being advanced: it would be reported again', b.where(qb))
                rep.check(not bad_inst, 'R09.2', '%s/exit/instant' % b.key, 'every non-empty exit stores the latest instant',
                          'a change can be returned (value or error) without the latest-instant being stored: a best-effort reader would report it again', b.where(qb))
                # the None arm must itself not lose skipped progress: the instant local is stored back
                none_ok = True
                for sbb, tg in none_edges:
                    for r in rets:
                        if P.can_reach((tg, 0), r, avoid_pos=w_inst_field) and (tg, 0) not in [P.norm(w) for w in w_inst_field]:
                            # only a defect if the local can have been advanced (a write to the local exists inside the loop)
                            if w_inst_local and in_loop and any(P.can_reach(w, (sbb, 'term')) for w in w_inst_local if w[0] in set().union(*[bl for _h, bl, _s in loops])):
                                none_ok = False
                rep.check(none_ok, 'R09.2', '%s/empty-exit/instant' % b.key, 'progress made by skipped changes is stored on the empty exit',
                          'the loop advances a local copy of the latest instant for skipped changes but the "nothing available" exit does not store it back', b.where(qb))
                if all(i['ok'] for i in rep.instances if i['key'].startswith(b.key + '/')):
                    consuming.add(b.key)
    # consuming closure: thin wrappers that return the callee's result unchanged or mapped
    changed = True
    while changed:
        changed = False
        for key in scope:
            if key in consuming:
                continue
            for b in fx.by_key[key]:
                cs = [t for _bb, t in b.calls() if any(k in consuming for k in fx.call_targets(t)[0])]
                if cs and not natural_loops(b):
                    consuming.add(key)
                    changed = True
    # ---------------- R09.3 outer loops, R09.4 wrappers
    for key in scope:
        for b in fx.by_key[key]:
            og = Origins(b, summaries=True)
            P = Pos(b)
            loops = natural_loops(b)
            inner_calls = []
            for bb, t in b.calls():
                tg, _dyn = fx.call_targets(t)
                if any(k in consuming or k in back for k in tg) and not call_matches(t, QUERY_FNS[0]):
                    if callee_res(t).rsplit('::', 1)[-1] in ('try_take_one', 'try_take_one_with', 'poll_next', 'take', 'take_bare', 'read', 'read_bare'):
                        inner_calls.append((bb, t))
            for cb, ct in inner_calls:
                in_loop = [(h, bl) for h, bl, _s in loops if cb in bl]
                if in_loop:
                    n_outer += 1
                    cpos = (cb, 'term')
                    # edges on the inner result that mean "consumed something"
                    go_on = []
                    for sbb, tg, cond, lab in switch_edges(b, fx, og):
                        if lab in ('Some', 'Ready', 'Ok', 'Continue', 'Value', 'Dispose') and term_has(cond, lambda x: x[0] == 'call' and len(x) > 3 and x[3] == cb):
                            go_on.append((sbb, tg, lab))
                    need = [(s_, t_) for s_, t_, lab in go_on if lab in ('Some', 'Ready')]
                    ok = bool(need) and P.every_path_passes(cpos, cpos, via_edges=need)
                    rep.check(ok, 'R09.3', '%s/outer-loop@%s' % (b.key, callee_res(ct).rsplit('::', 1)[-1]),
                              'the loop re-issues the inner call only after a Some/Ready result (a consumed change)',
                              'the loop can re-issue %s after a result that consumed nothing (None/Pending/Err): it may spin' % callee_res(ct).rsplit('::', 1)[-1],
                              b.where(cb))
                # R09.4 for non-loop wrappers of try_take_one*
                if b.name in ('try_take_one', 'try_take_one_with') and callee_res(ct).rsplit('::', 1)[-1] in ('try_take_one', 'try_take_one_with'):
                    # every construction of Ok(None) as the result must be under the inner None arm
                    none_edges = []
                    for sbb, tg, cond, lab in switch_edges(b, fx, og):
                        if lab == 'None' and cond[0] == 'discr':
                            base = cond[1]
                            # Option inside the inner call's Ok: (call as Ok).0
                            if base[0] == 'field' and base[2][0] == 'variant' and base[2][1] == 'Ok' and base[2][2][0] == 'call' and base[2][2][3] == cb:
                                none_edges.append((sbb, tg))
                    sites = []
                    for bb, si, st in b.statements():
                        if st['s'] == 'assign' and st['rv']['r'] == 'agg' and st['rv'].get('kind') == 'adt' and st['rv'].get('variant') == 'None' \
                                and strip_generics(st['rv']['adt']).endswith('option::Option'):
                            # flows into _0 = Ok(None)?
                            sites.append((bb, si))
                    for k, site in enumerate(sites):
                        ok = bool(none_edges) and P.every_path_passes(None, site, via_edges=none_edges, from_entry=True)
                        rep.check(ok, 'R09.4', '%s/none#%d' % (b.key, k), '"nothing available" only on the inner call\'s own Ok(None)',
                                  'the wrapper reports "nothing available" (Ok(None)) although the inner call consumed a change: '
                                  '"take until empty" stops early with changes still queued and their notification already used', b.where(*site))
                    if not sites:
                        rep.ok('R09.4', '%s/pass-through' % b.key, 'returns the inner result unchanged', b.where(cb))
    rep.floor('R09.1', n_base, 1, 'functions issuing the receive-cache query with read-pointer arguments')
    rep.floor('R09.3', n_outer, 3, 'outer loops around try_take_one*/inner poll_next')

    # ------------------------------------------------------------ R09.5 content-dependent panics on the read path
    rule_09_5(rep, fx, eps)
    rule_09_6(rep, fx)
    rule_09_7(rep, fx)
    rule_09_8(rep, fx)
    rule_09_9(rep, fx)
    rule_range_bounds(rep, fx, 'R09.11')
    # R09.10: skipping an unusable change moves the frontier like a GAP does; the DataReader has to hear of it (seed C09f was reported by ./check C13 only)
    from rdv import report as _report
    _report.borrow(rep, facts, tier, 'C13', {'R13.3': 'R09.10'})
    # a completed assembly buffer leaves the assembler on every path, also when its bytes do not parse (after seed C09g: the buffer left behind by `?` counts as partially
    # received for ever, the unusable sample is never skipped and blocks the reliable reader); and the meaning of "partially received"
    _report.borrow(rep, facts, tier, 'C05', {'R05.15': 'R09.12', 'R05.18': 'R09.13'})


# hazard key -> (class, reason); sites on the pinned tree, each read and judged
READ_DISCHARGE = {
    'dds::with_key::datasample_cache::DataSampleCache::add_sample/K3-unwrap:unwrap#1':
        ('review', 'get_mut of the key inserted in the statement before'),
    'dds::with_key::datasample_cache::DataSampleCache::add_sample::{closure#1}/K3-panic:panic#1':
        ('review', 'only if two changes carry the same receive timestamp: the topic cache is keyed by it (unique map key) and each change is handed over once (C01 R01.2)'),
    'dds::with_key::datasample_cache::DataSampleCache::mark_instances_viewed/K3-panic:panic#1':
        ('review', 'the instances come from the same cache inside the same &mut call; nothing removes them in between'),
    'dds::with_key::simpledatareader::SimpleDataReader::acquire_the_topic_cache_guard::{closure#0}/K3-panic:panic#1':
        ('type', 'only on a poisoned mutex (another thread already panicked)'),
}


def content_type(ty):
    return any(x in (ty or '') for x in ('SerializedPayload', 'CacheChange', 'DDSData', 'bytes::Bytes'))


def rule_09_5(rep, fx, eps):
    from rdv import taint as T
    from rules.C06 import auto_cindex, auto_index_min
    rep.rule('R09.5', 'no content-dependent panic on the read path: on every function reachable from the read/take/poll_next entry points (outside rtps::), a slice/index/split, unwrap/expect, '
                      'assert or panic whose operand is content of a cached change (SerializedPayload, CacheChange, DDSData, Bytes) is guarded by a dominating length check or is a reviewed '
                      'site; such a panic happens with the topic-cache and read-state locks held and poisons them, so no later change is delivered')
    tt = T.Taint(fx, roots=[b.key for b in eps], ty_pred=content_type, skip_prefixes=('security::', 'ros2::', 'rtps::', 'discovery::', 'network::'))
    seen = set()
    for h in tt.hazards():
        if h['kind'] == 'K5-arith' or h['key'] in seen:
            continue
        seen.add(h['key'])
        key = h['key']
        raw = h['raw']
        if h['kind'] == 'K3-unwrap' and raw[0] == 'call' and raw[1].endswith('::lock'):
            rep.ok('R09.5', key, 'poison-only: unwrap of Mutex::lock()', h['where'])
            continue
        if h['kind'] == 'K3-cindex':
            why = auto_cindex(fx, tt, h)
            rep.check(bool(why), 'R09.5', key, why or '', 'a constant index/slice (%s %s) is applied to the content of a cached change without a dominating length check: a short payload panics '
                      'with the topic-cache lock held and wedges the reader' % (h['callee'], h['term']), h['where'])
            continue
        if h['kind'] == 'K3-index':
            why = auto_index_min(fx, tt, h)
            if why:
                rep.ok('R09.5', key, why, h['where'])
                continue
        d = READ_DISCHARGE.get(key)
        rep.check(d is not None, 'R09.5', key, '%s: %s' % (d or ('', '')), 'content of a cached change reaches a %s hazard (%s) on the read path that is not discharged: %s' % (
            h['kind'], h['callee'], h['term']), h['where'])
    rep.coverage_extra['read_path_functions'] = len(tt.reach)
    rep.floor('R09.5', len(seen), 4, 'hazard sites on the read path')


def rule_09_6(rep, fx):
    """A change taken out of the receive cache (the read pointers have moved past it) must reach the DataReader's own cache: nothing may sit between the two where an
    error for a *later* change can discard it."""
    rep.rule('R09.6', 'consume implies deliver: wherever a DataReader pulls changes with SimpleDataReader::try_take_one*, every path from the Some(change) result to a return or to the '
                      'next pull passes the hand-over into the local sample cache (fill_from_deserialized_cache_change / add_sample): an undecodable later change cannot take '
                      'well-formed earlier ones with it')
    n = 0
    for b in fx.bodies:
        if not (b.key.startswith('dds::with_key::datareader::') or b.key.startswith('dds::no_key::datareader::')):
            continue
        pulls = [(bb, t) for bb, t in b.calls() if strip_generics(callee_res(t)).endswith(('SimpleDataReader::try_take_one', 'SimpleDataReader::try_take_one_with'))]
        if not pulls:
            continue
        rep.analysed(b)
        og = Origins(b, summaries=False)
        P = Pos(b)
        edges = list(switch_edges(b, fx, og))
        if b.kind == 'closure':
            n += 1
            rep.violation('R09.6', '%s/pull-in-closure' % b.key, '%s pulls changes from the SimpleDataReader inside a closure (e.g. an iterator adaptor): the taken changes are buffered outside the '
                          'sample cache and are lost if the adaptor stops on an error' % b.key, b.where(pulls[0][0]))
            continue
        sinks = [(bb, 'term') for bb, t in b.calls() if strip_generics(callee_res(t)).endswith(('fill_from_deserialized_cache_change', 'DataSampleCache::add_sample'))]
        for pb, t in pulls:
            n += 1
            some = [(s_, t_) for s_, t_, cond, lab in primary_edges(b, edges) if lab == 'Some' and cond[0] == 'discr' and term_has(cond, lambda x: x[0] == 'call' and len(x) > 3 and x[3] == pb)]
            ok = bool(some) and bool(sinks)
            for s_, t_ in some:
                for goal in [(r, 'term') for r in b.return_blocks()] + [(pb, 'term')]:
                    if P.can_reach((t_, 0), goal, avoid_pos=sinks):
                        ok = False
            if not ok and some and sinks:
                # a path that ends the iteration without the hand-over is tolerable only where the change is undeliverable by construction: a dispose on a NO_KEY topic
                # (feasible paths evaluated store-aware; anything else is a report)
                ok = _only_nokey_disposes_dropped(fx, b, og, pb, some, sinks)
            rep.check(ok, 'R09.6', '%s/pull#%d' % (b.key, n), 'each pulled change is handed to the sample cache before the next pull / return',
                      '%s can pull a change out of the receive cache and return (or pull again) without storing it in the sample cache: the change is consumed but never delivered' % b.key, b.where(pb))
    rep.floor('R09.6', n, 1, 'places where a DataReader pulls changes from its SimpleDataReader')


TRUNCATING = ('map_while', 'take_while', 'take', 'scan', 'skip_while', 'step_by', 'nth', 'find', 'find_map', 'position', 'try_for_each', 'try_fold')


def rule_09_7(rep, fx):
    from rules import nokeyinv
    """A dispose (or any change that does not unwrap to a value) in a batch is skipped, it does not end the batch."""
    rep.rule('R09.7', 'iterator forms do not stop at a change they cannot unwrap: the iterators returned by the no_key DataReader (iterator, conditional_iterator, into_iterator, '
                      'into_conditional_iterator) and by the with_key bare iterators are built from selecting / mapping adaptors only; a truncating adaptor (map_while, take_while, '
                      'scan, ...) would drop every sample behind the first dispose of the batch')
    n = 0
    for b in fx.bodies:
        if b.kind not in ('fn', 'assoc_fn') or not b.key.startswith(('dds::no_key::datareader::DataReader::', 'dds::with_key::datareader::DataReader::')):
            continue
        if b.name not in ('iterator', 'conditional_iterator', 'into_iterator', 'into_conditional_iterator'):
            continue
        n += 1
        rep.analysed(b)

        def excused(t):
            # map_while(Sample::value) ends only at a dispose; over the cache-based DataReader of a NO_KEY topic there is none (rules/nokeyinv.py), so nothing is cut off
            if 'dds::no_key::datareader::DataReader::' not in b.key or callee_res(t).rsplit('::', 1)[-1] != 'map_while' or len(t['args']) < 2:
                return False
            d = ((t['args'][1].get('k') or {}).get('def') or '')
            return d.endswith('::value') and 'datasample::Sample' in d and nokeyinv.holds(fx)
        bad = sorted(set(callee_res(t).rsplit('::', 1)[-1] for _bb, t in b.calls() if ('Iterator' in callee_res(t) or 'iter::' in callee_res(t)) and callee_res(t).rsplit('::', 1)[-1] in TRUNCATING
                         and not excused(t)))
        for c in fx.closures_of(b):
            bad += sorted(set(callee_res(t).rsplit('::', 1)[-1] for _bb, t in c.calls() if ('Iterator' in callee_res(t) or 'iter::' in callee_res(t)) and callee_res(t).rsplit('::', 1)[-1] in TRUNCATING))
        rep.check(not bad, 'R09.7', '%s::%s' % ('no_key' if 'no_key' in b.key else 'with_key', b.name), 'no truncating adaptor',
                  '%s builds its iterator with %s: the batch ends at the first change that does not unwrap to a value (e.g. a dispose on a NO_KEY topic); for the into_* forms the rest '
                  'of the batch is already removed from the cache and is lost' % (b.key, ', '.join(bad)), b.where())
    rep.floor('R09.7', n, 8, 'iterator forms of the with_key and no_key DataReader')


def _nokey_eq_blocks(b, og):
    """Blocks whose terminator is `<TopicKind as PartialEq>::eq(topic.kind(), NoKey)`."""
    out = set()
    for bb, t in b.calls():
        if t['f'].get('def') == 'std::cmp::PartialEq::eq' and 'TopicKind' in (t['f'].get('self_ty') or ''):
            a = [og.of_operand(x, bb, 'term') for x in t['args']]
            if any(term_has(x, lambda z: z[0] == 'call' and z[1].endswith('Topic::kind')) for x in a) and any(term_has(x, lambda z: 'NoKey' in str(z)) for x in a):
                out.add(bb)
    return out


def _path_facts(st, nokey_calls):
    """(topic kind is NoKey on this path: True / False / None, the pulled change is a dispose: True / False / None)"""
    from rdv.sympath import term_find
    nokey = dispose = None
    for ev in st.trace:
        if ev[0] == 'switch' and ev[2][0] == 'call' and len(ev[2]) > 3 and ev[2][3] in nokey_calls:
            nokey = (ev[3] != [0])
    for val, names, is_ in st.variants:
        if term_find(val, lambda z: z[0] == 'fld' and z[1] == 'sample'):
            if is_ and names:
                dispose = (tuple(names) == ('Dispose',)) if 'Dispose' in names else False
            elif not is_ and 'Dispose' in names:
                dispose = False
    return nokey, dispose


def _only_nokey_disposes_dropped(fx, b, og, pull_bb, some_edges, sinks):
    from rdv.sympath import SymPath
    nokey_calls = _nokey_eq_blocks(b, og)
    if not nokey_calls:
        return False
    sink_blocks = set(bb for bb, _k in sinks)
    heads = set(l[0] for l in natural_loops(b))
    enders = set(b.return_blocks())
    for bb in b.live_blocks():
        if any(sx in heads for sx in b.succs(bb)):
            enders.add(bb)            # source of a back edge: the iteration ends here
    sp = SymPath(b, fx)
    n = 0
    for g in sorted(enders):
        for path in sp.paths(0, g, through_heads=True, avoid=tuple(sink_blocks)):
            if not any((path[i], path[i + 1]) in set(some_edges) for i in range(len(path) - 1)):
                continue
            st = sp.run(path, 'term')
            if st.infeasible:
                continue
            n += 1
            nokey, dispose = _path_facts(st, nokey_calls)
            if not (nokey is True and dispose is True):
                return False
    return n > 0


def rule_09_8(rep, fx):
    """Nothing invisible counts against a bound. The no_key facade drops disposes from what the keyed DataReader returns *after* max_samples was applied there; a dispose
    in the keyed sample cache of a NO_KEY topic therefore makes take_next_sample() report None, and take(n)/read(n) come back short, while samples are available."""
    from rdv.sympath import SymPath
    rep.rule('R09.8', 'nothing invisible counts against a bound: wherever the no_key DataReader drops elements (from_with_key / from_with_key_ref == None) from a bounded result '
                      'of the keyed DataReader, either the query is re-issued in a loop until enough visible samples were found, or no dispose of a NO_KEY topic ever reaches the keyed '
                      'sample cache (fill_and_lock_local_datasample_cache passes only non-dispose changes on to the cache when the topic kind is NoKey, on every feasible path)')
    # (a) the facade filters
    filt = []
    for b in fx.bodies:
        if not b.key.startswith('dds::no_key::datareader::'):
            continue
        loops = natural_loops(b)
        for bb, t in b.calls():
            if callee_res(t).endswith(('DataSample::<D>::from_with_key', 'DataSample::<D>::from_with_key_ref')):
                # is there an enclosing loop that also contains a query of the keyed reader?
                requery = False
                for lp in loops:
                    body_blocks = lp[1]
                    if bb in body_blocks and any(callee_res(t2).startswith('dds::with_key::datareader::DataReader') and callee_res(t2).rsplit('::', 1)[-1] in
                                                 ('take', 'read', 'take_next_sample', 'read_next_sample', 'take_bare', 'read_bare')
                                                 for b2, t2 in b.calls() if b2 in body_blocks):
                        requery = True
                filt.append((b, bb, requery))
    rep.floor('R09.8', len(filt), 2, 'dispose filters in the no_key DataReader facade')
    all_requery = bool(filt) and all(r for _b, _bb, r in filt)
    # (b) the cache never gets a dispose on a NO_KEY topic
    fl = fx.find('dds::with_key::datareader::DataReader::fill_and_lock_local_datasample_cache')
    rep.analysed(fl)
    og = Origins(fl, summaries=False)
    fills = [bb for bb, t in fl.calls() if callee_res(t).endswith('fill_from_deserialized_cache_change')]
    if not fills:
        raise CheckBroken('fill_and_lock_local_datasample_cache: no call of fill_from_deserialized_cache_change')
    nokey_calls = _nokey_eq_blocks(fl, og)
    sp = SymPath(fl, fx)
    filtered = True
    n_paths = 0
    for goal in fills:
        for path in sp.paths(0, goal, through_heads=True):
            st = sp.run(path, 'term')
            if st.infeasible:
                continue
            n_paths += 1
            nokey, dispose = _path_facts(st, nokey_calls)
            if not (nokey is False or dispose is False):
                filtered = False
    filtered = filtered and n_paths > 0 and bool(nokey_calls)
    rep.check(all_requery or filtered, 'R09.8', 'no_key::DataReader/dispose-counts-against-bound',
              're-query loop in every facade filter' if all_requery else 'the keyed cache of a NO_KEY topic never receives a dispose (%d feasible paths to the cache fill examined)' % n_paths,
              'the no_key DataReader drops disposes from a bounded result of the keyed DataReader without re-querying (%d filter site(s)), and a dispose received on a NO_KEY topic is '
              'stored in the keyed sample cache: take_next_sample()/read_next_sample() return None and take(n)/read(n) come back short while samples are available; an application '
              'that takes until nothing more is returned stops early and is not notified again' % len(filt), fl.where())


def rule_09_9(rep, fx):
    """A DATA that the RTPS Reader cannot turn into a change (structurally: its bytes decide, so a retransmission is no different) still consumes a sequence number. If the
    writer proxy never hears of it, a Reliable reader waits for it forever and nothing the writer sends afterwards is delivered."""
    rep.rule('R09.9', 'a rejected DATA is accounted for: in Reader::handle_data_msg every path from the Err result of data_to_dds_data to the return records the sequence number of '
                      'that DATA in the writer proxy of its writer (set_irrelevant_change / received_changes_add, directly or through a Reader helper that applies it to its own '
                      'parameters), so the reliable stream moves past a change it can make nothing of')
    b = fx.find('rtps::reader::Reader::handle_data_msg')
    rep.analysed(b)
    og = Origins(b, summaries=False)
    P = Pos(b)
    edges = list(switch_edges(b, fx, og))
    err = [(s_, t_) for s_, t_, cond, lab in edges if lab == 'Err' and cond[0] == 'discr' and term_has(cond, lambda x: x[0] == 'call' and x[1].endswith('Reader::data_to_dds_data'))]
    if not err:
        raise CheckBroken('handle_data_msg: Err edge of data_to_dds_data not found')
    # helpers: Reader methods that record one of their parameters as irrelevant/received in the proxy looked up by another parameter
    recorders = set()
    for h in fx.bodies:
        if not h.key.startswith('rtps::reader::Reader::') or h.kind not in ('fn', 'assoc_fn'):
            continue
        ogh = Origins(h, summaries=False)
        for bb, t in h.calls():
            if callee_res(t).endswith(('RtpsWriterProxy::set_irrelevant_change', 'RtpsWriterProxy::received_changes_add')):
                sn = ogh.of_operand(t['args'][1], bb, 'term')
                wp = ogh.of_operand(t['args'][0], bb, 'term')
                if _strip9(sn)[0] == 'param' and term_has(wp, lambda x: x[0] == 'call' and x[1].endswith('matched_writer_mut') and term_has(x, lambda y: y[0] == 'param' and y[1] >= 2)):
                    recorders.add((h.key, _strip9(sn)[1]))
    sinks = []
    for bb, t in b.calls():
        cr = norm_path(callee_res(t))
        for hk, pi in recorders:
            if cr == hk and len(t['args']) >= pi:
                v = og.of_operand(t['args'][pi - 1], bb, 'term')
                if term_has(v, lambda x: x[0] == 'field' and x[1] == 'writer_sn'):
                    sinks.append((bb, 'term'))
    ok = bool(sinks)
    for s_, t_ in err:
        for r in b.return_blocks():
            if P.can_reach((t_, 0), (r, 'term'), avoid_pos=sinks):
                ok = False
    rep.check(ok, 'R09.9', 'handle_data_msg/rejected-data-accounted', 'Err => the DATA\'s writer_sn is recorded in the writer proxy on every path',
              'Reader::handle_data_msg only logs when data_to_dds_data rejects a DATA: its sequence number is never recorded in the writer proxy, so a Reliable reader requests it forever '
              '(the retransmission is rejected the same way) and delivers no later sample of that writer', b.where(err[0][0]))
    rule_09_9_frag(rep, fx)


def rule_09_9_frag(rep, fx):
    """The same for a sample that arrives in fragments (raised F23: the lifespan exit and a completed sample that cannot be parsed both left the number missing for ever)."""
    b = fx.find('rtps::reader::Reader::handle_datafrag_msg')
    rep.analysed(b)
    og = Origins(b, summaries=False)
    P = Pos(b)
    edges = list(switch_edges(b, fx, og))
    recorders = set()
    for h in fx.bodies:
        if not h.key.startswith('rtps::reader::Reader::') or h.kind not in ('fn', 'assoc_fn'):
            continue
        ogh = Origins(h, summaries=False)
        for bb, t in h.calls():
            if callee_res(t).endswith(('RtpsWriterProxy::set_irrelevant_change', 'RtpsWriterProxy::received_changes_add')):
                sn = ogh.of_operand(t['args'][1], bb, 'term')
                wp = ogh.of_operand(t['args'][0], bb, 'term')
                if _strip9(sn)[0] == 'param' and term_has(wp, lambda x: x[0] == 'call' and x[1].endswith('matched_writer_mut') and term_has(x, lambda y: y[0] == 'param' and y[1] >= 2)):
                    recorders.add((h.key, _strip9(sn)[1]))
    sinks = []
    for bb, t in b.calls():
        cr = norm_path(callee_res(t))
        for hk, pi in recorders:
            if cr == hk and len(t['args']) >= pi:
                v = og.of_operand(t['args'][pi - 1], bb, 'term')
                if term_has(v, lambda x: x[0] == 'field' and x[1] == 'writer_sn'):
                    sinks.append((bb, 'term'))
    # still being assembled: the assembler holds a buffer for this number (true edge of is_frag_partially_received / is_partially_received on it)
    waiting = [(s_, t_) for s_, t_, cond, lab in edges if
               (cond[0] == 'call' and cond[1].endswith(('is_frag_partially_received', 'is_partially_received')) and lab is True and term_has(cond, lambda x: x[0] == 'field' and x[1] == 'writer_sn')) or
               (cond[0] == 'un' and cond[1] == 'Not' and cond[2][0] == 'call' and cond[2][1].endswith(('is_frag_partially_received', 'is_partially_received')) and lab is False and
                term_has(cond, lambda x: x[0] == 'field' and x[1] == 'writer_sn'))]
    expired = [(s_, t_) for s_, t_, cond, lab in edges if lab is True and cond[0] == 'call' and cond[1].rsplit('::', 1)[-1] in ('lt', 'gt', 'le', 'ge') and
               term_has(cond, lambda x: x[0] == 'field' and x[1] in ('lifespan', 'duration'))]
    ok_e = bool(expired)
    for s_, t_ in expired:
        for r in b.return_blocks():
            if P.can_reach((t_, 0), (r, 'term'), avoid_pos=sinks):
                ok_e = False
    rep.check(ok_e, 'R09.9', 'handle_datafrag_msg/expired-accounted', 'lifespan exceeded => the sample\'s writer_sn is recorded in the writer proxy before the return',
              'Reader::handle_datafrag_msg returns for a sample whose lifespan has expired without recording its sequence number in the writer proxy: a Reliable reader requests it for ever '
              '(every retransmission is just as old) and delivers no later sample of that writer', b.where(expired[0][0]) if expired else b.where())
    ok_c = True
    for r in b.return_blocks():
        if not P.every_path_passes(None, (r, 'term'), via_pos=sinks, via_edges=waiting + expired, from_entry=True):
            ok_c = False
    rep.check(ok_c and bool(sinks), 'R09.9', 'handle_datafrag_msg/completed-unusable-accounted', 'every exit: handed to process_received_data, recorded as unavailable, or still being assembled',
              'Reader::handle_datafrag_msg can return with the sample neither delivered, nor recorded as unavailable, nor still in the assembler (all fragments arrived but the bytes are not '
              'a usable payload): the sequence number stays missing, is requested with every HEARTBEAT, and no later sample of that writer is delivered', b.where())


def _strip9(t):
    while isinstance(t, tuple) and t and t[0] in ('ref', 'deref', 'copy', 'move') and len(t) > 1 and isinstance(t[1], tuple):
        t = t[1]
    return t


def rule_range_bounds(rep, fx, rid):
    """BTreeMap::range panics when start > end, or start == end with both excluded. In the topic cache that happens with the mutex held: the poisoned lock stops every
    reader of the topic and the receive thread (raised F30: the best-effort query between two wall-clock readings, after the clock was set back)."""
    rep.rule(rid, 'legal range bounds in the topic cache: every BTreeMap::range((lo, hi)) in TopicCache (and its closures) whose two bounds are run-time values has hi = max(lo, ..) '
                  '(for an included end) or max(lo + 1, ..) (both ends excluded), or lies behind an edge that orders the two; an Unbounded side needs nothing')
    n = 0
    for b in fx.bodies:
        if 'structure::dds_cache::TopicCache::' not in b.key:
            continue
        og = None
        for bb, t in b.calls():
            if not callee_res(t).endswith('::range') or len(t['args']) < 2:
                continue
            og = og or Origins(b, summaries=True)
            a = og.of_operand(t['args'][1], bb, 'term')
            if b.kind == 'closure':
                from rdv.core import resolve_captures
                a = resolve_captures(fx, b, a)
            if not (a[0] == 'agg' and a[1] == 'tuple' and len(a[2]) == 2):
                continue
            lo_b, hi_b = a[2]
            if not (lo_b[0] == 'agg' and hi_b[0] == 'agg'):
                continue
            klo, khi = str(lo_b[1]).rsplit('::', 1)[-1], str(hi_b[1]).rsplit('::', 1)[-1]
            if 'Unbounded' in (klo, khi):
                continue
            n += 1
            lo, hi = lo_b[2][0], hi_b[2][0]
            both_excl = klo == 'Excluded' and khi == 'Excluded'
            ok = False
            if hi[0] == 'call' and hi[1].endswith('cmp::max'):
                for x in hi[2]:
                    if not both_excl and _same9(x, lo):
                        ok = True
                    if both_excl and x[0] == 'call' and x[1].endswith('plus_1') and _same9(x[2][0], lo):
                        ok = True
            if not ok:
                # a dominating comparison of the two
                P = Pos(b)
                for s_, t_, cond, lab in switch_edges(b, fx, og):
                    if cond[0] == 'call' and cond[1].rsplit('::', 1)[-1] in ('lt', 'le', 'gt', 'ge') and len(cond[2]) == 2 and isinstance(lab, bool):
                        x, y = cond[2]
                        op = cond[1].rsplit('::', 1)[-1]
                        if _same9(x, lo) and _same9(y, hi):
                            good = (op in ('lt',) and lab) or (op == 'le' and lab and not both_excl) or (op == 'ge' and not lab) or (op == 'gt' and not lab and not both_excl)
                        elif _same9(x, hi) and _same9(y, lo):
                            good = (op in ('gt',) and lab) or (op == 'ge' and lab and not both_excl) or (op == 'le' and not lab) or (op == 'lt' and not lab and not both_excl)
                        else:
                            continue
                        if good and P.every_path_passes(None, (bb, 'term'), via_edges=[(s_, t_)], from_entry=True):
                            ok = True
            fn = b.key.split('TopicCache::')[-1]
            rep.check(ok, rid, '%s/range#%d' % (fn, n), '(%s(lo), %s(hi)) with hi >= lo%s by construction' % (klo, khi, ' + 1' if both_excl else ''),
                      'TopicCache::%s ranges over (%s(%s), %s(%s)) without making sure the end is not before the start: BTreeMap::range panics with the topic cache locked when it is '
                      '(e.g. two readings of the wall clock after the clock was set back), and the poisoned mutex stops every reader of the topic and the receive thread' %
                      (fn, klo, term_str(lo)[:40], khi, term_str(hi)[:40]), b.where(bb))
    rep.floor(rid, n, 2, 'two-sided range() calls in TopicCache')


def _same9(a, b):
    return _strip9(a) == _strip9(b)
