"""C18  Access is granted exactly as the signed permissions and governance say.

Provenance ("parse only verified bytes"), who-may-read, first-match shape and exhaustive
formula rules on the security-feature MIR. Glob matching, X.509 subject matching, XML
parsing and the signature algorithm itself are not decided.
"""
import itertools

from rdv.absint import Cell, Interp, Unsupported
from rdv.core import (CheckBroken, Origins, Pos, call_matches, callee_res, natural_loops, norm_path, strip_generics,
                      switch_edges, term_has, term_leaves, term_str)

CONFIGS = ['security']
LEVEL = 'other'

AC = 'security::access_control::access_control_builtin::'
PARSERS = ('DomainGovernanceDocument::from_xml', 'DomainParticipantPermissions::from_xml')


def has_call(t, suffix):
    return term_has(t, lambda x: x[0] == 'call' and x[1].endswith(suffix))


def closure_returns_verified(fx, key, depth=0):
    """The closure's result is the result of verify_signature (directly or as the last stage of an and_then chain)."""
    if depth > 4:
        return False
    for c in fx.by_key.get(key, []):
        og = Origins(c, summaries=True)
        rets = c.return_blocks()
        if not rets:
            continue
        t = og.of_local(0, rets[0], 'term')
        if value_is_verified(fx, t, depth + 1):
            return True
    return False


def value_is_verified(fx, t, depth=0):
    """The Ok value of this Result term is what verify_signature returned."""
    if depth > 6:
        return False
    if t[0] == 'phi':
        return all(value_is_verified(fx, x, depth + 1) for x in t[1])
    if t[0] == 'variant' and t[1] in ('Continue', 'Ok'):
        return value_is_verified(fx, t[2], depth + 1)
    if t[0] == 'field' and t[1] == '0':
        return value_is_verified(fx, t[2], depth + 1)
    if t[0] != 'call':
        return False
    name = t[1]
    if name.endswith('SignedDocument::verify_signature'):
        return True
    if name.endswith('::map_err') or name.endswith('::inspect_err') or name.endswith('Try::branch'):
        return value_is_verified(fx, t[2][0], depth + 1)
    if name.endswith('::and_then') and len(t[2]) == 2:
        c = t[2][1]
        if c[0] == 'agg':
            return closure_returns_verified(fx, c[1], depth + 1)
    return False


def run(rep, facts, tier):
    fx = facts['security']
    rep.explanation = ('Governance/permissions XML is parsed only from the Ok value of SignedDocument::verify_signature; the raw content field is readable only by the '
                       'verifier; verify_signature succeeds only past the digest equality and the signature verification; the four rule lookups are first-match on a '
                       'forward iteration; DomainIds::matches and the entity-kind tables are compared exhaustively with their reference formulas.')
    rep.assume('glob::Pattern matching, X.509 subject matching, XML parsing and the signature algorithm are correct (not decided)',
               'the Permissions CA certificate handed to verify_signature is the configured one')
    rep.rule('R18.1', 'verified provenance: every call of DomainGovernanceDocument::from_xml / DomainParticipantPermissions::from_xml receives the Ok value of verify_signature')
    rep.rule('R18.2', 'SignedDocument.content is read only inside verify_signature; its Ok exit is past the digest-equality branch and the Ok continuation of the signature verification')
    rep.rule('R18.3', 'first match: find_grant, Grant::check_action, DomainGovernanceDocument::find_rule, DomainRule::find_topic_rule take the first element of a forward iteration '
                      'satisfying the predicate; check_action falls back to default_action; find_grant requires subject AND validity; a missing topic rule means protected')
    rep.rule('R18.4', 'formulas: DomainIds::matches == {v = i, lo <= i <= hi, lo <= i, i <= hi} (exhaustive over orderings); entity-kind tables (writer<->write/publish, '
                      'reader<->read/subscribe, topic<->both); result = unprotected OR permitted')

    # ---------------------------------------------------------------- R18.1
    n = 0
    for b in fx.bodies:
        for bb, t in b.calls():
            if not call_matches(t, *PARSERS):
                continue
            n += 1
            rep.analysed(b)
            og = Origins(b, summaries=True)
            a = og.of_operand(t['args'][0], bb, 'term')
            ok = False
            why = term_str(a)[:120]
            if has_call(a, 'SignedDocument::verify_signature'):
                # direct: the bytes are the Continue/Ok payload of verify_signature
                ok = any(x[0] == 'variant' and x[1] in ('Continue', 'Ok') and value_is_verified(fx, x[2]) for x in term_leaves(a)) or \
                    any(x[0] == 'call' and x[1].endswith('verify_signature') for x in term_leaves(a))
            elif term_has(a, lambda x: x == ('param', 2)) and b.kind == 'closure':
                # the closure's parameter: the closure must be applied by and_then/map to a verified Result
                parent_key = norm_path(b.j.get('parent') or '')
                for pb in fx.by_key.get(parent_key, []):
                    pog = Origins(pb, summaries=True)
                    for pbb, pt in pb.calls():
                        if callee_res(pt).endswith(('Result::<T, E>::and_then', 'Result::<T, E>::map')) and len(pt['args']) == 2:
                            c = pog.of_operand(pt['args'][1], pbb, 'term')
                            if c[0] == 'agg' and c[1] == b.key:
                                recv = pog.of_operand(pt['args'][0], pbb, 'term')
                                ok = value_is_verified(fx, recv)
                                why = 'closure applied to ' + term_str(recv)[:100]
            rep.check(ok, 'R18.1', '%s/%s#%d' % (b.key, callee_res(t).rsplit('::', 2)[-2], n), 'parses the Ok value of verify_signature',
                      'an access-control document is parsed from bytes that are not the verified output of SignedDocument::verify_signature (%s)' % why, b.where(bb))
    rep.floor('R18.1', n, 3, 'calls of the XML document parsers')

    # ---------------------------------------------------------------- R18.2
    vs = fx.find(AC + 's_mime_config_parser::SignedDocument::verify_signature')
    rep.analysed(vs)
    n_reads = 0
    for b in fx.bodies:
        for bb, si, st in b.statements():
            if st['s'] != 'assign':
                continue
            rv = st['rv']
            places = []
            if rv['r'] in ('ref', 'discr', 'rawptr'):
                places.append(rv['pl'])
            for key in ('x', 'a', 'b'):
                o = rv.get(key)
                if isinstance(o, dict) and o.get('o') in ('copy', 'move'):
                    places.append(o['pl'])
            for o in rv.get('ops') or []:
                if o.get('o') in ('copy', 'move'):
                    places.append(o['pl'])
            for pl in places:
                for e in pl.get('p') or []:
                    if isinstance(e, dict) and e.get('n') == 'content' and (e.get('adt') or '').endswith('SignedDocument'):
                        n_reads += 1
                        ok = b.key == vs.key or b.key.startswith(vs.key + '::') or (b.impl_trait in ('std::fmt::Debug', 'std::clone::Clone') and 'SignedDocument' in (b.impl_self or ''))
                        rep.check(ok, 'R18.2', '%s/reads-content#%d' % (b.key, n_reads), 'read inside verify_signature',
                                  'SignedDocument.content (unverified bytes) is read in %s, outside verify_signature' % b.key, b.where(bb, si))
    rep.floor('R18.2', n_reads, 2, 'reads of SignedDocument.content')
    og = Origins(vs, summaries=True)
    P = Pos(vs)
    edges = list(switch_edges(vs, fx, og))
    digest_ok = []
    for s_, t_, cond, lab in edges:
        if cond[0] == 'call' and (cond[1].endswith('::ne') or cond[1].endswith('::eq')) and has_call(cond, 'digest::digest') or \
                (cond[0] == 'call' and (cond[1].endswith('::ne') or cond[1].endswith('::eq')) and term_has(cond, lambda x: x[0] == 'call' and x[1].endswith('digest'))):
            if (cond[1].endswith('::ne') and lab is False) or (cond[1].endswith('::eq') and lab is True):
                digest_ok.append((s_, t_))
    sig_ok = [(s_, t_) for s_, t_, cond, lab in edges if lab in ('Continue', 'Ok') and cond[0] == 'discr' and has_call(cond[1], 'verify_signed_data_with_algorithm')
              and cond[1][0] == 'call']
    n_ok = 0
    for bb, si, st in vs.statements():
        if st['s'] == 'assign' and st['lhs']['l'] == 0 and st['rv']['r'] == 'agg' and st['rv'].get('variant') == 'Ok':
            n_ok += 1
            ok1 = bool(digest_ok) and P.every_path_passes(None, (bb, si), via_edges=digest_ok, from_entry=True)
            ok2 = bool(sig_ok) and P.every_path_passes(None, (bb, si), via_edges=sig_ok, from_entry=True)
            rep.check(ok1, 'R18.2', 'verify_signature/ok#%d/digest' % n_ok, 'Ok only if the signed digest equals the digest of the content',
                      'verify_signature can return Ok without the content digest having matched the signed digest', vs.where(bb, si))
            rep.check(ok2, 'R18.2', 'verify_signature/ok#%d/signature' % n_ok, 'Ok only after verify_signed_data_with_algorithm succeeded',
                      'verify_signature can return Ok without the signature verification having succeeded', vs.where(bb, si))
            v = og.of_operand(st['rv']['ops'][0], bb, si)
            rep.check(term_has(v, lambda x: x[0] == 'field' and x[1] == 'content'), 'R18.2', 'verify_signature/ok#%d/value' % n_ok, 'returns the content the digest was computed over',
                      'verify_signature returns something other than the digested content', vs.where(bb, si))
    rep.floor('R18.2', n_ok, 1, 'Ok exits of verify_signature')
    # the digest is computed over self.content
    dig = [t for bb, t in vs.calls() if callee_res(t).endswith('digest::digest')]
    okd = False
    for bb, t in vs.calls():
        if callee_res(t).endswith('digest::digest'):
            okd = term_has(og.of_operand(t['args'][1], bb, 'term'), lambda x: x[0] == 'field' and x[1] == 'content')
    rep.check(okd, 'R18.2', 'verify_signature/digest-of-content', 'digest computed over self.content', 'the digest compared with the signature is not computed over self.content', vs.where())

    # ---------------------------------------------------------------- R18.3
    lookups = [
        (AC + 'domain_participant_permissions_document::DomainParticipantPermissions::find_grant', 'grants'),
        (AC + 'domain_participant_permissions_document::Grant::check_action', 'rules'),
        (AC + 'domain_governance_document::DomainGovernanceDocument::find_rule', 'domain_access_rules'),
        (AC + 'domain_governance_document::DomainRule::find_topic_rule', 'topic_access_rules'),
    ]
    for key, fld in lookups:
        b = fx.find(key)
        rep.analysed(b)
        og = Origins(b, summaries=True)
        finds = []
        bad_calls = []
        for bb, t in b.calls():
            r = callee_res(t)
            d = t['f'].get('def') or ''
            last = strip_generics(d).rsplit('::', 1)[-1]
            if last == 'find' and 'Iterator' in d:
                finds.append((bb, t))
            if last in ('rfind', 'rev', 'last', 'max_by', 'max_by_key', 'min_by', 'min_by_key', 'rposition', 'nth_back', 'next_back', 'filter', 'fold', 'reduce'):
                bad_calls.append(last)
        loops = natural_loops(b)
        if finds and not bad_calls and not loops:
            bb, t = finds[0]
            recv = og.of_operand(t['args'][0], bb, 'term')
            ok = recv[0] == 'call' and recv[1].endswith('::iter') and term_has(recv, lambda x: x[0] == 'field' and x[1] == fld)
            rep.check(ok, 'R18.3', '%s/first-match' % key.rsplit('::', 2)[-2] + '::' + key.rsplit('::', 1)[-1], 'self.%s.iter().find(pred)' % fld,
                      '%s does not take the first matching element of a forward iteration over self.%s' % (key.rsplit('::', 1)[-1], fld), b.where(bb))
        elif loops and not finds:
            # hand-written loop: after the verdict/selection is assigned there must be no way back into the loop
            ok = True
            for h, blocks, _srcs in loops:
                for bb in blocks:
                    for si, st in enumerate(b.blocks[bb]['st']):
                        if st['s'] == 'assign' and (st['lhs']['l'] == 0 or b.local_names().get(st['lhs']['l']) in ('verdict', 'result', 'found', 'decision', 'action')):
                            P = Pos(b)
                            if P.can_reach((bb, si), (h, 0)):
                                ok = False
            rep.check(ok, 'R18.3', '%s/first-match' % key.rsplit('::', 2)[-2] + '::' + key.rsplit('::', 1)[-1], 'loop leaves at the first applicable element',
                      '%s keeps iterating after an applicable element set the result: a later rule overrides the first applicable one' % key.rsplit('::', 1)[-1], b.where())
        else:
            rep.violation('R18.3', '%s/first-match' % key.rsplit('::', 2)[-2] + '::' + key.rsplit('::', 1)[-1],
                          '%s is not a first-match lookup (find on a forward iterator); found: finds=%d other=%s loops=%d' % (key.rsplit('::', 1)[-1], len(finds), bad_calls, len(loops)), b.where())
    ca = fx.find(AC + 'domain_participant_permissions_document::Grant::check_action')
    og = Origins(ca, summaries=True)
    t0 = og.of_local(0, ca.return_blocks()[0], 'term')
    ok = t0[0] == 'call' and t0[1].endswith('::unwrap_or') and term_has(t0[2][1], lambda x: x[0] == 'field' and x[1] == 'default_action') and \
        t0[2][0][0] == 'call' and t0[2][0][1].endswith('::map') and has_call(t0[2][0], '::find')
    if natural_loops(ca):
        ok = any(term_has(t0, lambda x: x[0] == 'field' and x[1] == 'default_action') for _ in [0])
    rep.check(ok, 'R18.3', 'Grant::check_action/default', 'no applicable rule => self.default_action; otherwise the found rule\'s verdict',
              'check_action does not fall back to the grant\'s default_action / does not return the found rule\'s verdict', ca.where())
    vc = [c for c in fx.closures_of(ca) if any(st['s'] == 'assign' and st['lhs']['l'] == 0 for _b, _s, st in c.statements())]
    okv = False
    for c in fx.closures_of(ca):
        cog = Origins(c)
        rets = c.return_blocks()
        if rets:
            tv = cog.of_local(0, rets[0], 'term')
            if tv[0] == 'field' and tv[1] == 'verdict':
                okv = True
    if not natural_loops(ca):
        rep.check(okv, 'R18.3', 'Grant::check_action/verdict', 'returns rule.verdict of the found rule', 'the mapped value is not the found rule\'s verdict', ca.where())
    fg = fx.find(AC + 'domain_participant_permissions_document::DomainParticipantPermissions::find_grant')
    okp = False
    for c in fx.closures_of(fg):
        cog = Origins(c, summaries=True)
        cP = Pos(c)
        subj = [(s_, t_) for s_, t_, cond, lab in switch_edges(c, fx, cog) if lab is True and cond[0] == 'call' and cond[1].endswith('::matches') and term_has(cond, lambda x: x[0] == 'field' and x[1] == 'subject_name')]
        # result definitions other than const false must be: under the subject edge AND be validity.contains(..)
        defs = []
        good = True
        for bb, t in c.calls():
            if t['dest']['l'] == 0 and not t['dest'].get('p'):
                r = callee_res(t)
                a0 = cog.of_operand(t['args'][0], bb, 'term')
                if not (r.endswith('::contains') and term_has(a0, lambda x: x[0] == 'field' and x[1] == 'validity')):
                    good = False
                defs.append((bb, 'term'))
        for bb, si, st in c.statements():
            if st['s'] == 'assign' and st['lhs']['l'] == 0 and not st['lhs'].get('p'):
                x = st['rv'].get('x') or {}
                if st['rv']['r'] == 'use' and x.get('o') == 'const' and x['k'].get('v') == 0:
                    continue
                good = False
        if defs and good and subj and all(cP.every_path_passes(None, d, via_edges=subj, from_entry=True) for d in defs):
            okp = True
    rep.check(okp, 'R18.3', 'find_grant/predicate', 'subject_name.matches(..) AND validity.contains(now)',
              'find_grant\'s predicate is not (subject matches) AND (validity contains the current time)', fg.where())

    # ---------------------------------------------------------------- R18.4
    dm = fx.find(AC + 'domain_participant_permissions_document::DomainIds::matches')
    rep.analysed(dm)
    adt = fx.adts.get(AC + 'domain_participant_permissions_document::DomainIds')
    if not adt:
        raise CheckBroken('DomainIds ADT not found')
    n_cases = 0
    n_bad = 0
    first_bad = None
    ranks = [0, 1, 2]
    for v in adt['variants']:
        nf = len(v['fields'])
        for combo in itertools.product(ranks, repeat=nf + 1):
            vals = combo[:nf]
            i = combo[nf]
            order = {}
            fvals = {}
            for k, f in enumerate(v['fields']):
                fvals[f['name']] = ('sym', 'f%d' % k, 'u16')
                order['f%d' % k] = vals[k]
            order['i'] = i

            def oracle(a, b, order=order):
                return (order[a] > order[b]) - (order[a] < order[b])
            it = Interp(fx, oracle)
            val = ('adt', strip_generics(adt['path']), v['name'], fvals)
            try:
                r = it.run(dm, [('ref', Cell(val)), ('sym', 'i', 'u16')])
            except Unsupported as e:
                raise CheckBroken('DomainIds::matches is no longer comparison-only: %s' % e)
            got = it.deref(r)[1] != 0
            name = v['name']
            if name == 'Value':
                exp = vals[0] == i
            elif name == 'Range':
                exp = vals[0] <= i <= vals[1]
            elif name == 'Min':
                exp = vals[0] <= i
            elif name == 'Max':
                exp = i <= vals[0]
            else:
                raise CheckBroken('DomainIds has an unknown variant %s' % name)
            n_cases += 1
            if got != exp:
                n_bad += 1
                first_bad = first_bad or '%s%s with i=%s: code %s, expected %s' % (name, vals, i, got, exp)
    rep.check(n_bad == 0, 'R18.4', 'DomainIds::matches', '%d orderings agree with {v=i, lo<=i<=hi, lo<=i, i<=hi}' % n_cases,
              'DomainIds::matches disagrees with the interval semantics in %d of %d orderings, e.g. %s' % (n_bad, n_cases, first_bad), dm.where())
    rep.coverage_extra['domainids_orderings'] = n_cases
    # entity-kind table of the "unprotected" closure in check_entity
    ce = fx.find('security::access_control::access_control_builtin::AccessControlBuiltin::check_entity')
    rep.analysed(ce)
    ents = [a for k, a in fx.adts.items() if k.endswith('access_control_builtin::types::Entity') or k.endswith('access_control_builtin::Entity')]
    ent = ents[0] if len(ents) == 1 else None
    cl = [c for c in fx.closures_of(ce) if any(isinstance(lab, str) and lab in ('Datawriter', 'Datareader', 'Topic') for _s, _t, _c, lab in switch_edges(c, fx, Origins(c)))]
    if len(cl) != 1 or not ent:
        raise CheckBroken('check_entity: entity-kind closure / Entity enum not found (%d)' % len(cl))
    c = cl[0]
    tr_adt = [a for k, a in fx.adts.items() if k.endswith('domain_governance_document::TopicRule')]
    n_bad = 0
    n = 0
    first_bad = None
    for kind in [v['name'] for v in ent['variants']]:
        for er, ew in itertools.product([0, 1], repeat=2):
            it = Interp(fx, lambda a, b: 0)
            rule = ('adt', strip_generics(tr_adt[0]['path']), None, {'enable_read_access_control': ('int', er), 'enable_write_access_control': ('int', ew)})
            env = ('closure', c.key, {'entity_kind': ('ref', Cell(('ref', Cell(('adt', strip_generics(ent['path']), kind, {})))))})
            try:
                r = it.call_closure(env, [('ref', Cell(rule))])
            except Unsupported:
                env = ('closure', c.key, {'entity_kind': ('ref', Cell(('adt', strip_generics(ent['path']), kind, {})))})
                try:
                    r = it.call_closure(env, [('ref', Cell(rule))])
                except Unsupported as e:
                    raise CheckBroken('check_entity entity-kind closure not interpretable: %s' % e)
            got = it.deref(r)[1] != 0
            exp = {'Datawriter': bool(ew), 'Datareader': bool(er), 'Topic': bool(er and ew)}[kind]
            n += 1
            if got != exp:
                n_bad += 1
                first_bad = first_bad or '%s read=%d write=%d: code says access control enabled=%s, expected %s' % (kind, er, ew, got, exp)
    rep.check(n_bad == 0, 'R18.4', 'check_entity/protection-table', '%d cases: writer<->write, reader<->read, topic<->both' % n,
              'the access-control-enabled table of check_entity is wrong in %d of %d cases, e.g. %s' % (n_bad, n, first_bad), c.where())
    # unprotected = find_topic_rule(..).map(closure).is_some_and(not): a missing rule means protected
    og = Origins(ce, summaries=True)
    P = Pos(ce)
    ok = False
    for bb, t in ce.calls():
        if callee_res(t).endswith('::is_some_and'):
            a0 = og.of_operand(t['args'][0], bb, 'term')
            a1 = og.of_operand(t['args'][1], bb, 'term')
            if a0[0] == 'call' and a0[1].endswith('::map') and has_call(a0, 'find_topic_rule') and a1[0] == 'const' and str(a1[2]).endswith('Not::not'):
                ok = True
    rep.check(ok, 'R18.4', 'check_entity/unprotected', 'unprotected = topic rule found AND access control not enabled for the entity kind (missing rule => protected)',
              'check_entity does not compute "unprotected" as find_topic_rule(..).map(table).is_some_and(not): a missing topic rule must mean protected', ce.where())
    # permitted: Publish for writers, Subscribe for readers
    acts = {}
    for bb, t in ce.calls():
        if call_matches(t, 'Grant::check_action'):
            a = og.of_operand(t['args'][1], bb, 'term')
            if a[0] == 'agg':
                acts[a[1].rsplit('::', 1)[-1]] = t['dest']['l']
    rep.check(set(acts) == {'Publish', 'Subscribe'}, 'R18.4', 'check_entity/actions', 'check_action(Publish) and check_action(Subscribe)',
              'check_entity does not evaluate exactly the Publish and Subscribe actions (%s)' % sorted(acts), ce.where())
    # result = unprotected || permitted
    n_ok = 0
    for bb, si, st in ce.statements():
        if st['s'] == 'assign' and st['rv']['r'] == 'agg' and st['rv'].get('variant') == 'Ok' and st['rv']['ops'] and st['rv']['ops'][0].get('o') in ('copy', 'move'):
            v = og.of_operand(st['rv']['ops'][0], bb, si)
            if v == ('const', 'int', 1):
                continue
            n_ok += 1
            good = v[0] == 'phi' and any(x == ('const', 'int', 1) for x in v[1]) and term_has(v, lambda x: x[0] == 'call' and x[1].endswith('check_action'))
            rep.check(good, 'R18.4', 'check_entity/result#%d' % n_ok, 'Ok(unprotected || permitted)',
                      'check_entity\'s result is not (unprotected OR permitted): %s' % term_str(v)[:140], ce.where(bb, si))

    rule_18_5(rep, fx)
    rule_18_6(rep, fx)

    rule_18_8(rep, fx)
    rule_18_9(rep, fx)
    rule_18_10(rep, fx)

    # ------------------------------------------------------------ R18.7 crossed roles (shared lint, rdv/swaplint.py)
    from rdv import swaplint
    swaplint.run_rule(rep, facts['security'], 'R18.7', ['security::access_control', 'security::certificate', 'security::config'])


# what may be done with a zoned timestamp (chrono::DateTime<FixedOffset>) read from a permissions document: only operations that keep the instant
INSTANT_PRESERVING = ('std::convert::From::from', 'std::convert::Into::into', 'chrono::DateTime::with_timezone', 'chrono::DateTime::to_utc', 'chrono::DateTime::naive_utc',
                      'chrono::DateTime::timestamp', 'chrono::DateTime::timestamp_millis', 'chrono::DateTime::timestamp_micros', 'chrono::DateTime::timestamp_nanos_opt',
                      'chrono::DateTime::timestamp_subsec_nanos', 'chrono::DateTime::timestamp_subsec_millis', 'chrono::DateTime::timestamp_subsec_micros',
                      'std::clone::Clone::clone', 'chrono::DateTime::fixed_offset')
ZONED = 'chrono::DateTime<chrono::FixedOffset>'
COMBINATORS = ('::map', '::and_then', '::map_or', '::map_or_else', '::is_ok_and', '::inspect')


def rule_18_5(rep, fx):
    rep.rule('R18.5', 'grant validity keeps the instant: in Grant::parse_time (and its closures) a zoned timestamp parsed from the document is only converted by '
                      'instant-preserving operations (From/Into DateTime<Utc>, with_timezone, to_utc, naive_utc, timestamp*); its wall-clock reading is never taken as UTC')
    b = fx.find('domain_participant_permissions_document::Grant::parse_time')
    bodies = [b] + fx.closures_of(b)
    rep.analysed(*bodies)
    n = 0
    closure_by_ty = {}
    for c in fx.closures_of(b):
        closure_by_ty[c.locals[1] if len(c.locals) > 1 else ''] = c

    def is_zoned(ty):
        return ZONED in (ty or '').replace("'_ ", '')
    for x in bodies:
        for bb, t in x.calls():
            r = strip_generics(callee_res(t))
            d = strip_generics(t['f'].get('def') or '')
            arg_tys = [x.locals[a['pl']['l']] if a.get('o') in ('copy', 'move') else '' for a in t['args']]
            if not any(is_zoned(ty) for ty in arg_tys):
                continue
            if r.endswith(COMBINATORS) and 'Result' in (arg_tys[0] or '') or r.endswith(COMBINATORS) and 'Option' in (arg_tys[0] or ''):
                # the function applied to the zoned value
                for a, ty in list(zip(t['args'], arg_tys))[1:]:
                    n += 1
                    if a.get('o') == 'const' and a['k'].get('c') == 'fn':
                        fd = strip_generics(a['k'].get('def') or '')
                        good = fd in INSTANT_PRESERVING
                        if fd in ('std::convert::From::from', 'std::convert::Into::into'):
                            good = any('chrono::DateTime<chrono::Utc>' in g for g in a['k'].get('args') or [])
                        rep.check(good, 'R18.5', 'parse_time/%s#%d' % (r.rsplit('::', 1)[-1], n), 'zoned timestamp mapped by %s' % fd,
                                  'the zoned validity timestamp is converted by %s, which is not known to keep the instant' % fd, x.where(bb))
                    elif ty in closure_by_ty or 'closure' in (ty or ''):
                        rep.ok('R18.5', 'parse_time/%s#%d' % (r.rsplit('::', 1)[-1], n), 'closure: its calls on the zoned value are checked individually', x.where(bb))
                    else:
                        rep.violation('R18.5', 'parse_time/%s#%d' % (r.rsplit('::', 1)[-1], n), 'the zoned validity timestamp is handed to a function value the rule cannot resolve', x.where(bb))
                continue
            if r.endswith(('::or_else', '::map_err', '::ok', '::unwrap_or_else', '::unwrap_or', 'Try>::branch', '::from_residual', '::unwrap', '::expect', '::is_ok', '::is_err')):
                continue   # these do not touch the Ok value
            n += 1
            good = d in INSTANT_PRESERVING or r in INSTANT_PRESERVING or any(r.endswith('::' + p.rsplit('::', 1)[-1]) and 'chrono::DateTime' in r for p in INSTANT_PRESERVING)
            if d in ('std::convert::From::from', 'std::convert::Into::into'):
                good = 'chrono::DateTime<chrono::Utc>' in (x.locals[t['dest']['l']] or '')
            if 'fmt' in r or r.startswith('core::fmt') or r.startswith('std::fmt'):
                good = True
            rep.check(good, 'R18.5', '%s/%s#%d' % (x.key.rsplit('::', 2)[-1] if x is not b else 'parse_time', r.rsplit('::', 1)[-1], n),
                      'instant-preserving use of the zoned timestamp (%s)' % r,
                      'Grant::parse_time applies %s to the zoned timestamp: the zone offset is dropped and the wall-clock reading is taken as UTC, so not_before/not_after '
                      'move by the offset and a grant is honoured or refused at instants where the signed document says the opposite' % r, x.where(bb))
    rep.floor('R18.5', n, 1, 'uses of the zoned timestamp in Grant::parse_time')


def rule_18_6(rep, fx):
    rep.rule('R18.6', 'the grant applied is the one of the subject: DistinguishedName::matches is whole-name equality (one PartialEq::eq of the two names, nothing element-wise), and '
                      'find_grant selects by it')
    b = fx.find('security::certificate::DistinguishedName::matches')
    rep.analysed(b)
    og = Origins(b)
    rets = b.return_blocks()
    rv = og.of_local(0, rets[0], 'term') if rets else ('unknown',)
    calls = [callee_res(t) for _bb, t in b.calls()]

    def whole(x, p):
        return x == ('param', p) or x == ('field', '0', ('param', p))
    ok = rv[0] == 'call' and rv[1].endswith('::eq') and len(rv[2]) == 2 and ((whole(rv[2][0], 1) and whole(rv[2][1], 2)) or (whole(rv[2][0], 2) and whole(rv[2][1], 1))) and \
        len(calls) == 1 and 'PartialEq' in calls[0] and not fx.closures_of(b)
    rep.check(ok, 'R18.6', 'DistinguishedName::matches/equality', 'returns self.0 == other.0',
              'DistinguishedName::matches is not equality of the two whole names (%s; calls %s): a certificate subject that merely contains, or is contained in, a granted subject is given '
              'that subject\'s grant' % (term_str(rv)[:80], [c.rsplit('::', 1)[-1] for c in calls][:6]), b.where())
    users = sorted(set(x.key for x, _bb, _t in fx.callers_of('DistinguishedName::matches')))
    rep.check(any('find_grant' in u for u in users), 'R18.6', 'find_grant/uses-matches', 'find_grant compares subjects with DistinguishedName::matches',
              'find_grant no longer selects the grant through DistinguishedName::matches (callers: %s)' % users, b.where())


def rule_18_8(rep, fx):
    """The boolean structure of the applicability tests: a rule applies iff its domain list AND one of its criteria for the action match; a criterion matches iff its topic
    expressions AND its partitions AND its data tags match. Turned into decision tables over the iterator tests and compared with the reference formula for every assignment."""
    import itertools
    from rdv import boolform
    rep.rule('R18.8', 'applicability formulas (decision tables over their atoms, all assignments): Criterion::is_applicable = any(topics) AND all(partitions) AND all(data_tags); '
                      'DataTag::check = (name equal) AND (value equal); Rule::is_applicable = any(domains) AND any(criteria of the action), the criteria list being publish / subscribe / '
                      'relay for Publish / Subscribe / Relay; Grant::check_participant_join = default action allows OR some rule (allows AND has a criterion AND matches the domain); '
                      'check_entity = unprotected OR (write | read | write OR read for Datawriter | Datareader | Topic)')
    D = AC + 'domain_participant_permissions_document::'

    def field_of(t, names):
        for f in names:
            if term_has(t, lambda x: x[0] == 'field' and x[1] == f):
                return f
        return None

    def check_table(key, b, namer, atoms, ref, discr=None, extra=None, rows_with=None):
        rep.analysed(b)
        T = boolform.table(b, fx, namer, discr)
        bad = []
        n = 0
        doms = [extra[a] if extra and a in extra else (False, True) for a in atoms]
        for vals in itertools.product(*doms):
            n += 1
            asg = dict(zip(atoms, vals))
            got = T.eval(asg, rows_with)
            want = ref(asg)
            if got != want:
                bad.append((asg, got, want))
        missing = [a for a in atoms if a not in T.atoms]
        rep.check(not bad and not missing, 'R18.8', key, '%d assignments of %s agree with the reference formula' % (n, atoms),
                  '%s does not compute its reference formula: %s' % (key, ('atoms not found: %s' % missing) if missing else
                                                                     '; '.join('%s -> code %s, expected %s' % (a, g, w) for a, g, w in bad[:3])), b.where())

    # 1. Criterion::is_applicable
    def n_crit(t, og, bb):
        last = callee_res(t).rsplit('::', 1)[-1]
        if last in ('any', 'all'):
            a = og.of_operand(t['args'][0], bb, 'term')
            f = field_of(a, ('topics',))
            if f:
                return '%s:%s' % (last, f)
            for i, nm in ((3, 'partitions'), (4, 'data_tags')):
                if term_has(a, lambda x: x == ('param', i)):
                    return '%s:%s' % (last, nm)
        return None
    check_table('Criterion::is_applicable', fx.find(D + 'Criterion::is_applicable'), n_crit, ['any:topics', 'all:partitions', 'all:data_tags'],
                lambda a: a['any:topics'] and a['all:partitions'] and a['all:data_tags'])

    # 2. DataTag::check
    def n_tag(t, og, bb):
        cr = callee_res(t)
        if cr.endswith(('::eq', '::ne')):
            ar = [og.of_operand(x, bb, 'term') for x in t['args']]
            f = [field_of(x, ('name', 'value')) for x in ar]
            f = [x for x in f if x]
            if len(f) == 1:
                return '%s:%s' % (cr.rsplit('::', 1)[-1], f[0])
        return None
    check_table('DataTag::check', fx.find(D + 'DataTag::check'), n_tag, ['eq:name', 'eq:value'], lambda a: a['eq:name'] and a['eq:value'])

    # 3. Rule::is_applicable
    def n_rule(t, og, bb):
        last = callee_res(t).rsplit('::', 1)[-1]
        if last == 'any':
            a = og.of_operand(t['args'][0], bb, 'term')
            if field_of(a, ('domains',)):
                return 'any:domains'
            if field_of(a, ('publish', 'subscribe', 'relay')):
                return 'any:criteria'
        return None
    rb = fx.find(D + 'Rule::is_applicable')
    check_table('Rule::is_applicable', rb, n_rule, ['any:domains', 'any:criteria'], lambda a: a['any:domains'] and a['any:criteria'])
    # the criteria list follows the action
    og = Origins(rb, summaries=False)
    amap = {}
    for s_, t_, cond, lab in switch_edges(rb, fx, og):
        if isinstance(lab, str) and lab in ('Publish', 'Subscribe', 'Relay') and cond[0] == 'discr':
            for st in rb.blocks[t_]['st']:
                if st['s'] == 'assign' and st['rv']['r'] == 'ref':
                    names = [e.get('n') for e in (st['rv']['pl'].get('p') or []) if isinstance(e, dict)]
                    if names and names[-1] in ('publish', 'subscribe', 'relay'):
                        amap[lab] = names[-1]
    rep.check(amap == {'Publish': 'publish', 'Subscribe': 'subscribe', 'Relay': 'relay'}, 'R18.8', 'Rule::is_applicable/criteria-of-action', 'Publish -> publish, Subscribe -> subscribe, Relay -> relay',
              'Rule::is_applicable does not take the criteria list of the requested action (%s)' % amap, rb.where())

    # 4. Grant::check_participant_join and its closure
    gj = fx.find(D + 'Grant::check_participant_join')

    def n_join(t, og, bb):
        cr = callee_res(t)
        last = cr.rsplit('::', 1)[-1]
        a = og.of_operand(t['args'][0], bb, 'term') if t['args'] else ('unknown',)
        if last == 'into' and field_of(a, ('default_action',)):
            return 'allows:default'
        if last == 'any' and field_of(a, ('rules',)):
            return 'any:rules'
        return None
    check_table('Grant::check_participant_join', gj, n_join, ['allows:default', 'any:rules'], lambda a: a['allows:default'] or a['any:rules'])
    cl = [c for c in fx.closures_of(gj, transitive=False)]
    if len(cl) != 1:
        raise CheckBroken('check_participant_join: expected one rule closure, found %d' % len(cl))

    def n_jc(t, og, bb):
        cr = callee_res(t)
        last = cr.rsplit('::', 1)[-1]
        a = og.of_operand(t['args'][0], bb, 'term') if t['args'] else ('unknown',)
        if last == 'into' and field_of(a, ('verdict',)):
            return 'allows:verdict'
        if last == 'is_empty':
            f = field_of(a, ('publish', 'subscribe', 'relay'))
            if f:
                return 'empty:%s' % f
        if last == 'any' and field_of(a, ('domains',)):
            return 'any:domains'
        return None
    check_table('Grant::check_participant_join/rule-closure', cl[0], n_jc, ['allows:verdict', 'empty:publish', 'empty:subscribe', 'empty:relay', 'any:domains'],
                lambda a: a['allows:verdict'] and not (a['empty:publish'] and a['empty:subscribe'] and a['empty:relay']) and a['any:domains'])

    # 5. the final decision of check_entity
    ce = [x for x in fx.bodies if x.name == 'check_entity' and x.key.startswith(AC) and x.kind in ('fn', 'assoc_fn')]
    if len(ce) != 1:
        raise CheckBroken('check_entity not found (%d)' % len(ce))

    def n_ce(t, og, bb):
        last = callee_res(t).rsplit('::', 1)[-1]
        a = og.of_operand(t['args'][0], bb, 'term') if t['args'] else ('unknown',)
        if last == 'into' and term_has(a, lambda x: x[0] == 'call' and x[1].endswith('check_action')):
            txt = term_str(a)
            return 'write' if 'Publish' in txt else ('read' if 'Subscribe' in txt else None)
        if last in ('is_some_and', 'is_none_or', 'map_or') and term_has(a, lambda x: x[0] == 'call' and x[1].endswith('find_topic_rule')):
            return 'unprotected'
        return None
    check_table('check_entity/decision', ce[0], n_ce, ['entity', 'unprotected', 'write', 'read'],
                lambda a: a['unprotected'] or {'Datawriter': a['write'], 'Datareader': a['read'], 'Topic': a['write'] or a['read']}[a['entity']],
                discr=lambda cond: 'entity' if 'Entity' in str(cond[2] if len(cond) > 2 else '') else None,
                extra={'entity': ('Datawriter', 'Datareader', 'Topic')}, rows_with='entity')


def rule_18_9(rep, fx):
    """Partition expressions of a rule are matched against the partitions of the entity; `all` over an empty list is true (raised F32)."""
    rep.rule('R18.9', 'the partitions of the entity reach the rule: every check_create_* / check_remote_* of the builtin access control hands check_entity a partition list that is '
                      'not the empty array (Criterion::is_applicable asks whether ALL of them match: vacuously true for none, so every partition condition would be ignored); and a '
                      'criterion parsed without a <partitions> section gets the default-partition pattern, so its list is never empty either')
    n = 0
    ce = [b for b in fx.bodies if b.key.endswith('AccessControlBuiltin::check_entity')]
    if len(ce) != 1:
        raise CheckBroken('check_entity not found')
    pidx = [k for k, v in ce[0].local_names().items() if v == 'partitions' and 1 <= k <= ce[0].argc]
    if len(pidx) != 1:
        raise CheckBroken('check_entity has no parameter named partitions')
    for b in fx.bodies:
        og = None
        for bb, t in b.calls():
            if callee_res(t).endswith('AccessControlBuiltin::check_entity'):
                og = og or Origins(b, summaries=False)
                n += 1
                v = og.of_operand(t['args'][pidx[0] - 1], bb, 'term')
                empty = v[0] == 'agg' and str(v[1]).startswith('array') and not v[2]
                rep.check(not empty, 'R18.9', '%s/partitions-passed' % b.key.rsplit('::', 1)[-1], 'partition list handed to check_entity is not the empty array',
                          '%s hands check_entity an empty partition list: every rule counts as applicable whatever partitions it names - an allow rule limited to some partitions '
                          'grants the topic everywhere, a deny rule limited to one denies it everywhere' % b.key.rsplit('::', 1)[-1], b.where(bb))
    rep.floor('R18.9', n, 5, 'check_entity call sites')
    cx = [b for b in fx.bodies if b.key.endswith('Criterion::from_xml') and b.kind in ('fn', 'assoc_fn')]
    ok = False
    if len(cx) == 1:
        b = cx[0]
        rep.analysed(b)
        og = Origins(b, summaries=False)
        P = Pos(b)
        aggs = [(bb, si, st) for bb, si, st in b.statements() if st['s'] == 'assign' and st['rv']['r'] == 'agg' and strip_generics(st['rv'].get('adt', '')).endswith('Criterion')]
        # the list that ends up in the field is built on a path that took the "is_empty" test of the parsed partitions: empty => a one-element default
        edges = list(switch_edges(b, fx, og))
        emp = [(s_, t_) for s_, t_, cond, lab in edges if cond[0] == 'call' and cond[1].endswith('is_empty') and isinstance(lab, bool) and lab is True]
        dflt = []
        for bb, si, st in b.statements():
            if st['s'] == 'assign':
                v = og._rvalue(st['rv'], bb, si, 0)
                if term_has(v, lambda x: x[0] == 'call' and (x[1].endswith('String::new') or x[1].endswith('into_vec') or x[1].endswith('from_elem'))) and \
                        any(P.can_reach((t_, 0), (bb, si)) for s_, t_ in emp):
                    dflt.append((bb, si))
        for bb, t in b.calls():
            if callee_res(t).endswith(('String::new', '::into_vec', 'from_elem', 'Pattern::new')) and any(P.can_reach((t_, 0), (bb, 'term')) and not
                                                                                                        any(P.can_reach((t2, 0), (bb, 'term')) for s2, t2, c2, l2 in edges if s2 == s_ and t2 != t_)
                                                                                                        for s_, t_ in emp):
                dflt.append((bb, 'term'))
        ok = bool(aggs) and bool(emp) and bool(dflt)
    rep.check(ok, 'R18.9', 'Criterion::from_xml/default-partition', 'no <partitions> section => the pattern of the default partition',
              'a criterion without a <partitions> section is parsed with an empty partition list: once entities pass their (default) partition no such rule applies any more, or, '
              'with an empty list on both sides, the condition is vacuous', cx[0].where() if cx else '')


def rule_18_10(rep, fx):
    """The built-in topics are exempted by name, not by a property of the name (added after seed C18g: `starts_with("DCPS")` exempted every user topic named DCPS... from
    its deny rule)."""
    rep.rule('R18.10', 'no verdict without the documents except for the listed names: in AccessControlBuiltin::check_entity every Ok(<constant>) result that is reached without '
                       'consulting the governance topic rule and the grant (find_topic_rule / check_action) lies behind the equal edge of a whole-value string equality of the topic '
                       'name with a constant; a partial predicate on the name (prefix, suffix, substring, length, pattern) is not an exemption')
    b = fx.find('security::access_control::access_control_builtin::AccessControlBuiltin::check_entity')
    rep.analysed(b)
    og = Origins(b, summaries=True)
    P = Pos(b)
    edges = list(switch_edges(b, fx, og))
    topic = ('param', 4)
    eq_true = []
    for s_, t_, c, lab in edges:
        if c[0] == 'call' and c[1].rsplit('::', 1)[-1] in ('eq', 'ne') and ('str' in c[1] or 'String' in c[1] or 'cmp::' in c[1]) and len(c[2]) == 2:
            x, y = c[2]
            whole = lambda t: t == topic or (t[0] in ('call',) and t[1].rsplit('::', 1)[-1] in ('as_str', 'deref', 'as_ref', 'borrow') and t[2] and t[2][0] == topic)
            const = lambda t: t[0] == 'const'
            if (whole(x) and const(y)) or (whole(y) and const(x)):
                m = c[1].rsplit('::', 1)[-1]
                if (m == 'eq' and lab is True) or (m == 'ne' and lab is False):
                    eq_true.append((s_, t_))
    # membership of the whole name in a list of constants is the same test written once
    for s_, t_, c, lab in edges:
        neg = c[0] == 'un'
        cc = c[2] if neg and len(c) > 2 and isinstance(c[2], tuple) else c
        if isinstance(cc, tuple) and cc and cc[0] == 'call' and cc[1].rsplit('::', 1)[-1] == 'contains' and len(cc[2]) == 2:
            lst, item = cc[2]
            lst_const = term_has(lst, lambda t: t[0] == 'const') and not term_has(lst, lambda t: t[0] == 'param')
            whole_item = item == topic or (item[0] == 'ref' and len(item) > 1 and item[1] == topic) or \
                (term_has(item, lambda t: t == topic) and not term_has(item, lambda t: t[0] == 'call'))
            if lst_const and whole_item and ((lab is True and not neg) or (lab is False and neg)):
                eq_true.append((s_, t_))
    decide = [(bb, 'term') for bb, t in b.calls() if call_matches(t, 'Grant::check_action', 'DomainRule::find_topic_rule')]
    if len(decide) < 2:
        raise CheckBroken('R18.10: check_entity does not consult find_topic_rule and check_action')
    sites = [(bb, si) for bb, si, st in b.statements() if st['s'] == 'assign' and st['lhs'].get('l') == 0 and not st['lhs'].get('p') and st['rv'].get('r') == 'agg' and
             st['rv'].get('variant') == 'Ok' and all(o.get('o') == 'const' for o in st['rv'].get('ops', []))]
    early = [s for s in sites if not P.every_path_passes(None, s, via_pos=decide, from_entry=True)]
    ok = all(eq_true and P.every_path_passes(None, s, via_edges=eq_true, via_pos=decide, from_entry=True) for s in early)
    rep.check(ok, 'R18.10', 'check_entity/exempt-by-name-only', '%d early constant verdict(s), each behind topic_name == <constant> (%d equalities)' % (len(early), len(eq_true)),
              'AccessControlBuiltin::check_entity can answer with a constant verdict without consulting governance and grant on a path that has not found the topic name equal to a '
              'listed constant (a prefix / pattern test on the name is not an exemption): a user topic can be named into the exemption and escapes its deny rule', b.where())
