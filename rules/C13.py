"""C13  No wake-up is lost between the receive thread and a waiting application.

Static argument: a consumer that registers-then-re-checks (or checks and registers under
the lock the producer takes) and a producer that publishes-then-notifies cannot lose a
wake-up under any interleaving. The rules check that every site has that shape.
"""
from rdv.core import (CheckBroken, Origins, Pos, call_matches, callee_res, strip_generics, switch_edges,
                      term_has, term_leaves, term_str)

CONFIGS = ['default']
LEVEL = 'other'

STD_PREFIXES = ('std::', 'core::', 'alloc::', 'log::', '<std::', '<core::', '<alloc::')
REGISTER_FNS = ('set_waker', 'get_waker_update_lock')
POLL_DEFS = ('futures::Stream::poll_next', 'futures_core::Stream::poll_next', 'futures_core::stream::Stream::poll_next',
             'std::future::Future::poll', 'core::future::Future::poll', 'futures::StreamExt::poll_next_unpin')


def is_pending_agg(rv):
    return rv['r'] == 'agg' and rv.get('kind') == 'adt' and strip_generics(rv['adt']).endswith('task::Poll') \
        and rv.get('variant') == 'Pending'


def has_cx_waker(term):
    return term_has(term, lambda t: t[0] == 'call' and t[1].endswith('task::Context::waker'))


def is_query_call(t):
    """A call node (origin term) that evaluates the awaited resource: a function of this crate
    (other than the registration helpers) or a channel try_send/try_recv."""
    if t[0] != 'call':
        return False
    name = t[1]
    last = name.rsplit('::', 1)[-1]
    if last in REGISTER_FNS:
        return False
    if last in ('try_send', 'try_recv', 'try_take', 'pop_front', 'recv'):
        return True
    if name.startswith(STD_PREFIXES) or name.startswith('<') and ' as std::' in name and not name[1:].startswith(('dds::', 'rtps::', 'discovery::', 'mio_source', 'structure::', 'network::', 'security::')):
        return False
    if name.startswith(('std::', 'core::', 'alloc::', 'log::', 'futures', 'mio', 'bytes::', 'speedy::', 'chrono::')):
        return False
    return True


def query_calls(term):
    return [t for t in term_leaves(term) if is_query_call(t)]


def poll_calls(term):
    return [t for t in term_leaves(term) if t[0] == 'call' and t[1].rsplit('::', 1)[-1] in ('poll_next', 'poll', 'poll_next_unpin')]


class PollBody:
    def __init__(self, fx, body):
        self.fx = fx
        self.b = body
        self.og = Origins(body)
        self.pos = Pos(body)
        self.edges = list(switch_edges(body, fx, self.og))

    def pending_sites(self):
        out = []
        for bb, si, st in self.b.statements():
            if st['s'] == 'assign' and is_pending_agg(st['rv']):
                out.append((bb, si))
        return out

    def registrations(self):
        """[(pos, kind, info)] waker registrations.
        kind 'call': set_waker(Some(cx.waker().clone()))
        kind 'store': `*guard = Some(cx.waker().clone())`, info = (lock call bb, guard local)"""
        out = []
        b = self.b
        for bb, t in b.calls():
            if call_matches(t, 'set_waker') and len(t['args']) >= 2:
                a = self.og.of_operand(t['args'][1], bb, 'term')
                if has_cx_waker(a) and term_has(a, lambda x: x[0] == 'agg' and x[1].endswith('Option::Some')):
                    out.append(((bb, 'term'), 'call', None))
        for bb, si, st in b.statements():
            if st['s'] != 'assign':
                continue
            lhs = st['lhs']
            if not lhs.get('p') or lhs['p'][0] != '*':
                continue
            v = self.og._rvalue(st['rv'], bb, si, 0)
            if not (has_cx_waker(v) and term_has(v, lambda x: x[0] == 'agg' and x[1].endswith('Option::Some'))):
                continue
            # where does the slot come from: chase the base local non-transparently to the lock call
            base = Origins(b, transparent=True).of_local(lhs['l'], bb, si)
            locks = [t for t in term_leaves(base) if t[0] == 'call' and t[1].rsplit('::', 1)[-1] in ('lock', 'get_waker_update_lock')]
            lock_bb = locks[0][3] if locks else None
            out.append(((bb, si), 'store', {'lock_bb': lock_bb, 'slot': term_str(base)}))
        return out

    def guard_drops_between(self, lock_bb, store_pos):
        """drop terminators of a MutexGuard local that lie on a path lock -> store."""
        b = self.b
        bad = []
        for bb in b.live_blocks():
            t = b.blocks[bb]['term']
            if t['t'] != 'drop':
                continue
            pl = t['pl']
            if pl.get('p'):
                continue
            ty = b.locals[pl['l']]
            if 'MutexGuard' not in ty:
                continue
            # is this the guard produced by lock_bb? (origin of the local at the drop)
            o = self.og.of_local(pl['l'], bb, 'term')
            if not term_has(o, lambda x: x[0] == 'call' and len(x) > 3 and x[3] == lock_bb):
                continue
            d = (bb, 'term')
            if self.pos.can_reach((lock_bb, 'term'), d, avoid_pos=[store_pos]) and self.pos.can_reach(d, store_pos):
                bad.append(bb)
        return bad

    def dominated_by(self, pos_r, call_bb):
        """every path entry -> call terminator passes pos_r"""
        return self.pos.every_path_passes(None, (call_bb, 'term'), via_pos=[pos_r], from_entry=True)

    def classify(self, site):
        """Returns (idiom, detail) or (None, reason)."""
        P = self.pos
        reasons = []
        # I3 delegation: under the Pending arm of an inner poll
        e3 = [(bb, tg) for bb, tg, cond, lab in self.edges
              if lab == 'Pending' and cond[0] == 'discr' and poll_calls(cond[1])]
        if e3 and P.every_path_passes(None, site, via_edges=e3, from_entry=True):
            return 'I3-delegation', 'Pending arm of inner poll'
        # I4 self wake
        wakes = [(bb, 'term') for bb, t in self.b.calls()
                 if call_matches(t, 'Waker::wake_by_ref', 'Waker::wake') and
                 has_cx_waker(self.og.of_operand(t['args'][0], bb, 'term'))]
        if wakes and P.every_path_passes(None, site, via_pos=wakes, from_entry=True):
            return 'I4-self-wake', 'wake_by_ref on every path'
        regs = self.registrations()
        if not regs:
            reasons.append('no waker registration in this function')
        for rpos, kind, info in regs:
            if not P.every_path_passes(None, site, via_pos=[rpos], from_entry=True):
                reasons.append('registration at %s is not on every path to this Pending' % self.b.where(*P.norm(rpos)))
                continue
            # I2 lock protected
            if kind == 'store' and info and info['lock_bb'] is not None:
                lb = info['lock_bb']
                lpos = (lb, 'term')
                e2 = []
                for bb, tg, cond, lab in self.edges:
                    qs = [q for q in query_calls(cond) if q[3] != lb and self.dominated_by(lpos, q[3])
                          and P.can_reach((q[3], 'term'), rpos)]
                    if qs:
                        e2.append((bb, tg))
                if e2 and P.every_path_passes(None, site, via_edges=e2, from_entry=True):
                    drops = self.guard_drops_between(lb, rpos)
                    if not drops:
                        return 'I2-lock-protected', 'lock at %s held over condition and waker store (%s)' % (
                            self.b.where(lb), info['slot'])
                    reasons.append('guard dropped between lock and waker store (bb%s)' % drops)
                else:
                    reasons.append('the awaited condition is not evaluated under the waker lock taken at %s' % self.b.where(lb))
            # I1 register then re-check
            e1 = []
            for bb, tg, cond, lab in self.edges:
                qs = [q for q in query_calls(cond) if self.dominated_by(rpos, q[3]) and (q[3], len(self.b.blocks[q[3]]['st'])) != P.norm(rpos)]
                if qs:
                    e1.append((bb, tg))
            if e1 and P.every_path_passes(rpos, site, via_edges=e1):
                return 'I1-register-then-recheck', 'registration at %s, condition re-evaluated afterwards' % self.b.where(*P.norm(rpos))
            reasons.append('after the registration at %s the awaited condition is not re-evaluated before returning Pending' % self.b.where(*P.norm(rpos)))
        return None, '; '.join(reasons)


def rule_13_1(rep, fx):
    rep.rule('R13.1', 'every construction of Poll::Pending in a hand-written poll/poll_next is register-then-re-check (I1), '
                      'lock-protected (I2), a delegated inner Pending (I3) or self-woken (I4)')
    polls = [b for b in fx.bodies if b.kind in ('fn', 'assoc_fn') and b.impl_trait and
             ((b.impl_trait.endswith('Future') and b.name == 'poll') or (b.impl_trait.endswith('Stream') and b.name == 'poll_next'))]
    rep.floor('R13.1', len(polls), 12, 'hand-written impl Future::poll / Stream::poll_next')
    n_sites = 0
    seen_bodies = set()
    # every body (not only the impls) that constructs Poll::Pending
    cands = []
    for b in fx.bodies:
        if b.kind == 'coroutine':
            continue
        has = any(st['s'] == 'assign' and is_pending_agg(st['rv']) for _, _, st in b.statements())
        if has or b in polls:
            cands.append(b)
    for b in cands:
        rep.analysed(b)
        pb = PollBody(fx, b)
        sites = pb.pending_sites()
        if not sites:
            # no Pending constructed here: the result is Ready or a delegated poll
            og = pb.og
            rets = b.return_blocks()
            deleg = any(call_matches(t, 'poll_next', 'poll') for _, t in b.calls())
            rep.ok('R13.1', '%s/no-pending' % b.key, 'constructs no Pending (%s)' % ('delegates to inner poll' if deleg else 'always Ready'),
                   b.where())
            continue
        for n, site in enumerate(sites):
            n_sites += 1
            idiom, detail = pb.classify(site)
            key = '%s/pending#%d' % (b.key, n)
            if idiom:
                rep.ok('R13.1', key, '%s: %s' % (idiom, detail), b.where(*site))
            else:
                rep.violation('R13.1', key, 'Poll::Pending returned with no wake-up arranged: %s' % detail, b.where(*site))
    rep.floor('R13.1', n_sites, 10, 'Poll::Pending constructions')


def run(rep, facts, tier):
    fx = facts['default']
    rep.explanation = ('Path rules on the MIR CFG of every hand-written future/stream, every synchronous read entry point and '
                       'every producer path: the no-lost-wake-up protocol (register, then re-check / publish, then notify) is '
                       'checked on all CFG paths, which covers all interleavings by the classical argument.')
    rep.assume('mio channel / Poll / std Waker behave as documented',
               'one waker slot per reader/writer is shared by all tasks using that entity (documented limitation)')
    rule_13_1(rep, fx)
