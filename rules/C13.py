"""C13  No wake-up is lost between the receive thread and a waiting application.

Static argument: a consumer that registers-then-re-checks (or checks and registers under
the lock the producer takes) and a producer that publishes-then-notifies cannot lose a
wake-up under any interleaving. The rules check that every site has that shape.
"""
from rdv.core import (CheckBroken, Origins, Pos, primary_edges, call_matches, callee_res, norm_path, strip_generics, switch_edges,
                      term_has, term_leaves, term_str)

CONFIGS = ['default']
LEVEL = 'other'

STD_PREFIXES = ('std::', 'core::', 'alloc::', 'log::', '<std::', '<core::', '<alloc::')
REGISTER_FNS = ('set_waker', 'get_waker_update_lock')
POLL_DEFS = ('futures::Stream::poll_next', 'futures_core::Stream::poll_next', 'futures_core::stream::Stream::poll_next',
             'std::future::Future::poll', 'core::future::Future::poll', 'futures::StreamExt::poll_next_unpin')


def is_pending_agg(rv):
    return rv['r'] == 'agg' and rv.get('kind') == 'adt' and strip_generics(rv['adt']).endswith('task::Poll') \
        and rv.get('variant') == 'Pending'


def has_cx_waker(term):
    return term_has(term, lambda t: t[0] == 'call' and t[1].endswith('task::Context::waker'))


def is_query_call(t):
    """A call node (origin term) that evaluates the awaited resource: a function of this crate
    (other than the registration helpers) or a channel try_send/try_recv."""
    if t[0] != 'call':
        return False
    name = t[1]
    last = name.rsplit('::', 1)[-1]
    if last in REGISTER_FNS:
        return False
    if last in ('try_send', 'try_recv', 'try_take', 'pop_front', 'recv'):
        return True
    if name.startswith(STD_PREFIXES) or name.startswith('<') and ' as std::' in name and not name[1:].startswith(('dds::', 'rtps::', 'discovery::', 'mio_source', 'structure::', 'network::', 'security::')):
        return False
    if name.startswith(('std::', 'core::', 'alloc::', 'log::', 'futures', 'mio', 'bytes::', 'speedy::', 'chrono::')):
        return False
    return True


def query_calls(term):
    return [t for t in term_leaves(term) if is_query_call(t)]


def poll_calls(term):
    return [t for t in term_leaves(term) if t[0] == 'call' and t[1].rsplit('::', 1)[-1] in ('poll_next', 'poll', 'poll_next_unpin')]


class PollBody:
    def __init__(self, fx, body):
        self.fx = fx
        self.b = body
        self.og = Origins(body)
        self.pos = Pos(body)
        self.edges = list(switch_edges(body, fx, self.og))

    def pending_sites(self):
        out = []
        for bb, si, st in self.b.statements():
            if st['s'] == 'assign' and is_pending_agg(st['rv']):
                out.append((bb, si))
        return out

    def registrations(self):
        """[(pos, kind, info)] waker registrations.
        kind 'call': set_waker(Some(cx.waker().clone()))
        kind 'store': `*guard = Some(cx.waker().clone())`, info = (lock call bb, guard local)"""
        out = []
        b = self.b
        for bb, t in b.calls():
            if call_matches(t, 'set_waker') and len(t['args']) >= 2:
                a = self.og.of_operand(t['args'][1], bb, 'term')
                if has_cx_waker(a) and term_has(a, lambda x: x[0] == 'agg' and x[1].endswith('Option::Some')):
                    out.append(((bb, 'term'), 'call', None))
        for bb, si, st in b.statements():
            if st['s'] != 'assign':
                continue
            lhs = st['lhs']
            if not lhs.get('p') or lhs['p'][0] != '*':
                continue
            v = self.og._rvalue(st['rv'], bb, si, 0)
            if not (has_cx_waker(v) and term_has(v, lambda x: x[0] == 'agg' and x[1].endswith('Option::Some'))):
                continue
            # where does the slot come from: chase the base local non-transparently to the lock call
            base = Origins(b, transparent=True).of_local(lhs['l'], bb, si)
            locks = [t for t in term_leaves(base) if t[0] == 'call' and t[1].rsplit('::', 1)[-1] in ('lock', 'get_waker_update_lock')]
            lock_bb = locks[0][3] if locks else None
            out.append(((bb, si), 'store', {'lock_bb': lock_bb, 'slot': term_str(base)}))
        return out

    def guard_drops_between(self, lock_bb, store_pos):
        """drop terminators of a MutexGuard local that lie on a path lock -> store."""
        b = self.b
        bad = []
        for bb in b.live_blocks():
            t = b.blocks[bb]['term']
            if t['t'] != 'drop':
                continue
            pl = t['pl']
            if pl.get('p'):
                continue
            ty = b.locals[pl['l']]
            if 'MutexGuard' not in ty:
                continue
            # is this the guard produced by lock_bb? (origin of the local at the drop)
            o = self.og.of_local(pl['l'], bb, 'term')
            if not term_has(o, lambda x: x[0] == 'call' and len(x) > 3 and x[3] == lock_bb):
                continue
            d = (bb, 'term')
            if self.pos.can_reach((lock_bb, 'term'), d, avoid_pos=[store_pos]) and self.pos.can_reach(d, store_pos):
                bad.append(bb)
        return bad

    def dominated_by(self, pos_r, call_bb):
        """every path entry -> call terminator passes pos_r"""
        return self.pos.every_path_passes(None, (call_bb, 'term'), via_pos=[pos_r], from_entry=True)

    def classify(self, site):
        """Returns (idiom, detail) or (None, reason)."""
        P = self.pos
        reasons = []
        # I5 dead arm: the None of DataSample::from_with_key (a dispose) on what the cache-based DataReader stream of a NO_KEY topic hands over; no dispose
        # is ever in that cache (rules/nokeyinv.py), so this Pending is never constructed
        if 'dds::no_key::datareader::' in self.b.key:
            e5 = [(bb, tg) for bb, tg, cond, lab in self.edges
                  if lab == 'None' and cond[0] == 'discr' and cond[1][0] == 'call' and cond[1][1].endswith(('::from_with_key', '::from_with_key_ref')) and
                  term_has(cond[1], lambda x: x[0] == 'call' and x[1].rsplit('::', 1)[-1] in ('poll_next', 'poll_next_unpin'))]
            if e5 and P.every_path_passes(None, site, via_edges=e5, from_entry=True):
                from rules import nokeyinv
                if nokeyinv.holds(self.fx):
                    return 'I5-dead-arm', 'None of from_with_key: a dispose, which never enters the sample cache of a NO_KEY DataReader'
        e3 = [(bb, tg) for bb, tg, cond, lab in self.edges
              if lab == 'Pending' and cond[0] == 'discr' and poll_calls(cond[1])]
        if e3 and P.every_path_passes(None, site, via_edges=e3, from_entry=True):
            return 'I3-delegation', 'Pending arm of inner poll'
        # I4 self wake
        wakes = [(bb, 'term') for bb, t in self.b.calls()
                 if call_matches(t, 'Waker::wake_by_ref', 'Waker::wake') and
                 has_cx_waker(self.og.of_operand(t['args'][0], bb, 'term'))]
        if wakes and P.every_path_passes(None, site, via_pos=wakes, from_entry=True):
            return 'I4-self-wake', 'wake_by_ref on every path'
        regs = self.registrations()
        if not regs:
            reasons.append('no waker registration in this function')
        for rpos, kind, info in regs:
            if not P.every_path_passes(None, site, via_pos=[rpos], from_entry=True):
                reasons.append('registration at %s is not on every path to this Pending' % self.b.where(*P.norm(rpos)))
                continue
            # I2 lock protected
            if kind == 'store' and info and info['lock_bb'] is not None:
                lb = info['lock_bb']
                lpos = (lb, 'term')
                e2 = []
                for bb, tg, cond, lab in self.edges:
                    qs = [q for q in query_calls(cond) if q[3] != lb and self.dominated_by(lpos, q[3])
                          and P.can_reach((q[3], 'term'), rpos)]
                    if qs:
                        e2.append((bb, tg))
                if e2 and P.every_path_passes(None, site, via_edges=e2, from_entry=True):
                    drops = self.guard_drops_between(lb, rpos)
                    if not drops:
                        return 'I2-lock-protected', 'lock at %s held over condition and waker store (%s)' % (
                            self.b.where(lb), info['slot'])
                    reasons.append('guard dropped between lock and waker store (bb%s)' % drops)
                else:
                    reasons.append('the awaited condition is not evaluated under the waker lock taken at %s' % self.b.where(lb))
            # I1 register then re-check
            e1 = []
            for bb, tg, cond, lab in self.edges:
                qs = [q for q in query_calls(cond) if self.dominated_by(rpos, q[3]) and (q[3], len(self.b.blocks[q[3]]['st'])) != P.norm(rpos)]
                if qs:
                    e1.append((bb, tg))
            if e1 and P.every_path_passes(rpos, site, via_edges=e1):
                return 'I1-register-then-recheck', 'registration at %s, condition re-evaluated afterwards' % self.b.where(*P.norm(rpos))
            reasons.append('after the registration at %s the awaited condition is not re-evaluated before returning Pending' % self.b.where(*P.norm(rpos)))
        return None, '; '.join(reasons)


def rule_13_1(rep, fx):
    rep.rule('R13.1', 'every construction of Poll::Pending in a hand-written poll/poll_next is register-then-re-check (I1), '
                      'lock-protected (I2), a delegated inner Pending (I3) or self-woken (I4)')
    polls = [b for b in fx.bodies if b.kind in ('fn', 'assoc_fn') and b.impl_trait and
             ((b.impl_trait.endswith('Future') and b.name == 'poll') or (b.impl_trait.endswith('Stream') and b.name == 'poll_next'))]
    rep.floor('R13.1', len(polls), 12, 'hand-written impl Future::poll / Stream::poll_next')
    n_sites = 0
    seen_bodies = set()
    # every body (not only the impls) that constructs Poll::Pending
    cands = []
    for b in fx.bodies:
        if b.kind == 'coroutine':
            continue
        has = any(st['s'] == 'assign' and is_pending_agg(st['rv']) for _, _, st in b.statements())
        if has or b in polls:
            cands.append(b)
    for b in cands:
        rep.analysed(b)
        pb = PollBody(fx, b)
        sites = pb.pending_sites()
        if not sites:
            # no Pending constructed here: the result is Ready or a delegated poll
            og = pb.og
            rets = b.return_blocks()
            deleg = any(call_matches(t, 'poll_next', 'poll') for _, t in b.calls())
            rep.ok('R13.1', '%s/no-pending' % b.key, 'constructs no Pending (%s)' % ('delegates to inner poll' if deleg else 'always Ready'),
                   b.where())
            continue
        for n, site in enumerate(sites):
            n_sites += 1
            idiom, detail = pb.classify(site)
            key = '%s/pending#%d' % (b.key, n)
            if idiom:
                rep.ok('R13.1', key, '%s: %s' % (idiom, detail), b.where(*site))
            else:
                rep.violation('R13.1', key, 'Poll::Pending returned with no wake-up arranged: %s' % detail, b.where(*site))
    rep.floor('R13.1', n_sites, 10, 'Poll::Pending constructions')


def rule_13_2(rep, fx):
    rep.rule('R13.2', 'in every with_key DataReader entry point, drain_read_notifications() is on every path to '
                      'fill_and_lock_local_datasample_cache() (a notification drained after the fill would be lost)')
    n = 0
    for b in fx.bodies:
        if 'with_key::datareader::DataReader' not in b.key or b.kind not in ('fn', 'assoc_fn'):
            continue
        fills = [bb for bb, t in b.calls() if call_matches(t, 'DataReader::fill_and_lock_local_datasample_cache')]
        if not fills:
            continue
        rep.analysed(b)
        P = Pos(b)
        drains = [(bb, 'term') for bb, t in b.calls() if call_matches(t, 'drain_read_notifications')]
        for k, fb in enumerate(fills):
            n += 1
            ok = bool(drains) and P.every_path_passes(None, (fb, 'term'), via_pos=drains, from_entry=True)
            rep.check(ok, 'R13.2', '%s/fill#%d' % (b.key, k), 'drain precedes fill on every path',
                      'fill_and_lock_local_datasample_cache() reachable without a preceding drain_read_notifications()',
                      b.where(fb))
    rep.floor('R13.2', n, 6, 'entry points that fill the local sample cache')


PUBLISH = ('TopicCache::add_change', 'TopicCache::mark_reliably_received_before')


def rule_13_3(rep, fx):
    rep.rule('R13.3', 'publish-then-notify: in rtps::Reader every path from a topic-cache publication (add_change, or mark_reliably_received_before) to the return of the '
                      'outermost Reader entry point passes notify_cache_change(), unless this Reader\'s own writer proxy did not advance (all_ackable_before() after the update not '
                      'greater than before it); the return value of the marker update alone does not exempt, because the marker is shared by all Readers of the topic; '
                      'notify_cache_change performs all three notifications')
    bodies = [b for b in fx.bodies if b.key.startswith('rtps::reader::Reader::') or b.key.startswith('rtps::reader::')]
    bykey = {b.key: b for b in bodies}
    unnotified = {}   # key -> [(bb, why)]
    n_events = [0]

    def events_of(b):
        ev = []
        og = None
        for bb, t in b.calls():
            if call_matches(t, *PUBLISH):
                ev.append((bb, 'direct:' + callee_res(t).rsplit('::', 1)[-1], call_matches(t, PUBLISH[1])))
                continue
            tg, _ = fx.call_targets(t)
            hit = [k for k in tg if k in unnotified]
            # closures passed as arguments to this call that are unnotified
            for a in t['args']:
                if a.get('o') in ('move', 'copy'):
                    ty = b.locals[a['pl']['l']]
                    for k in unnotified:
                        if '{closure' in k and (k in ty or k.replace('::{closure', '::{closure') in ty):
                            hit.append(k)
            if hit:
                ev.append((bb, 'via:' + hit[0], False))
        # closures created here and unnotified (invoked somewhere below; approximate at creation)
        for bb, si, st in b.statements():
            if st['s'] == 'assign' and st['rv']['r'] == 'agg' and st['rv'].get('kind') == 'closure':
                from rdv.core import norm_path
                k = norm_path(st['rv']['def'])
                if k in unnotified:
                    ev.append((bb, 'closure:' + k, False))
        return ev

    def leaks(b, ev):
        """events with a path to return that avoids notify (and, for the marker, the `false` arm)."""
        P = Pos(b)
        og = Origins(b)
        notifies = [(bb, 'term') for bb, t in b.calls() if call_matches(t, 'Reader::notify_cache_change')]
        rets = [(r, 'term') for r in b.return_blocks()]
        out = []
        for bb, why, is_marker in ev:
            exempt = []
            if is_marker:
                # The marker is shared by all Readers of the topic: its own `false` ("someone moved it already") says nothing about whether *this* Reader's DataReader
                # has something new. What exempts a path from notifying is that this Reader's own writer proxy did not advance: the not-greater edge of a comparison
                # of all_ackable_before() taken after the update with the value taken before it (two different call sites of the getter).
                for sbb, tg, cond, lab in switch_edges(b, fx, og):
                    if cond[0] == 'call' and cond[1].endswith(('::gt', '::lt', '::ne')) and lab is False and len(cond[2]) == 2:
                        sites = set()
                        term_has(cond, lambda x: x[0] == 'call' and x[1].endswith('all_ackable_before') and len(x) > 3 and sites.add(x[3]) is None and False)
                        if len(sites) >= 2:
                            exempt.append((sbb, tg))
            for r in rets:
                if not P.every_path_passes((bb, 'term'), r, via_pos=notifies, via_edges=exempt):
                    out.append((bb, why))
                    break
        return out

    changed = True
    rounds = 0
    while changed and rounds < 10:
        changed = False
        rounds += 1
        for b in bodies:
            ev = events_of(b)
            if not ev:
                continue
            lk = leaks(b, ev)
            if lk and b.key not in unnotified:
                unnotified[b.key] = lk
                changed = True
    # instances: every body with events
    for b in bodies:
        ev = events_of(b)
        if not ev:
            continue
        rep.analysed(b)
        for k, (bb, why, _m) in enumerate(ev):
            n_events[0] += 1
    # an unnotified function must only be called from Reader functions that notify afterwards
    cg = fx.callgraph()
    callers = {}
    for src, tgts in cg.items():
        for t in tgts:
            callers.setdefault(t, set()).add(src)
    for key, lk in sorted(unnotified.items()):
        cs = callers.get(key, set())
        outside = [c for c in cs if c not in bykey]
        inside_ok = all((c in unnotified) or True for c in cs if c in bykey)
        b = bykey[key]
        is_entry = b.vis and 'Restricted' not in str(b.vis) and not cs
        if outside or not cs:
            rep.violation('R13.3', '%s/publish-without-notify' % key,
                          'topic cache is changed (%s) and a path returns to a caller outside rtps::Reader (%s) without notify_cache_change()' % (
                              lk[0][1], ', '.join(sorted(outside)) or 'entry point'), b.where(lk[0][0]))
        else:
            rep.ok('R13.3', '%s/deferred-to-caller' % key, 'publishes (%s); every caller is a Reader function that notifies afterwards or defers likewise' % lk[0][1], b.where(lk[0][0]))
    for b in bodies:
        ev = events_of(b)
        if ev and b.key not in unnotified:
            rep.ok('R13.3', '%s/notifies' % b.key, '%d publication event(s), each followed by notify_cache_change on every path' % len(ev), b.where(ev[0][0]))
    rep.floor('R13.3', n_events[0], 5, 'topic-cache publication events in rtps::reader')
    # notify_cache_change does all three notifications on every path
    nb = fx.find('rtps::reader::Reader::notify_cache_change')
    rep.analysed(nb)
    P = Pos(nb)
    og = Origins(nb)
    need = {
        'waker take+wake': lambda bb, t: call_matches(t, 'Option::<T>::map', 'Option::map') and
        term_has(og.of_operand(t['args'][0], bb, 'term'), lambda x: x[0] == 'field' and x[1] == 'data_reader_waker'),
        'mio-0.8 poll_event_sender.send': lambda bb, t: call_matches(t, 'PollEventSender::send'),
        'mio-0.6 notification_sender.try_send': lambda bb, t: callee_res(t).endswith('try_send') and
        term_has(og.of_operand(t['args'][0], bb, 'term'), lambda x: x[0] == 'field' and x[1] == 'notification_sender'),
    }
    for name, pred in need.items():
        sites = [(bb, 'term') for bb, t in nb.calls() if pred(bb, t)]
        ok = bool(sites) and all(P.every_path_passes(None, (r, 'term'), via_pos=sites, from_entry=True) for r in nb.return_blocks())
        rep.check(ok, 'R13.3', 'notify_cache_change/%s' % name, 'performed on every path', 'notification "%s" is not performed on every path of notify_cache_change' % name, nb.where())
    # the waker closure really wakes
    wk = [c for c in fx.closures_of(nb) if any(call_matches(t, 'Waker::wake_by_ref', 'Waker::wake') for _, t in c.calls())]
    rep.check(bool(wk), 'R13.3', 'notify_cache_change/wake', 'closure calls Waker::wake_by_ref', 'the waker taken from the slot is not woken', nb.where())


def rule_13_4(rep, fx):
    rep.rule('R13.4', 'waker-slot wiring: the Arc<Mutex<Option<Waker>>> handed to the RTPS Reader/Writer and the one handed to '
                      'the DataReader/DataWriter are clones of one allocation; set_waker stores into that slot; the Writer wakes it after each pop')
    pairs = [
        ('ReaderIngredients', 'data_reader_waker', 'SimpleDataReader::new', 'reader'),
        ('WriterIngredients', 'writer_command_receiver_waker', 'DataWriter::new', 'writer'),
    ]
    n = 0
    for adt, field, ctor, what in pairs:
        for b in fx.bodies:
            if b.kind not in ('fn', 'assoc_fn'):
                continue
            aggs = []
            for bb, si, st in b.statements():
                if st['s'] == 'assign' and st['rv']['r'] == 'agg' and st['rv'].get('kind') == 'adt' and \
                        strip_generics(st['rv']['adt']).endswith('::' + adt) and field in (st['rv'].get('fields') or []):
                    aggs.append((bb, si, st))
            if not aggs:
                continue
            og = Origins(b)
            ctors = [(bb, t) for bb, t in b.calls() if call_matches(t, ctor)]
            if not ctors:
                continue
            rep.analysed(b)
            for bb, si, st in aggs:
                n += 1
                idx = st['rv']['fields'].index(field)
                a = og.of_operand(st['rv']['ops'][idx], bb, si)
                allocs_a = set(x[3] for x in term_leaves(a) if x[0] == 'call' and x[1].endswith('Arc::new'))
                found = False
                for cbb, ct in ctors:
                    for arg in ct['args']:
                        if 'Waker' not in b.locals[arg['pl']['l']] if arg.get('o') in ('move', 'copy') else True:
                            continue
                        c = og.of_operand(arg, cbb, 'term')
                        allocs_c = set(x[3] for x in term_leaves(c) if x[0] == 'call' and x[1].endswith('Arc::new'))
                        if allocs_a and allocs_a == allocs_c:
                            found = True
                rep.check(found, 'R13.4', '%s/%s.%s' % (b.key, adt, field), 'same Arc allocation reaches %s' % ctor,
                          'the waker slot given to %s.%s and the one given to %s are not clones of one Arc' % (adt, field, ctor), b.where(bb, si))
    rep.floor('R13.4', n, 2, 'waker-slot wirings (reader, writer)')
    # set_waker stores its argument into the shared slot
    sw = fx.find('dds::with_key::simpledatareader::SimpleDataReader::set_waker')
    rep.analysed(sw)
    og = Origins(sw)
    ok = False
    store_pos = []
    for bb, si, st in sw.statements():
        if st['s'] == 'assign' and st['lhs'].get('p') and st['lhs']['p'][0] == '*':
            v = og._rvalue(st['rv'], bb, si, 0)
            base = og.of_local(st['lhs']['l'], bb, si)
            if term_has(v, lambda x: x == ('param', 2)) and term_has(base, lambda x: x[0] == 'field' and x[1] == 'data_reader_waker'):
                ok = True
                store_pos.append((bb, si))
    rep.check(ok, 'R13.4', 'SimpleDataReader::set_waker/store', 'argument stored into self.data_reader_waker',
              'set_waker does not store its argument into the data_reader_waker slot', sw.where())
    # ... on every path: the waker of the task polling *now* replaces whatever an earlier poll left there
    Psw = Pos(sw)
    always = ok and all(Psw.every_path_passes(None, (r, 'term'), via_pos=store_pos, from_entry=True) for r in sw.return_blocks())
    rep.check(always, 'R13.4', 'SimpleDataReader::set_waker/unconditional', 'the store happens on every path',
              'set_waker can return without replacing the stored waker: a waker left by an earlier poll (another task, a dropped future) stays registered and the task parked now is never woken', sw.where())
    # Writer wakes the command-queue slot after every pop
    pw = fx.find('rtps::writer::Writer::process_writer_command')
    rep.analysed(pw)
    og = Origins(pw)
    P = Pos(pw)
    pops = [bb for bb, t in pw.calls() if callee_res(t).endswith('try_recv') and
            term_has(og.of_operand(t['args'][0], bb, 'term'), lambda x: x[0] == 'field' and x[1] == 'writer_command_receiver')]
    wakes = [(bb, 'term') for bb, t in pw.calls() if call_matches(t, 'Option::<T>::map', 'Option::map') and
             term_has(og.of_operand(t['args'][0], bb, 'term'), lambda x: x[0] == 'field' and x[1] == 'writer_command_receiver_waker')]
    ok = bool(pops) and bool(wakes)
    if ok:
        for pb in pops:
            # on the Ok arm of the pop, the wake must come before the next pop / return
            ok_edges = [(sbb, tg) for sbb, tg, cond, lab in switch_edges(pw, fx, og)
                        if lab == 'Ok' and term_has(cond, lambda x: x[0] == 'call' and len(x) > 3 and x[3] == pb)]
            for sbb, tg in ok_edges:
                for goal in [(pb, 'term')] + [(r, 'term') for r in pw.return_blocks()]:
                    if P.can_reach((tg, 0), goal, avoid_pos=wakes) and (tg, 0) not in [P.norm(w) for w in wakes]:
                        ok = False
            if not ok_edges:
                ok = False
    rep.check(ok, 'R13.4', 'Writer::process_writer_command/wake-after-pop', 'every popped command is followed by a wake of the queue slot',
              'a command can be popped from the DataWriter->Writer queue without waking the slot a full-queue sender waits on', pw.where())


def rule_13_5(rep, fx):
    rep.rule('R13.5', 'DataWriter::wait_for_acknowledgments registers the completion channel with its Poll before sending the '
                      'command (edge-triggered poll: a completion arriving before registration would be missed)')
    b = fx.find('dds::with_key::datawriter::DataWriter::wait_for_acknowledgments')
    rep.analysed(b)
    P = Pos(b)
    regs = [(bb, 'term') for bb, t in b.calls() if call_matches(t, 'Poll::register')]
    sends = [bb for bb, t in b.calls() if callee_res(t).endswith('try_send')]
    if not sends:
        raise CheckBroken('wait_for_acknowledgments: try_send of the command not found')
    for k, sb in enumerate(sends):
        ok = bool(regs) and P.every_path_passes(None, (sb, 'term'), via_pos=regs, from_entry=True)
        rep.check(ok, 'R13.5', '%s/send#%d' % (b.key, k), 'Poll::register precedes try_send', 'the WaitForAcknowledgments command can be sent before the completion channel is registered with the Poll', b.where(sb))


def rule_13_6(rep, fx):
    rep.rule('R13.6', 'status channel producer (the other half of I2): StatusChannelSender::try_send puts the item in the channel before its waker critical section ends, and on every path that put an item in the '
                      'channel (or found it full) signals the mio source and wakes the stored waker inside that critical section')
    b = fx.find('dds::statusevents::StatusChannelSender::try_send')
    rep.analysed(b)
    og = Origins(b)
    P = Pos(b)
    locks = [(bb, 'term') for bb, t in b.calls() if callee_res(t).endswith('::lock') and term_has(og.of_operand(t['args'][0], bb, 'term'), lambda x: x[0] == 'field' and x[1] == 'waker')]
    sends = [(bb, t) for bb, t in b.calls() if callee_res(t).endswith('try_send') and term_has(og.of_operand(t['args'][0], bb, 'term'), lambda x: x[0] == 'field' and x[1] == 'actual_sender')]
    def guard_drop_blocks():
        return [bb for bb in b.live_blocks() if b.blocks[bb]['term']['t'] == 'drop' and not b.blocks[bb]['term']['pl'].get('p')
                and 'MutexGuard' in b.locals[b.blocks[bb]['term']['pl']['l']]]
    # Either order of lock and send is a correct producer (send; lock; wake  or  lock; send; wake): what matters is that the
    # item is in the channel before the critical section in which the waker slot is read ends.
    ok = len(locks) >= 1 and len(sends) == 1 and not any(P.can_reach((g, 'term'), (sends[0][0], 'term')) for g in guard_drop_blocks())
    rep.check(ok, 'R13.6', 'StatusChannelSender::try_send/send-not-after-unlock', 'the item is sent before the waker lock is released',
              'StatusChannelSender::try_send can send after releasing the waker lock: a receiver that found the channel empty and stored its waker in between is never woken for this item', b.where())
    if not sends:
        return
    sb = sends[0][0]
    edges = primary_edges(b, list(switch_edges(b, fx, og)))
    # the paths that count: the Ok edge of the send result, and every place the function builds its own Ok(..) return value
    # (the channel-full arm reports Ok too). mio_extras' TrySendError variants are not in the local ADT table, hence the return-value form.
    delivered = [(s_, t_) for s_, t_, cond, lab in edges if lab == 'Ok' and term_has(cond, lambda x: x[0] == 'call' and len(x) > 3 and x[3] == sb)]
    ok_rets = [(bb, si) for bb, si, st in b.statements() if st.get('s') == 'assign' and st['lhs']['l'] == 0 and not st['lhs'].get('p')
               and st['rv']['r'] == 'agg' and st['rv'].get('variant') == 'Ok']
    wakes = [(bb, 'term') for bb, t in b.calls() if callee_res(t).endswith('::map') and term_has(og.of_operand(t['args'][0], bb, 'term'), lambda x: x[0] == 'call' and x[1].endswith('::lock'))]
    sigs = [(bb, 'term') for bb, t in b.calls() if call_matches(t, 'PollEventSender::send')]
    wk_closure = any(any(call_matches(tt, 'Waker::wake_by_ref', 'Waker::wake') for _, tt in c.calls()) for c in fx.closures_of(b))
    ok = bool(delivered) and bool(ok_rets) and bool(wakes) and bool(sigs) and wk_closure
    for s_, t_ in delivered:
        for r in b.return_blocks():
            if P.can_reach((t_, 0), (r, 'term'), avoid_pos=wakes) or P.can_reach((t_, 0), (r, 'term'), avoid_pos=sigs):
                ok = False
    for pos in ok_rets:
        if not (P.every_path_passes(None, pos, via_pos=wakes, from_entry=True) and P.every_path_passes(None, pos, via_pos=sigs, from_entry=True)):
            ok = False
    rep.check(ok, 'R13.6', 'StatusChannelSender::try_send/signal-and-wake', 'after a send (or a full channel) the mio source is signalled and the stored waker woken on every path',
              'StatusChannelSender::try_send can return after delivering an item without signalling the poll source and waking the stored waker', b.where())


def run(rep, facts, tier):
    fx = facts['default']
    rep.explanation = ('Path rules on the MIR CFG of every hand-written future/stream, every synchronous read entry point and '
                       'every producer path: the no-lost-wake-up protocol (register, then re-check / publish, then notify) is '
                       'checked on all CFG paths, which covers all interleavings by the classical argument.')
    rep.assume('mio channel / Poll / std Waker behave as documented',
               'one waker slot per reader/writer is shared by all tasks using that entity (documented limitation)')
    rule_13_1(rep, fx)
    rule_13_2(rep, fx)
    rule_13_3(rep, fx)
    rule_13_4(rep, fx)
    rule_13_5(rep, fx)
    rule_13_6(rep, fx)
    # the completion signal of waiting for acknowledgments: a lost reader or an ACKNACK reaches the waiter, completion notifies (decided under C20; C13 names this signal too)
    from rdv import report as _report
    _report.borrow(rep, facts, tier, 'C20', {'R20.3': 'R13.8'})
    rule_13_9(rep, fx)


def rule_13_9(rep, fx):
    """"Did this step move us forward?" compares the frontier after the step with a snapshot from before it (added after seed C13g: the snapshot taken after the range part of a GAP
    had been applied; the second Reader of a topic, for which the shared marker does not move any more, then skipped its notification and stayed parked with a sample available)."""
    rep.rule('R13.9', 'before means before: wherever a Reader decides to notify on all_ackable_before() > <earlier all_ackable_before()>, the earlier value is taken before every call '
                      'that changes the writer proxy before the later value is read (no path from such a call to the snapshot)')
    WP = 'rtps::rtps_writer_proxy::RtpsWriterProxy::'
    n = 0
    bodies = [b for b in fx.bodies if b.key.startswith('rtps::reader::Reader::') and b.kind in ('fn', 'assoc_fn', 'closure')]
    for b in bodies:
        og = Origins(b, summaries=False)
        pairs = []
        for s_, t_, c, lab in switch_edges(b, fx, og):
            if c[0] == 'call' and c[1].rsplit('::', 1)[-1] in ('gt', 'lt', 'ge', 'le') and len(c[2]) == 2:
                x, y = c[2]
                cx = [z for z in _subterms13(x) if z[0] == 'call' and z[1].endswith('all_ackable_before')]
                cy = [z for z in _subterms13(y) if z[0] == 'call' and z[1].endswith('all_ackable_before')]
                if len(cx) == 1 and len(cy) == 1 and len(cx[0]) > 3 and len(cy[0]) > 3 and cx[0][3] != cy[0][3]:
                    m = c[1].rsplit('::', 1)[-1]
                    later, earlier = (cx[0], cy[0]) if m in ('gt', 'ge') else (cy[0], cx[0])
                    pairs.append((earlier[3], later[3], s_))
        if not pairs:
            continue
        rep.analysed(b)
        P = Pos(b)
        muts = []
        for bb, t in b.calls():
            c = callee_res(t)
            if c.startswith(WP) and not c.endswith('all_ackable_before'):
                try:
                    k = fx.find(norm_path(c))
                    if str(k.locals[1]).startswith('&mut'):
                        muts.append((bb, 'term'))
                except Exception:
                    pass
        for earlier, later, cmp_bb in sorted(set(pairs)):
            n += 1
            # the step: updates of the writer proxy that lie before the later reading (calls after it, e.g. the ACKNACK counter, belong to what follows)
            step = [mp for mp in muts if P.can_reach(mp, (later, 'term'))]
            ok = bool(step) and (earlier, 'term') != (later, 'term')
            for mp in step:
                if P.can_reach(mp, (earlier, 'term')):
                    ok = False
            rep.check(ok, 'R13.9', '%s/snapshot-before-the-step' % b.key.replace('rtps::reader::Reader::', ''), 'earlier frontier read before every writer-proxy update of the step',
                      '%s decides whether to notify its DataReader by comparing all_ackable_before() with an earlier value that is not taken before every update of the writer proxy '
                      'in this step: progress made by part of the step is not seen, the notification is skipped whenever the shared '
                      'marker was already moved by another Reader of the topic, and that DataReader stays parked with a sample available' % b.key, b.where())
    rep.floor('R13.9', n, 3, 'before / after comparisons of all_ackable_before() in rtps::reader')


def _subterms13(t):
    out = [t]
    if isinstance(t, tuple):
        for x in t[1:]:
            if isinstance(x, tuple):
                if x and isinstance(x[0], str):
                    out.extend(_subterms13(x))
                else:
                    for y in x:
                        if isinstance(y, tuple):
                            out.extend(_subterms13(y))
    return out
