"""Shared fact: a dispose never enters the sample cache of a DataReader on a NO_KEY topic.

with_key::DataReader::fill_and_lock_local_datasample_cache is the only way into the DataSampleCache (decided under C08/C09 who-may-write rules). If every feasible
path to its fill call passes either the `topic kind != NoKey` edge or the `sample is not a Dispose` edge, the no_key wrappers over the cache-based DataReader
(no_key::DataReader, its iterators and its DataReaderStream) never see a Sample::Dispose: their dispose arms are dead code. Rules that look at those arms
(R09.7 truncating adaptors, R13.1 Pending under the None of from_with_key) use this to stay silent on code where the property holds by that invariant.
The wrappers over SimpleDataReader (no_key::SimpleDataReader, BareDataReaderStream) are not covered: try_take_one hands disposes through.
"""
from rdv.core import Origins, callee_res, call_matches, switch_edges, term_has

_memo = {}


def holds(fx):
    k = id(fx)
    if k not in _memo:
        _memo[k] = _decide(fx)
    return _memo[k]


def _decide(fx):
    from rdv.sympath import SymPath
    bs = [b for b in fx.bodies if b.name == 'fill_and_lock_local_datasample_cache' and b.kind in ('fn', 'assoc_fn') and 'with_key::datareader' in b.key]
    if len(bs) != 1:
        return False
    b = bs[0]
    og = Origins(b, summaries=True)
    fills = [bb for bb, t in b.calls() if call_matches(t, 'DataSampleCache::fill_from_deserialized_cache_change')]
    # nothing else writes the cache from this function's callers: the fill call is the single entry (R08 who-may-write)
    if not fills:
        return False
    edges = list(switch_edges(b, fx, og))

    def is_nokey_test(c):
        return c[0] == 'call' and c[1].endswith(('::eq', '::ne')) and term_has(c, lambda x: x[0] == 'call' and x[1].endswith('::kind')) and \
            term_has(c, lambda x: (x[0] == 'agg' and str(x[1]).endswith('TopicKind::NoKey')) or (x[0] == 'const' and 'NoKey' in str(x[-1])))
    nokey_false = set((s_, t_) for s_, t_, c, lab in edges if is_nokey_test(c) and ((c[1].endswith('::eq') and lab is False) or (c[1].endswith('::ne') and lab is True)))
    nondisp = set((s_, t_) for s_, t_, c, lab in edges if c[0] == 'discr' and term_has(c, lambda x: x[0] == 'field' and x[1] == 'sample') and
                  term_has(c, lambda x: x[0] == 'call' and x[1].endswith('try_take_one')) and
                  (lab == 'Value' or (isinstance(lab, tuple) and lab[0] == 'not' and 'Dispose' in lab[1])))
    if not nokey_false or not nondisp:
        return False
    sp = SymPath(b, fx)
    good = nokey_false | nondisp
    for fb in fills:
        for path in sp.paths(0, fb, through_heads=True):
            pe = set((path[i], path[i + 1]) for i in range(len(path) - 1))
            if pe & good:
                continue
            st = sp.run(path, 'term')
            if st.infeasible:
                continue
            return False
    return True
