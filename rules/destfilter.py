"""Destination filter of the MessageReceiver (shared by C02 / C17 / C06): a submessage is dropped as "not for this participant" exactly when the destination prefix is
neither our own nor UNKNOWN."""
from rdv import boolform
from rdv.core import Origins, callee_res, switch_edges, term_str

MR = 'rtps::message_receiver::MessageReceiver::'


def _namer(t, og, bb):
    cr = callee_res(t)
    if cr.endswith(('::ne', '::eq')) and len(t['args']) == 2:
        txt = ' '.join(term_str(og.of_operand(x, bb, 'term')) for x in t['args'])
        if 'dest_guid_prefix' in txt:
            which = 'own' if 'own_guid_prefix' in txt else ('unknown' if 'UNKNOWN' in txt else None)
            if which:
                return '%s:%s' % (cr.rsplit('::', 1)[-1], which)
    return None


def boolform_through(b, bb):
    hops = 0
    while hops < 16 and not b.blocks[bb]['st'] and b.blocks[bb]['term']['t'] == 'goto':
        bb = b.blocks[bb]['term']['target']
        hops += 1
    return bb


def run_rule(rep, fx, rid, cfg='default', floor=2):
    if cfg == 'default':
        rep.rule(rid, 'destination filter: wherever MessageReceiver compares dest_guid_prefix with its own prefix and with UNKNOWN, the submessage is dropped iff '
                      'dest != own AND dest != UNKNOWN (decision table over the two comparisons: all four assignments), so traffic addressed to this participant or to everyone goes on '
                      'and only traffic for somebody else is ignored')
    n = 0
    per_fn = {}
    for b in fx.bodies:
        if not b.key.startswith(MR) or b.kind not in ('fn', 'assoc_fn'):
            continue
        og = Origins(b, summaries=False)
        sites = {}
        for s_, t_, cond, lab in switch_edges(b, fx, og):
            if cond[0] == 'call' and cond[1].endswith(('::ne', '::eq')) and len(cond) > 3:
                nm = _namer(b.blocks[cond[3]]['term'], og, cond[3])
                if nm:
                    sites.setdefault(cond[3], {})[lab] = (s_, t_, nm)
        # pair up: an `own` comparison whose true (ne) edge leads to an `unknown` comparison
        owns = [(cb, d) for cb, d in sites.items() if d.get(True, (0, 0, ''))[2].endswith(':own')]
        for cb, d in owns:
            n += 1
            tb = d[True][1] if d[True][2].startswith('ne') else d[False][1]      # dest != own
            # the unknown comparison reached from there
            unk = [(ub, ud) for ub, ud in sites.items() if ud.get(True, (0, 0, ''))[2].endswith(':unknown')]
            ok = False
            why = 'no comparison with UNKNOWN follows'
            for ub, ud in unk:
                drop_b = ud[True][1] if ud[True][2].startswith('ne') else ud[False][1]       # dest != UNKNOWN as well -> dropped
                cont_b = ud[False][1] if ud[True][2].startswith('ne') else ud[True][1]
                T = boolform.table(b, fx, _namer, start=cb, stop_blocks={drop_b: 'drop', cont_b: 'continue'})
                a_own, a_unk = d[True][2], ud[True][2]
                bad = []
                for vo in (False, True):
                    for vu in (False, True):
                        ne_own = vo if a_own.startswith('ne') else not vo
                        ne_unk = vu if a_unk.startswith('ne') else not vu
                        want = 'drop' if (ne_own and ne_unk) else 'continue'
                        got = T.eval({a_own: vo, a_unk: vu})
                        if got != want:
                            bad.append('dest%sown, dest%sUNKNOWN -> %s (expected %s)' % ('!=' if ne_own else '==', '!=' if ne_unk else '==', got, want))
                # the dropped side does nothing but log and return; the other side is where the work starts
                stop = boolform_through(b, cont_b)
                seen, todo = set(), [drop_b]
                while todo:
                    x = todo.pop()
                    if x in seen:
                        continue
                    seen.add(x)
                    if boolform_through(b, x) == stop:
                        bad.append('the dropped side falls through into the processing')
                        continue
                    t_ = b.blocks[x]['term']
                    if t_['t'] == 'call' and not boolform._is_logging(t_) and not (t_.get('mac') or ''):
                        bad.append('the dropped side calls %s' % callee_res(t_))
                    todo.extend(y for y in b.succs(x) if not b.blocks[y].get('cleanup'))
                if not bad:
                    ok = True
                else:
                    why = '; '.join(bad[:2])
            fnn = b.key.rsplit('::', 1)[-1]
            per_fn[fnn] = per_fn.get(fnn, 0) + 1
            rep.check(ok, rid, '%s%s/dest-filter#%d' % ('' if cfg == 'default' else cfg + ':', fnn, per_fn[fnn]), 'dropped iff dest != own AND dest != UNKNOWN',
                      '%s: the "not for this participant" filter does not drop exactly the submessages whose destination is neither this participant nor UNKNOWN (%s): traffic for '
                      'this participant is ignored, or traffic for others is processed' % (b.key.rsplit('::', 1)[-1], why), b.where(cb))
    rep.floor(rid, n, floor, 'destination filters in MessageReceiver (%s features)' % cfg)
